"""Finite-model evaluation of ``cli.common.setup_task_paths`` (C10).

The function is loaded from its *syntax tree* into the analyser's interpreter
(:mod:`sa.lib_C04`) and evaluated on a model file system with a model of
``pathlib.Path``: files are keyed by their canonical name, and several
spellings (a symbolic link, a ``sub/..`` detour, a relative name) can denote
the same file – ``resolve()`` is the only operation that sees through them.
Nothing of dclab is imported or executed.
"""
from __future__ import annotations

import posixpath

from . import lib_C04 as L
from .core import AnalysisError

COMMON = "dclab/cli/common.py"


class FS:
    """model file system: `files` = canonical names that exist; `alias` =
    spelling -> canonical name"""

    def __init__(self, files=(), alias=None):
        self.files = set(files)
        self.alias = dict(alias or {})
        self.removed = []

    def canon(self, s):
        s = self.alias.get(s, s)
        return posixpath.normpath(s)


class MPath:
    """model of pathlib.Path (pure operations are lexical, like pathlib's)"""
    _strict_attrs = True

    def __init__(self, fs, s):
        if isinstance(s, MPath):
            s = s.s
        if not isinstance(s, str):
            raise L.ModelFault("TypeError", f"expected str or Path, got "
                               f"{type(s).__name__}", None)
        self.fs = fs
        self.s = s

    # -- lexical -------------------------------------------------------
    @property
    def name(self):
        return posixpath.basename(self.s)

    @property
    def suffix(self):
        n = self.name
        i = n.rfind(".")
        return n[i:] if 0 < i < len(n) - 1 else ""

    @property
    def suffixes(self):
        n = self.name.lstrip(".")
        return ["." + p for p in n.split(".")[1:]]

    @property
    def stem(self):
        n = self.name
        i = n.rfind(".")
        return n[:i] if 0 < i < len(n) - 1 else n

    @property
    def parent(self):
        return MPath(self.fs, posixpath.dirname(self.s) or ".")

    @property
    def parts(self):
        return tuple(p for p in self.s.split("/") if p)

    def with_name(self, name):
        return MPath(self.fs, posixpath.join(posixpath.dirname(self.s), name))

    def with_suffix(self, suffix):
        if suffix and not suffix.startswith("."):
            raise L.ModelFault("ValueError", f"Invalid suffix {suffix!r}",
                               None)
        return self.with_name(self.stem + suffix)

    def with_stem(self, stem):
        return self.with_name(stem + self.suffix)

    def __truediv__(self, other):
        o = other.s if isinstance(other, MPath) else other
        return MPath(self.fs, posixpath.join(self.s, o))

    def __eq__(self, other):
        return isinstance(other, MPath) and other.s == self.s

    def __ne__(self, other):
        return not self == other

    def __hash__(self):
        return hash(("MPath", self.s))

    def __lt__(self, other):
        return self.s < other.s

    def __str__(self):
        return self.s

    def __repr__(self):
        return f"Path({self.s!r})"

    def __fspath__(self):
        return self.s

    def as_posix(self):
        return self.s

    def is_absolute(self):
        return self.s.startswith("/")

    # -- file system ---------------------------------------------------
    def resolve(self, strict=False):
        return MPath(self.fs, self.fs.canon(self.s))

    def absolute(self):
        return self          # lexical: does not see through links

    def expanduser(self):
        return self

    def exists(self):
        return self.fs.canon(self.s) in self.fs.files

    def is_file(self):
        return self.exists()

    def is_dir(self):
        return False

    def samefile(self, other):
        o = other if isinstance(other, MPath) else MPath(self.fs, other)
        if not self.exists() or not o.exists():
            raise L.ModelFault("FileNotFoundError", self.s, None)
        return self.fs.canon(self.s) == self.fs.canon(o.s)

    def glob(self, pattern):
        import fnmatch
        d = self.fs.canon(self.s)
        out = []
        for f in sorted(self.fs.files):
            if posixpath.dirname(f) == d and fnmatch.fnmatch(
                    posixpath.basename(f), pattern):
                out.append(MPath(self.fs, f))
        return out

    def iterdir(self):
        return self.glob("*")

    def unlink(self, missing_ok=False):
        c = self.fs.canon(self.s)
        if c not in self.fs.files:
            if missing_ok:
                return
            raise L.ModelFault("FileNotFoundError", self.s, None)
        self.fs.files.discard(c)
        self.fs.removed.append(c)


class Model:
    def __init__(self, repo):
        from .lib_C03 import _install_walrus
        _install_walrus()
        from .lib_common import extras
        self.repo = repo
        self.it = L.Interp(repo)
        self.fs = FS()
        class _PathFactory(L.ModelType):
            """callable class token: Path(x) and isinstance(x, Path)"""

            def __call__(_s, *a):
                if len(a) != 1:
                    raise AnalysisError("Path() with several segments is "
                                        "not modelled")
                return MPath(self.fs, a[0])
        pf = _PathFactory("Path", lambda o: isinstance(o, MPath))
        self._pf = pf
        ospath = L.namespace(
            "os.path",
            realpath=lambda p: self.fs.canon(str(p)),
            abspath=lambda p: str(p), normpath=lambda p: posixpath.normpath(
                str(p)),
            exists=lambda p: self.fs.canon(str(p)) in self.fs.files,
            samefile=lambda a, b: self.fs.canon(str(a)) == self.fs.canon(
                str(b)),
            basename=lambda p: posixpath.basename(str(p)),
            dirname=lambda p: posixpath.dirname(str(p)))

        def os_remove(p):
            MPath(self.fs, str(p)).unlink()
        ext = {
            **extras(L),
            "pathlib": L.namespace("pathlib", Path=pf, PurePath=pf),
            "os": L.namespace("os", path=ospath, remove=os_remove,
                              unlink=os_remove, fspath=lambda p: str(p)),
            "itertools": __import__("itertools"),
            "warnings": L.namespace("warnings", warn=lambda *a, **k: None),
        }
        self.env = self.it.env(COMMON, ext)
        self.func = self.env.lookup("setup_task_paths")

    def call(self, fs, paths_in, paths_out, suffixes):
        self.fs.files = set(fs.files)
        self.fs.alias = dict(fs.alias)
        self.fs.removed = []
        return L.run(lambda: self.func(paths_in, paths_out, suffixes))
