"""Source edits for the sensitivity self-test (in-memory overlays)."""
from __future__ import annotations

import ast


class StaleEdit(Exception):
    """The edit no longer applies to the current tree (skipped, reported)"""


def apply_edit(src, edit, _check=True):
    """`edit` is ``(old, new)`` – `old` must occur exactly once –,
    ``(old, new, n)`` – replace the n-th (0-based) occurrence –, a list of
    such edits, or a callable ``src -> src``.  The result must parse."""
    if callable(edit):
        new = edit(src)
        if new == src:
            raise StaleEdit("callable edit changed nothing")
    elif isinstance(edit, list):
        new = src
        for e in edit:
            new = apply_edit(new, e, _check=False)
    else:
        old, rep = edit[0], edit[1]
        cnt = src.count(old)
        if len(edit) == 3:
            n = edit[2]
            if cnt <= n:
                raise StaleEdit(f"pattern occurs {cnt}× (<={n}): {old!r}")
            parts = src.split(old)
            new = old.join(parts[:n + 1]) + rep + old.join(parts[n + 1:])
        else:
            if cnt != 1:
                raise StaleEdit(f"pattern occurs {cnt}× (need 1): {old!r}")
            new = src.replace(old, rep)
    if _check and not new.rstrip().endswith(("\\",)):
        try:
            if "cdef " not in new and "cimport " not in new:
                ast.parse(new)
        except SyntaxError as e:
            raise StaleEdit(f"edited source does not parse: {e}")
    return new


def apply_diff(diff_text, get_src):
    """Apply a unified diff (``git diff`` output) in memory.

    `get_src(rel)` returns the current text of a file (raises on a missing
    file).  Returns ``{rel: new_text}``.  Hunks are located by their
    context (nearest match to the recorded position), so a diff survives
    unrelated line shifts; a hunk whose old text is gone raises StaleEdit.
    """
    import re
    files = {}
    cur = None
    hunk = None
    new_file = False
    for line in diff_text.splitlines():
        if line.startswith("diff --git "):
            m = re.match(r"diff --git a/(\S+) b/(\S+)", line)
            cur = m.group(2)
            files[cur] = []
            hunk = None
            new_file = False
        elif cur is None:
            continue
        elif line.startswith(("new file mode", "deleted file mode",
                              "rename from", "Binary files")):
            raise StaleEdit("diff creates/deletes/renames a file")
        elif line.startswith(("index ", "--- ", "+++ ", "old mode",
                              "new mode", "similarity")) and hunk is None:
            continue
        elif line.startswith("@@"):
            m = re.match(r"@@ -(\d+)(?:,\d+)? \+(\d+)(?:,\d+)? @@", line)
            hunk = {"at": int(m.group(1)), "old": [], "new": []}
            files[cur].append(hunk)
        elif hunk is not None:
            if line.startswith("\\"):
                continue
            tag, body = (line[:1], line[1:]) if line else (" ", "")
            if tag in " -":
                hunk["old"].append(body)
            if tag in " +":
                hunk["new"].append(body)
    out = {}
    for rel, hunks in files.items():
        if not hunks:
            continue
        try:
            src = get_src(rel)
        except Exception:
            raise StaleEdit(f"{rel} not present")
        lines = src.split("\n")
        offset = 0
        for h in hunks:
            old, new = h["old"], h["new"]
            want = h["at"] - 1 + offset
            cands = [i for i in range(len(lines) - len(old) + 1)
                     if lines[i:i + len(old)] == old]
            if not cands:
                raise StaleEdit(f"hunk @{h['at']} of {rel} does not apply")
            i = min(cands, key=lambda c: abs(c - want))
            lines[i:i + len(old)] = new
            offset += len(new) - len(old)
        text = "\n".join(lines)
        if rel.endswith(".py"):
            try:
                ast.parse(text)
            except SyntaxError as e:
                raise StaleEdit(f"patched {rel} does not parse: {e}")
        out[rel] = text
    if not out:
        raise StaleEdit("empty diff")
    return out
