"""Source edits for the sensitivity self-test (in-memory overlays)."""
from __future__ import annotations

import ast


class StaleEdit(Exception):
    """The edit no longer applies to the current tree (skipped, reported)"""


def apply_edit(src, edit):
    """`edit` is ``(old, new)`` – `old` must occur exactly once –,
    ``(old, new, n)`` – replace the n-th (0-based) occurrence –, a list of
    such edits, or a callable ``src -> src``.  The result must parse."""
    if callable(edit):
        new = edit(src)
        if new == src:
            raise StaleEdit("callable edit changed nothing")
    elif isinstance(edit, list):
        new = src
        for e in edit:
            new = apply_edit(new, e)
        return new
    else:
        old, rep = edit[0], edit[1]
        cnt = src.count(old)
        if len(edit) == 3:
            n = edit[2]
            if cnt <= n:
                raise StaleEdit(f"pattern occurs {cnt}× (<={n}): {old!r}")
            parts = src.split(old)
            new = old.join(parts[:n + 1]) + rep + old.join(parts[n + 1:])
        else:
            if cnt != 1:
                raise StaleEdit(f"pattern occurs {cnt}× (need 1): {old!r}")
            new = src.replace(old, rep)
    if not new.rstrip().endswith(("\\",)):
        try:
            if "cdef " not in new and "cimport " not in new:
                ast.parse(new)
        except SyntaxError as e:
            raise StaleEdit(f"edited source does not parse: {e}")
    return new
