"""Finite-model evaluation of the incremental event filter (C03).

``Filter`` (dclab/rtdc_dataset/filter.py) is loaded from its syntax tree into
the analyser's interpreter (:mod:`sa.lib_C04`) and driven through *histories*
of settings changes on a model dataset (six events, three scalar features with
nan and inf, a model polygon-filter registry, a deterministic model of the
random draw).  After every update the combined filter is compared with the
specification evaluated from scratch on the current settings.  Nothing of
dclab is imported or executed.
"""
from __future__ import annotations

import copy
import math

from . import lib_C04 as L
from .core import AnalysisError

FILT = "dclab/rtdc_dataset/filter.py"
NAN, INF = float("nan"), float("inf")

DATA = {
    "deform": [0.1, 0.3, 0.5, NAN, 0.7, INF],
    "area_um": [10.0, 20.0, NAN, 40.0, 50.0, 60.0],
    "time": [1.0, 2.0, 3.0, 4.0, 5.0, 6.0],
}
N = 6
DEFAULTS = {"remove invalid events": False, "enable filters": True,
            "limit events": 0, "polygon filters": [],
            "hierarchy parent": "none"}


class _ViewList:
    """window into the storage of another array (numpy slice = view)"""

    def __init__(self, base, idxs):
        self.base = base
        self.idxs = idxs

    def __len__(self):
        return len(self.idxs)

    def __iter__(self):
        return (self.base[i] for i in self.idxs)

    def __getitem__(self, i):
        if isinstance(i, slice):
            return [self.base[j] for j in self.idxs[i]]
        return self.base[self.idxs[i]]

    def __setitem__(self, i, v):
        if isinstance(i, slice):
            tgt = self.idxs[i]
            v = list(v)
            if len(v) != len(tgt):
                raise L.ModelFault("ValueError", "could not broadcast input "
                                   "array")
            for j, x in zip(tgt, v):
                self.base[j] = x
            return
        self.base[self.idxs[i]] = v


class VArr(L.Arr):
    """model array whose slices and .view() share storage with it"""

    def _window(self, idxs):
        v = VArr.__new__(VArr)
        v.data = _ViewList(self.data, idxs)
        v.dtype = self.dtype
        v.writable = self.writable
        return v

    def __getitem__(self, idx):
        if isinstance(idx, slice):
            return self._window(list(range(*idx.indices(len(self.data)))))
        r = L.Arr.__getitem__(self, idx)
        if isinstance(r, L.Arr) and not isinstance(r, VArr):
            r = VArr(r.data, r.dtype)
        return r

    def view(self, *a, **k):
        return self._window(list(range(len(self.data))))

    def copy(self):
        return VArr(list(self.data), self.dtype)

    def fill(self, v):
        for i in range(len(self.data)):
            self.data[i] = v


def _install_walrus():
    import ast as _ast
    if hasattr(L.Interp, "e_NamedExpr"):
        return

    def e_NamedExpr(self, e, f):
        v = self.eval(e.value, f)
        self.assign(e.target, v, f)
        return v
    L.Interp.e_NamedExpr = e_NamedExpr


class Cfg(dict):
    """model of Configuration: copy() is deep"""

    def copy(self):
        return Cfg(copy.deepcopy(dict(self)))


class Poly:
    """model polygon filter: an axis-parallel rectangle"""
    instances = []

    def __init__(self, uid, axes, rect, inverted=False):
        self.unique_id = uid
        self.axes = tuple(axes)
        self.rect = tuple(rect)          # (x0, x1, y0, y1)
        self.inverted = inverted
        self.n_filter_calls = 0

    @property
    def hash(self):
        return f"h:{self.axes}:{self.rect}:{self.inverted}"

    def inside(self, x, y):
        if x != x or y != y:
            r = False
        else:
            x0, x1, y0, y1 = self.rect
            r = x0 <= x <= x1 and y0 <= y <= y1
        return (not r) if self.inverted else r

    def filter(self, datax, datay):
        self.n_filter_calls += 1
        return VArr([self.inside(a, b) for a, b in zip(datax, datay)],
                    dtype="bool")


class PolyRegistry:
    def __init__(self):
        self.by_id = {}

    def get_instance_from_id(self, uid):
        if uid not in self.by_id:
            raise L.ModelRaise(L.ExcValue("KeyError", (uid,)))
        return self.by_id[uid]


class DS:
    def __init__(self, features=None):
        self.data = {k: list(v) for k, v in (features or DATA).items()}
        self.config = Cfg({"filtering": dict(copy.deepcopy(DEFAULTS))})
        self.identifier = "mm-model"
        self.format = "dict"
        #: features whose data have been read so far (area_um stands for a
        #: lazily computed / basin feature that is not loaded at first)
        self.loaded = set(self.data) - {"area_um"}

    @property
    def features_loaded(self):
        return sorted(self.loaded & set(self.data))

    @property
    def features_innate(self):
        return sorted(self.data)

    @property
    def features_scalar(self):
        return sorted(self.data)

    @property
    def features(self):
        return sorted(self.data)

    def __len__(self):
        return N

    def __getitem__(self, feat):
        if feat not in self.data:
            raise L.ModelRaise(L.ExcValue("KeyError", (feat,)))
        self.loaded.add(feat)
        return VArr(list(self.data[feat]), dtype="float")

    def __contains__(self, feat):
        return feat in self.data


def _downsample_rand(a, samples, remove_invalid=False, ret_idx=False):
    """deterministic model of the random draw: the first `samples`"""
    n = len(a)
    idx = VArr([(i < samples) or samples <= 0 or samples >= n
                for i in range(n)], dtype="bool")
    dx = a[idx]
    return (dx, idx) if ret_idx else dx


def _np_extra():
    def isinf(a):
        if isinstance(a, L.Arr):
            return L.Arr([isinstance(v, float) and math.isinf(v)
                          for v in a.data], dtype="bool")
        return isinstance(a, float) and math.isinf(a)

    def isfinite(a):
        if isinstance(a, L.Arr):
            return L.Arr([not (isinstance(v, float) and (
                math.isinf(v) or math.isnan(v))) for v in a.data],
                dtype="bool")
        return not (isinstance(a, float) and (math.isinf(a) or math.isnan(a)))

    def isclose(a, b, *r, **k):
        return a == b or abs(a - b) <= 1e-8 + 1e-5 * abs(b)

    def logical_or(a, b):
        return a | b

    def unique(a):
        return sorted(set(a.data if isinstance(a, L.Arr) else a))

    def invert(a, out=None):
        r = ~a
        if out is not None:
            out[:] = r
            return out
        return r

    def count_nonzero(a):
        return sum(1 for v in a.data if v)

    def _full(shape, val, dtype=None):
        n = shape[0] if isinstance(shape, (tuple, list)) else shape
        return VArr([val] * int(n), dtype)

    def logical_and(a, b, out=None):
        r = a & b
        if out is not None:
            out[:] = r
            return out
        return r

    def logical_not(a, out=None):
        return invert(a, out)

    def like(val):
        return lambda a, dtype=None, **k: _full(len(a), val, dtype)
    return {"ones": lambda shape, dtype=None, **k: _full(shape, True if dtype in (bool, "bool") else 1.0, dtype),
            "zeros": lambda shape, dtype=None, **k: _full(shape, False if dtype in (bool, "bool") else 0.0, dtype),
            "empty": lambda shape, dtype=None, **k: _full(shape, False if dtype in (bool, "bool") else 0.0, dtype),
            "full": lambda shape, fill_value, dtype=None, **k: _full(shape, fill_value, dtype),
            "ones_like": like(True), "zeros_like": like(False),
            "logical_and": logical_and, "logical_not": logical_not,
            "copy": lambda a: a.copy(), "array": lambda a, dtype=None, copy=True, **k: VArr(list(a.data if isinstance(a, L.Arr) else a), dtype),
            "asarray": lambda a, *r, **k: a if isinstance(a, L.Arr) else VArr(list(a)),"isinf": isinf, "isfinite": isfinite, "isclose": isclose,
            "logical_or": logical_or, "unique": unique, "invert": invert,
            "count_nonzero": count_nonzero, "nan": NAN, "inf": INF,
            "bool_": "bool"}


def scalar_feature_exists(name):
    return name in ("deform", "area_um", "time", "bright_avg", "volume") or (
        isinstance(name, str) and name.startswith("ml_score_")
        and len(name) == 12)


class Model:
    def __init__(self, repo, features=None):
        from .lib_C17 import _install_class_state
        _install_class_state()     # class-level constants (enum members)
        _install_walrus()
        self.it = L.Interp(repo)
        self.reg = PolyRegistry()
        self.warned = []
        from .lib_common import extras
        ext = {
            **extras(L),
            "np": L.NPModel(_np_extra()),
            "warnings": L.namespace(
                "warnings", warn=lambda *a, **k: self.warned.append(a)),
            "dfn": L.namespace("dfn",
                               scalar_feature_exists=scalar_feature_exists),
            "downsampling": L.namespace(
                "downsampling", downsample_rand=_downsample_rand),
            "PolygonFilter": self.reg,
            "copy": L.namespace("copy", deepcopy=copy.deepcopy,
                                copy=copy.copy),
            "bool": bool, "slice": slice, "type": type, "map": map, "filter": filter,
            "id": id, "iter": iter, "next": next, "round": round,
        }
        self.env = self.it.env(FILT, ext)
        self.cls = self.env.lookup("Filter")
        self.ds = DS(features)
        r = L.run(lambda: self.cls(self.ds))
        if r[0] != "ok":
            raise AnalysisError(f"Filter(ds) cannot be evaluated: {r}")
        self.filt = r[1]

    @property
    def cfg(self):
        return self.ds.config["filtering"]

    def update(self, force=None):
        if force is None:
            return L.run(lambda: L.lookup_attr(self.it, self.filt, "update",
                                               None)(self.ds))
        return L.run(lambda: L.lookup_attr(self.it, self.filt, "update",
                                           None)(self.ds, force=force))

    def reset(self):
        r = L.run(lambda: L.lookup_attr(self.it, self.filt, "reset", None)())
        self.ds.config["filtering"] = dict(copy.deepcopy(DEFAULTS))
        return r

    def arr(self, name):
        r = L.run(lambda: L.lookup_attr(self.it, self.filt, name, None))
        if r[0] != "ok" or not isinstance(r[1], L.Arr):
            raise AnalysisError(f"Filter.{name} is not an array in the "
                                f"model: {r!r}")
        return [bool(v) for v in r[1].data]

    def manual(self):
        r = L.run(lambda: L.lookup_attr(self.it, self.filt, "manual", None))
        if r[0] != "ok" or not isinstance(r[1], L.Arr):
            raise AnalysisError("Filter.manual is not an array in the model")
        return r[1]

    # -- specification, evaluated from scratch -----------------------------
    def spec(self):
        cfg = self.cfg
        data = self.ds.data
        box = [True] * N
        for feat in data:
            lo, hi = cfg.get(feat + " min"), cfg.get(feat + " max")
            if lo is None or hi is None or lo == hi:
                continue
            lo, hi = min(lo, hi), max(lo, hi)
            for i, v in enumerate(data[feat]):
                box[i] = box[i] and (v == v) and lo <= v <= hi
        invalid = [True] * N
        if cfg["remove invalid events"]:
            for feat in data:
                for i, v in enumerate(data[feat]):
                    if v != v or v in (INF, -INF):
                        invalid[i] = False
        poly = [True] * N
        for uid in cfg["polygon filters"]:
            pf = self.reg.by_id[uid]
            if pf.axes[0] in data and pf.axes[1] in data:
                for i in range(N):
                    poly[i] = poly[i] and pf.inside(data[pf.axes[0]][i],
                                                    data[pf.axes[1]][i])
        man = [bool(v) for v in self.manual().data]
        if not cfg["enable filters"]:
            return {"all": [True] * N, "box": box, "invalid": invalid,
                    "polygon": poly}
        al = [a and b and c and d for a, b, c, d in zip(box, invalid, poly,
                                                        man)]
        lim = cfg["limit events"]
        if lim > 0:
            seen = 0
            for i in range(N):
                if al[i]:
                    seen += 1
                    if seen > lim:
                        al[i] = False
        return {"all": al, "box": box, "invalid": invalid, "polygon": poly}
