"""Two small abstract domains.

(a) *Order types*: a predicate that touches its operands only through
    comparisons takes one truth value per weak ordering of the operands (plus
    NaN cases).  `orderings(names)` enumerates one representative assignment
    per weak ordering; `eval_pred` evaluates a parsed predicate on it.  This
    is an exhaustive abstract evaluation, not sampling.

(b) *Rational functions* over named symbols (exact, `fractions.Fraction`
    coefficients) to compare arithmetic expressions up to commutativity,
    re-association, ``a*a`` vs ``a**2`` – `ratfun(expr, resolve)`.
"""
from __future__ import annotations

import ast
import itertools
import math
from fractions import Fraction

from .core import AnalysisError, txt


# ---------------------------------------------------------------- (a)

def orderings(names, with_nan=()):
    """One representative per weak ordering of `names` (values 0..k-1);
    names in `with_nan` additionally take the value NaN"""
    k = len(names)
    seen = set()
    out = []
    for combo in itertools.product(range(k), repeat=k):
        # canonical form: ranks must be dense
        ranks = sorted(set(combo))
        canon = tuple(ranks.index(c) for c in combo)
        if canon in seen:
            continue
        seen.add(canon)
        out.append(dict(zip(names, [float(c) for c in canon])))
    extra = []
    for n in with_nan:
        for env in out:
            e = dict(env)
            e[n] = math.nan
            if e not in extra:
                extra.append(e)
    return out + extra


def eval_pred(e, env, resolve=None):
    """Evaluate a comparison-only expression; `resolve(node)` may map an
    arbitrary sub-expression to a symbol name of `env`"""
    if resolve is not None:
        s = resolve(e)
        if s is not None:
            return env[s]
    if isinstance(e, ast.Constant):
        return e.value
    if isinstance(e, ast.Name):
        if e.id in env:
            return env[e.id]
        raise AnalysisError(f"order-type evaluation: unknown name {e.id}")
    if isinstance(e, ast.BoolOp):
        vals = [eval_pred(v, env, resolve) for v in e.values]
        if isinstance(e.op, ast.And):
            return all(vals)
        return any(vals)
    if isinstance(e, ast.UnaryOp):
        v = eval_pred(e.operand, env, resolve)
        if isinstance(e.op, ast.Not):
            return not v
        if isinstance(e.op, ast.USub):
            return -v
        if isinstance(e.op, ast.Invert):
            return not v
    if isinstance(e, ast.Compare):
        left = eval_pred(e.left, env, resolve)
        for op, c in zip(e.ops, e.comparators):
            right = eval_pred(c, env, resolve)
            if not _cmp(op, left, right):
                return False
            left = right
        return True
    if isinstance(e, ast.BinOp):
        a = eval_pred(e.left, env, resolve)
        b = eval_pred(e.right, env, resolve)
        if isinstance(e.op, ast.BitAnd):
            return a and b
        if isinstance(e.op, ast.BitOr):
            return a or b
        if isinstance(e.op, ast.Add):
            return a + b
        if isinstance(e.op, ast.Sub):
            return a - b
        if isinstance(e.op, ast.Mult):
            return a * b
    raise AnalysisError(
        f"order-type evaluation: unsupported expression {txt(e)}")


def _cmp(op, a, b):
    if isinstance(op, ast.Lt):
        return a < b
    if isinstance(op, ast.LtE):
        return a <= b
    if isinstance(op, ast.Gt):
        return a > b
    if isinstance(op, ast.GtE):
        return a >= b
    if isinstance(op, ast.Eq):
        return a == b
    if isinstance(op, ast.NotEq):
        return a != b
    raise AnalysisError("order-type evaluation: unsupported comparison")


# ---------------------------------------------------------------- (b)

class Poly:
    """polynomial with Fraction coefficients; monomial = sorted tuple of
    (symbol, exponent)"""

    def __init__(self, terms=None):
        self.t = {k: v for k, v in (terms or {}).items() if v != 0}

    @staticmethod
    def const(c):
        return Poly({(): Fraction(c)})

    @staticmethod
    def sym(s):
        return Poly({((s, 1),): Fraction(1)})

    def __add__(self, o):
        t = dict(self.t)
        for k, v in o.t.items():
            t[k] = t.get(k, 0) + v
        return Poly(t)

    def __neg__(self):
        return Poly({k: -v for k, v in self.t.items()})

    def __sub__(self, o):
        return self + (-o)

    def __mul__(self, o):
        t = {}
        for k1, v1 in self.t.items():
            for k2, v2 in o.t.items():
                d = dict(k1)
                for s, e in k2:
                    d[s] = d.get(s, 0) + e
                k = tuple(sorted((s, e) for s, e in d.items() if e))
                t[k] = t.get(k, 0) + v1 * v2
        return Poly(t)

    def __eq__(self, o):
        return self.t == o.t

    def is_zero(self):
        return not self.t

    def __repr__(self):
        return " + ".join(f"{v}*{k}" for k, v in sorted(self.t.items())) or "0"


class Rat:
    def __init__(self, num, den=None):
        self.n = num
        self.d = den if den is not None else Poly.const(1)

    def __add__(self, o):
        return Rat(self.n * o.d + o.n * self.d, self.d * o.d)

    def __sub__(self, o):
        return Rat(self.n * o.d - o.n * self.d, self.d * o.d)

    def __mul__(self, o):
        return Rat(self.n * o.n, self.d * o.d)

    def __truediv__(self, o):
        return Rat(self.n * o.d, self.d * o.n)

    def __neg__(self):
        return Rat(-self.n, self.d)

    def __pow__(self, k):
        if k == 0:
            return Rat(Poly.const(1))
        if k < 0:
            return Rat(self.d, self.n) ** (-k)
        r = self
        for _ in range(k - 1):
            r = r * self
        return r

    def same(self, o):
        return (self.n * o.d - o.n * self.d).is_zero()

    def monomial(self):
        """{symbol: exponent} and coefficient if this is c * prod s^e"""
        if len(self.n.t) != 1 or len(self.d.t) != 1:
            return None
        (kn, cn), = self.n.t.items()
        (kd, cd), = self.d.t.items()
        exps = dict(kn)
        for s, e in kd:
            exps[s] = exps.get(s, 0) - e
        return {s: e for s, e in exps.items() if e}, cn / cd


def ratfun(e, resolve):
    """Rational function of an arithmetic expression.  `resolve(node)`
    returns a symbol name, a Rat, or None (descend)."""
    r = resolve(e)
    if isinstance(r, Rat):
        return r
    if isinstance(r, str):
        return Rat(Poly.sym(r))
    if isinstance(e, ast.Constant) and isinstance(e.value, (int, float)):
        return Rat(Poly.const(Fraction(e.value).limit_denominator(10**9)))
    if isinstance(e, ast.BinOp):
        if isinstance(e.op, ast.Pow):
            base = ratfun(e.left, resolve)
            if isinstance(e.right, ast.Constant) and isinstance(
                    e.right.value, int):
                return base ** e.right.value
            if isinstance(e.right, ast.UnaryOp) and isinstance(
                    e.right.op, ast.USub) and isinstance(
                    e.right.operand, ast.Constant):
                return base ** (-e.right.operand.value)
            raise AnalysisError(f"ratfun: non-integer power {txt(e)}")
        a = ratfun(e.left, resolve)
        b = ratfun(e.right, resolve)
        if isinstance(e.op, ast.Add):
            return a + b
        if isinstance(e.op, ast.Sub):
            return a - b
        if isinstance(e.op, ast.Mult):
            return a * b
        if isinstance(e.op, ast.Div):
            return a / b
    if isinstance(e, ast.UnaryOp) and isinstance(e.op, ast.USub):
        return -ratfun(e.operand, resolve)
    if isinstance(e, ast.UnaryOp) and isinstance(e.op, ast.UAdd):
        return ratfun(e.operand, resolve)
    raise AnalysisError(f"ratfun: unsupported expression {txt(e)}")
