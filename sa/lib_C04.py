"""Finite-model evaluation of repository syntax.

A small interpreter for the subset of Python that the index-mapping code of
``fmt_hierarchy``, the copy routines of ``copier.py`` / ``task_condense.py`` and
a few functions of ``dclab/features`` are written in.  A rule loads function
and class definitions from the *syntax trees* of /repo (through
``sa.core.Repo`` – overlays included), binds every external name to a model
supplied by the rule (a list-backed array type, model datasets, model HDF5
objects, exact rational numbers, …) and evaluates the definitions on **all**
members of a small finite family of models.  The results are compared with
the specification written in the rule.

Nothing of the repository is imported or executed: the analyser walks the
AST with its own semantics; a construct or an external name that is not
modelled raises ``AnalysisError`` (fail closed).

Three kinds of abnormal termination are distinguished

* ``ModelRaise``  – the interpreted code executed a ``raise`` statement
* ``ModelFault``  – an operation that fails at run time on this model
                     (attribute of ``None``, missing key, ambiguous truth
                     value of an array, …) – a *behaviour* of the code
* ``AnalysisError`` – the analyser does not know (never a verdict)
"""
from __future__ import annotations

import ast
import math
import operator

from .core import AnalysisError, txt, loc

MAX_LOOP = 200
MAX_DEPTH = 60


class ModelRaise(Exception):
    def __init__(self, exc, node=None):
        super().__init__(repr(exc))
        self.exc = exc
        self.node = node

    @property
    def kind(self):
        e = self.exc
        if isinstance(e, ExcValue):
            return e.name
        return type(e).__name__


class ModelFault(Exception):
    def __init__(self, kind, msg, node=None):
        super().__init__(f"{kind}: {msg}")
        self.kind = kind
        self.msg = msg
        self.node = node


class ExcValue:
    """instance of an exception class of the interpreted code"""

    def __init__(self, name, args=()):
        self.name = name
        self.args = tuple(args)

    def __repr__(self):
        return f"{self.name}{self.args!r}"


class ExcClass:
    def __init__(self, name):
        self.name = name

    def __call__(self, *args, **kw):
        return ExcValue(self.name, args)


class _Return(Exception):
    def __init__(self, value):
        self.value = value


class _Break(Exception):
    pass


class _Continue(Exception):
    pass


class Opaque:
    """value of an un-modelled, side-effect free external call; may be
    passed around and formatted, never branched on"""

    def __init__(self, label="?"):
        self.label = label

    def __repr__(self):
        return f"<opaque {self.label}>"

    def __str__(self):
        return f"<{self.label}>"

    def __format__(self, spec):
        return str(self)

    def __bool__(self):
        raise AnalysisError(f"branch on un-modelled value {self.label}")

    def __getattr__(self, name):
        if name.startswith("__"):
            raise AttributeError(name)
        return Opaque(f"{self.label}.{name}")

    def __call__(self, *a, **k):
        return Opaque(f"{self.label}()")

    def __getitem__(self, k):
        return Opaque(f"{self.label}[]")


# ----------------------------------------------------------------------
# list-backed array (1-D) with the numpy semantics that the analysed code uses

def _is_boolseq(x):
    return len(x) > 0 and all(isinstance(v, bool) for v in x)


class Arr:
    __array_model__ = True

    def __init__(self, data=(), dtype=None, writable=True):
        self.data = list(data)
        self.dtype = dtype
        self.writable = writable

    # -- basic protocol
    def __len__(self):
        return len(self.data)

    def __iter__(self):
        return iter(list(self.data))

    def __repr__(self):
        return f"Arr({self.data!r})"

    def __bool__(self):
        if len(self.data) == 1:
            return bool(self.data[0])
        if len(self.data) == 0:
            return False
        raise ModelFault("ValueError", "The truth value of an array with more "
                         "than one element is ambiguous")

    @property
    def shape(self):
        return (len(self.data),)

    @property
    def size(self):
        return len(self.data)

    @property
    def ndim(self):
        return 1

    @property
    def flags(self):
        return _Flags(self)

    def tolist(self):
        return list(self.data)

    @property
    def itemsize(self):
        return 1 if all(isinstance(v, bool) for v in self.data[:1]) else 8

    @property
    def nbytes(self):
        return len(self.data) * self.itemsize

    def tobytes(self, *a, **k):
        if self.itemsize == 1:
            return bytes(bytearray(1 if v else 0 for v in self.data))
        return repr(self.data).encode()

    def reshape(self, *shape):
        if shape in ((-1,), ((-1,),), (len(self.data),)):
            return self.view()
        raise AnalysisError(f"model array: reshape{shape} not modelled")

    def copy(self):
        return Arr(self.data, self.dtype)

    def view(self):
        v = Arr.__new__(Arr)
        v.data = self.data      # shared buffer
        v.dtype = self.dtype
        v.writable = self.writable
        return v

    def flatten(self):
        return self.copy()

    ravel = flatten

    def astype(self, dtype, *a, **k):
        return Arr(self.data, dtype)

    def setflags(self, write=None, **k):
        if write is not None:
            self.writable = bool(write)

    def sum(self, *a, **k):
        return sum(self.data)

    def all(self, *a, **k):
        return all(self.data)

    def any(self, *a, **k):
        return any(self.data)

    def min(self, *a, **k):
        return min(self.data)

    def max(self, *a, **k):
        return max(self.data)

    def nonzero(self):
        return (Arr([i for i, v in enumerate(self.data) if v]),)

    # -- indexing
    def _resolve(self, idx):
        """-> ('one', i) | ('many', [i...])"""
        if isinstance(idx, tuple):
            if len(idx) != 1:
                raise ModelFault("IndexError", "too many indices for array")
            idx = idx[0]
        if isinstance(idx, bool):
            raise AnalysisError("boolean scalar index on model array")
        if isinstance(idx, int):
            n = len(self.data)
            if not -n <= idx < n:
                raise ModelFault("IndexError", f"index {idx} is out of bounds "
                                 f"for axis 0 with size {n}")
            return "one", idx % n if n else idx
        if isinstance(idx, slice):
            return "many", list(range(*idx.indices(len(self.data))))
        if idx is Ellipsis:
            return "many", list(range(len(self.data)))
        if isinstance(idx, (Arr, list)):
            seq = idx.data if isinstance(idx, Arr) else idx
            if _is_boolseq(seq):
                if len(seq) != len(self.data):
                    raise ModelFault("IndexError", "boolean index did not "
                                     "match indexed array")
                return "many", [i for i, v in enumerate(seq) if v]
            if len(seq) == 0:
                return "many", []
            out = []
            n = len(self.data)
            for v in seq:
                if isinstance(v, bool) or not isinstance(v, int):
                    raise ModelFault("IndexError", "arrays used as indices "
                                     "must be of integer (or boolean) type")
                if not -n <= v < n:
                    raise ModelFault("IndexError", f"index {v} is out of "
                                     f"bounds for axis 0 with size {n}")
                out.append(v % n)
            return "many", out
        raise AnalysisError(f"model array index of type {type(idx).__name__}")

    def __getitem__(self, idx):
        kind, where = self._resolve(idx)
        if kind == "one":
            return self.data[where]
        return Arr([self.data[i] for i in where], self.dtype)

    def __setitem__(self, idx, val):
        if not self.writable:
            raise ModelFault("ValueError", "assignment destination is "
                             "read-only")
        kind, where = self._resolve(idx)
        if kind == "one":
            self.data[where] = val
            return
        if isinstance(val, (Arr, list, tuple)):
            seq = list(val.data if isinstance(val, Arr) else val)
            if len(seq) == 1:
                seq = seq * len(where)
            if len(seq) != len(where):
                raise ModelFault("ValueError", "shape mismatch: value array "
                                 f"of length {len(seq)} could not be "
                                 f"broadcast to {len(where)} positions")
            for i, v in zip(where, seq):
                self.data[i] = v
        else:
            for i in where:
                self.data[i] = val

    # -- arithmetic
    def _bin(self, other, op, rev=False):
        if isinstance(other, (Arr, list, tuple)):
            seq = list(other.data if isinstance(other, Arr) else other)
            a = self.data
            if len(seq) == 1 and len(a) != 1:
                seq = seq * len(a)
            if len(a) == 1 and len(seq) != 1:
                a = a * len(seq)
            if len(seq) != len(a):
                raise ModelFault("ValueError", "operands could not be "
                                 "broadcast together")
            if rev:
                return Arr([op(y, x) for x, y in zip(a, seq)])
            return Arr([op(x, y) for x, y in zip(a, seq)])
        if rev:
            return Arr([op(other, x) for x in self.data])
        return Arr([op(x, other) for x in self.data])

    def __add__(self, o): return self._bin(o, operator.add)
    def __radd__(self, o): return self._bin(o, operator.add, True)
    def __sub__(self, o): return self._bin(o, operator.sub)
    def __rsub__(self, o): return self._bin(o, operator.sub, True)
    def __mul__(self, o): return self._bin(o, operator.mul)
    def __rmul__(self, o): return self._bin(o, operator.mul, True)
    def __truediv__(self, o): return self._bin(o, operator.truediv)
    def __pow__(self, o): return self._bin(o, operator.pow)
    def __abs__(self): return Arr([abs(v) for v in self.data])
    def __and__(self, o): return self._bin(o, operator.and_)
    def __rand__(self, o): return self._bin(o, operator.and_, True)
    def __or__(self, o): return self._bin(o, operator.or_)
    def __ror__(self, o): return self._bin(o, operator.or_, True)
    def __eq__(self, o): return self._bin(o, operator.eq)
    def __ne__(self, o): return self._bin(o, operator.ne)
    def __lt__(self, o): return self._bin(o, operator.lt)
    def __le__(self, o): return self._bin(o, operator.le)
    def __gt__(self, o): return self._bin(o, operator.gt)
    def __ge__(self, o): return self._bin(o, operator.ge)
    __hash__ = None

    def __iadd__(self, o):
        self.data[:] = self._bin(o, operator.add).data
        return self

    def __isub__(self, o):
        self.data[:] = self._bin(o, operator.sub).data
        return self

    def __iand__(self, o):
        self.data[:] = self._bin(o, operator.and_).data
        return self

    def __invert__(self):
        if not all(isinstance(v, bool) for v in self.data):
            return Arr([~v for v in self.data])
        return Arr([not v for v in self.data])

    def __neg__(self):
        return Arr([-v for v in self.data])


class _Flags:
    def __init__(self, arr):
        object.__setattr__(self, "_arr", arr)

    @property
    def writeable(self):
        return self._arr.writable

    def __setattr__(self, k, v):
        if k == "writeable":
            self._arr.writable = bool(v)
        else:
            raise AnalysisError(f"array flag {k} not modelled")


class Mat:
    """small dense 2-D matrix (rows of arbitrary ring elements)"""

    def __init__(self, rows):
        self.rows = [list(r) for r in rows]
        if len({len(r) for r in self.rows}) > 1:
            raise ModelFault("ValueError", "inhomogeneous matrix")

    @property
    def shape(self):
        return (len(self.rows), len(self.rows[0]) if self.rows else 0)

    def __len__(self):
        return len(self.rows)

    def __getitem__(self, idx):
        if isinstance(idx, tuple) and len(idx) == 2:
            r, c = idx
            rows = self.rows[r] if isinstance(r, slice) else [self.rows[
                _chk(r, len(self.rows))]]
            if isinstance(c, slice):
                out = [row[c] for row in rows]
                if isinstance(r, slice):
                    return Mat(out)
                return Arr(out[0])
            nc = self.shape[1]
            col = [row[_chk(c, nc)] for row in rows]
            if isinstance(r, slice):
                return Arr(col)
            return col[0]
        if isinstance(idx, int):
            return Arr(self.rows[_chk(idx, len(self.rows))])
        if isinstance(idx, slice):
            return Mat(self.rows[idx])
        raise AnalysisError("matrix index not modelled")

    def flatten(self):
        return Arr([v for r in self.rows for v in r])

    def _ew(self, other, op, rev=False):
        if isinstance(other, Mat):
            if other.shape != self.shape:
                raise ModelFault("ValueError", "operands could not be "
                                 "broadcast together")
            return Mat([[op(b, a) if rev else op(a, b)
                         for a, b in zip(r1, r2)]
                        for r1, r2 in zip(self.rows, other.rows)])
        if isinstance(other, (Arr, list, tuple)):
            raise AnalysisError("matrix/vector broadcasting not modelled")
        return Mat([[op(other, a) if rev else op(a, other) for a in r]
                    for r in self.rows])

    def __add__(self, o): return self._ew(o, operator.add)
    def __radd__(self, o): return self._ew(o, operator.add, True)
    def __sub__(self, o): return self._ew(o, operator.sub)
    def __rsub__(self, o): return self._ew(o, operator.sub, True)
    def __mul__(self, o): return self._ew(o, operator.mul)
    def __rmul__(self, o): return self._ew(o, operator.mul, True)
    def __truediv__(self, o): return self._ew(o, operator.truediv)
    def __neg__(self): return Mat([[-a for a in r] for r in self.rows])
    __array_priority__ = 100

    @property
    def T(self):
        return Mat([list(c) for c in zip(*self.rows)])

    def transpose(self):
        return self.T


def _chk(i, n):
    if not isinstance(i, int) or isinstance(i, bool):
        raise AnalysisError("non-integer matrix index")
    if not -n <= i < n:
        raise ModelFault("IndexError", f"index {i} out of bounds (size {n})")
    return i % n


def _seq(x):
    if isinstance(x, Arr):
        return list(x.data)
    if isinstance(x, (list, tuple, set, frozenset, range)):
        return list(x)
    if isinstance(x, (int, float, bool)):
        return [x]
    raise AnalysisError(f"model numpy: cannot read {type(x).__name__} as array")


class NPModel:
    """the part of numpy the analysed functions use, on Arr / Mat"""
    nan = math.nan
    pi = math.pi
    ndarray = "np.ndarray"
    float64 = "float64"
    int64 = "int64"
    uint8 = "uint8"
    bool_ = "bool"

    def __init__(self, extra=None):
        self.linalg = _Namespace("np.linalg", {})
        self.lib = Opaque("np.lib")
        if extra:
            for k, v in extra.items():
                setattr(self, k, v)

    @staticmethod
    def where(cond, *rest):
        if rest:
            raise AnalysisError("np.where with 3 arguments not modelled")
        return (Arr([i for i, v in enumerate(_seq(cond)) if v]),)

    @staticmethod
    def nonzero(a):
        return NPModel.where(a)

    @staticmethod
    def flatnonzero(a):
        return NPModel.where(a)[0]

    @staticmethod
    def argwhere(a):
        raise AnalysisError("np.argwhere not modelled")

    @staticmethod
    def isin(a, b, **k):
        inv = bool(k.get("invert", False))
        bs = _seq(b)
        return Arr([(v in bs) != inv for v in _seq(a)])

    in1d = isin

    @staticmethod
    def arange(*a, **k):
        return Arr(range(*a))

    @staticmethod
    def sum(a, *r, **k):
        return sum(_seq(a))

    count_nonzero = sum

    @staticmethod
    def all(a, *r, **k):
        return all(_seq(a))

    @staticmethod
    def any(a, *r, **k):
        return any(_seq(a))

    @staticmethod
    def cumsum(a, *r, **k):
        out, s = [], 0
        for v in _seq(a):
            s += v
            out.append(s)
        return Arr(out)

    @staticmethod
    def array(a, dtype=None, copy=True, *r, **k):
        if isinstance(a, Mat):
            return Mat(a.rows)
        if isinstance(a, (list, tuple)) and a and all(
                isinstance(r_, (list, tuple, Arr)) for r_ in a):
            return Mat([_seq(r_) for r_ in a])
        return Arr(_seq(a), dtype)

    asarray = array

    @staticmethod
    def atleast_1d(a):
        return Arr(_seq(a))

    @staticmethod
    def copy(a):
        return Arr(_seq(a))

    @staticmethod
    def _full(shape, val, dtype=None):
        if isinstance(shape, tuple):
            if len(shape) != 1:
                raise AnalysisError("model numpy: only 1-D allocation")
            shape = shape[0]
        if isinstance(shape, bool) or not isinstance(shape, int):
            raise ModelFault("TypeError", f"bad shape {shape!r}")
        return Arr([val] * shape, dtype)

    @staticmethod
    def empty(shape, dtype=None, **k):
        return NPModel._full(shape, "<uninitialised>", dtype)

    @staticmethod
    def zeros(shape, dtype=None, **k):
        z = False if dtype in (bool, "bool") else 0
        return NPModel._full(shape, z, dtype)

    @staticmethod
    def ones(shape, dtype=None, **k):
        o = True if dtype in (bool, "bool") else 1
        return NPModel._full(shape, o, dtype)

    @staticmethod
    def full(shape, fill_value, dtype=None, **k):
        return NPModel._full(shape, fill_value, dtype)

    @staticmethod
    def unique(a):
        return Arr(sorted(set(_seq(a))))

    @staticmethod
    def sort(a):
        return Arr(sorted(_seq(a)))

    @staticmethod
    def concatenate(seqs, **k):
        out = []
        for s in seqs:
            out += _seq(s)
        return Arr(out)

    @staticmethod
    def union1d(a, b):
        return Arr(sorted(set(_seq(a)) | set(_seq(b))))

    @staticmethod
    def intersect1d(a, b, **k):
        return Arr(sorted(set(_seq(a)) & set(_seq(b))))

    @staticmethod
    def setdiff1d(a, b, **k):
        return Arr(sorted(set(_seq(a)) - set(_seq(b))))

    @staticmethod
    def logical_not(a):
        return Arr([not v for v in _seq(a)])

    invert = logical_not

    @staticmethod
    def logical_and(a, b):
        return Arr([bool(x and y) for x, y in zip(_seq(a), _seq(b))])

    @staticmethod
    def searchsorted(a, v, **k):
        import bisect
        side = k.get("side", "left")
        f = bisect.bisect_left if side == "left" else bisect.bisect_right
        sa = _seq(a)
        if isinstance(v, (Arr, list, tuple)):
            return Arr([f(sa, x) for x in _seq(v)])
        return f(sa, v)

    @staticmethod
    def isnan(a):
        if isinstance(a, (Arr, list, tuple)):
            return Arr([isinstance(v, float) and math.isnan(v)
                        for v in _seq(a)])
        return isinstance(a, float) and math.isnan(a)

    @staticmethod
    def isscalar(a):
        return isinstance(a, (int, float, bool, str))

    @staticmethod
    def zeros_like(a, dtype=None, **k):
        return Arr([0] * len(_seq(a)), dtype)

    @staticmethod
    def ones_like(a, dtype=None, **k):
        return Arr([1] * len(_seq(a)), dtype)

    @staticmethod
    def abs(a):
        if isinstance(a, (Arr, list, tuple)):
            return Arr([abs(v) for v in _seq(a)])
        return abs(a)

    absolute = abs

    @staticmethod
    def diff(a, *r, **k):
        if r or k:
            raise AnalysisError("np.diff with options not modelled")
        d = _seq(a)
        return Arr([y - x for x, y in zip(d[:-1], d[1:])])

    @staticmethod
    def average(a, *r, **k):
        if r or k:
            raise AnalysisError("np.average with options not modelled")
        d = _seq(a)
        if not d:
            raise ModelFault("ZeroDivisionError", "average of empty array")
        return sum(d) / len(d)

    mean = average

    @staticmethod
    def arctan2(y, x):
        if isinstance(y, (Arr, list, tuple)):
            return Arr([math.atan2(a, b) for a, b in zip(_seq(y), _seq(x))])
        return math.atan2(y, x)

    @staticmethod
    def unwrap(p, *r, **k):
        if r or k:
            raise AnalysisError("np.unwrap with options not modelled")
        d = _seq(p)
        out = list(d[:1])
        for v in d[1:]:
            delta = v - out[-1]
            delta = (delta + math.pi) % (2 * math.pi) - math.pi
            if delta == -math.pi and v - out[-1] > 0:
                delta = math.pi
            out.append(out[-1] + delta)
        return Arr(out)

    @staticmethod
    def resize(a, new_shape):
        d = _seq(a)
        if isinstance(new_shape, tuple):
            if len(new_shape) != 1:
                raise AnalysisError("np.resize to n-d not modelled")
            new_shape = new_shape[0]
        if not d:
            return Arr([0] * new_shape)
        return Arr([d[i % len(d)] for i in range(new_shape)])

    @staticmethod
    def sign(a):
        f = (lambda v: (v > 0) - (v < 0))
        if isinstance(a, (Arr, list, tuple)):
            return Arr([f(v) for v in _seq(a)])
        return f(a)

    @staticmethod
    def roll(a, shift, *r, **k):
        d = _seq(a)
        if not d:
            return Arr([])
        s_ = -shift % len(d)
        return Arr(d[s_:] + d[:s_])

    @staticmethod
    def sqrt(a):
        if isinstance(a, (Arr, list, tuple)):
            return Arr([math.sqrt(v) for v in _seq(a)])
        return math.sqrt(a)

    @staticmethod
    def prod(a, *r, **k):
        if r or k:
            raise AnalysisError("np.prod with options not modelled")
        out = 1
        for v in _seq(a):
            out *= v
        return out

    @staticmethod
    def cross(a, b):
        raise AnalysisError("np.cross not modelled")

    @staticmethod
    def _ew2(f, a, b):
        if isinstance(a, (Arr, list, tuple)) or isinstance(
                b, (Arr, list, tuple)):
            sa = _seq(a) if isinstance(a, (Arr, list, tuple)) else None
            sb = _seq(b) if isinstance(b, (Arr, list, tuple)) else None
            n = len(sa if sa is not None else sb)
            sa = sa if sa is not None else [a] * n
            sb = sb if sb is not None else [b] * n
            if len(sa) != len(sb):
                raise ModelFault("ValueError", "operands could not be "
                                 "broadcast together")
            return Arr([f(x, y) for x, y in zip(sa, sb)])
        return f(a, b)

    @staticmethod
    def minimum(a, b):
        return NPModel._ew2(min, a, b)

    @staticmethod
    def maximum(a, b):
        return NPModel._ew2(max, a, b)

    @staticmethod
    def ceil(a):
        if isinstance(a, (Arr, list, tuple)):
            return Arr([float(math.ceil(v)) for v in _seq(a)])
        return float(math.ceil(a))

    @staticmethod
    def floor(a):
        if isinstance(a, (Arr, list, tuple)):
            return Arr([float(math.floor(v)) for v in _seq(a)])
        return float(math.floor(a))


class _Namespace:
    def __init__(self, label, members):
        self._label = label
        self.__dict__.update(members)

    def __getattr__(self, name):
        if name.startswith("__"):
            raise AttributeError(name)
        raise AnalysisError(f"un-modelled name {self._label}.{name}")


def namespace(label, **members):
    return _Namespace(label, members)


# ----------------------------------------------------------------------
# functions, classes and objects of the interpreted code

class Closure:
    def __init__(self, interp, node, genv, owner=None, cell=None):
        self.interp = interp
        self.node = node
        self.genv = genv          # module environment (dict-like)
        self.owner = owner        # AstClass for methods
        self.cell = cell          # enclosing local env (nested defs/lambdas)
        self.__name__ = getattr(node, "name", "<lambda>")

    def __call__(self, *args, **kwargs):
        return self.interp.call_closure(self, list(args), dict(kwargs))

    def __repr__(self):
        return f"<closure {self.__name__}>"


class BoundMethod:
    def __init__(self, func, obj):
        self.func = func
        self.obj = obj

    def __call__(self, *args, **kwargs):
        return self.func(self.obj, *args, **kwargs)


class AstClass:
    def __init__(self, interp, node, genv):
        self.interp = interp
        self.node = node
        self.genv = genv
        self.name = node.name
        self._members = None

    @property
    def members(self):
        if self._members is None:
            m = {}
            for st in self.node.body:
                if isinstance(st, (ast.FunctionDef,)):
                    m.setdefault(st.name, []).append(st)
            self._members = m
        return self._members

    def class_attr(self, name):
        """value of a class-level assignment ``name = <expr>`` - evaluated
        once, so that a mutable default is one object shared by all
        instances (as in Python); raises KeyError when there is none"""
        if not hasattr(self, "_cattrs"):
            self._cattrs = {}
            self._cexprs = {}
            for st in self.node.body:
                if isinstance(st, ast.Assign):
                    for t in st.targets:
                        if isinstance(t, ast.Name):
                            self._cexprs[t.id] = st.value
                elif isinstance(st, ast.AnnAssign) and st.value is not None \
                        and isinstance(st.target, ast.Name):
                    self._cexprs[st.target.id] = st.value
        if name not in self._cattrs:
            if name not in self._cexprs:
                raise KeyError(name)
            self._cattrs[name] = self.interp.eval(
                self._cexprs[name], Frame(self.genv, {}))
        return self._cattrs[name]

    def bases(self):
        out = []
        for b in self.node.bases:
            v = None
            if isinstance(b, ast.Name):
                try:
                    v = self.genv.lookup(b.id)
                except AnalysisError:
                    v = None
            out.append(v if isinstance(v, (AstClass, PyBase)) else None)
        return out

    def mro(self):
        out = [self]
        for b in self.bases():
            if isinstance(b, AstClass):
                for c in b.mro():
                    if c not in out:
                        out.append(c)
            elif isinstance(b, PyBase):
                out.append(b)
        return out

    def is_exception(self):
        for b in self.node.bases:
            if txt(b).split(".")[-1] in ("BaseException", "Exception",
                                         "ValueError", "KeyError",
                                         "UserWarning", "Warning"):
                return True
        return any(isinstance(b, AstClass) and b.is_exception()
                   for b in self.bases())

    def __call__(self, *args, **kwargs):
        if self.is_exception():
            return ExcValue(self.name, args)
        obj = AstObject(self)
        init = find_member(self.mro(), "__init__")
        if init is not None:
            init_f, owner = init
            call_member(self.interp, init_f, owner, obj, args, kwargs)
        return obj

    def __repr__(self):
        return f"<class {self.name}>"


class PyBase:
    """python-side stand-in for a base class that is not interpreted;
    `methods` maps name -> callable(obj, *args, **kwargs)"""

    def __init__(self, name, methods=None, props=None):
        self.name = name
        self.methods = dict(methods or {})
        #: names in `props` are properties: callable(obj) evaluated on read
        self.props = set(props or ())


def find_member(mro, name, after=None):
    """(definition, owner) of the first class in `mro` (after `after`)
    that defines `name`"""
    started = after is None
    for c in mro:
        if not started:
            if c is after:
                started = True
            continue
        if isinstance(c, AstClass):
            defs = c.members.get(name)
            if defs:
                return defs, c
        elif isinstance(c, PyBase):
            if name in c.methods:
                return c.methods[name], c
    return None


def _decorators(fd):
    return [txt(d) for d in fd.decorator_list]


def call_member(interp, defs, owner, obj, args, kwargs):
    if isinstance(owner, PyBase):
        return defs(obj, *args, **kwargs)
    fd = defs[-1]
    clo = Closure(interp, fd, owner.genv, owner=owner)
    return clo(obj, *args, **kwargs)


class AstObject:
    """instance of an AstClass"""

    def __init__(self, cls):
        object.__setattr__(self, "_cls", cls)
        object.__setattr__(self, "_attrs", {})

    def __repr__(self):
        return f"<{self._cls.name} object>"


class SuperProxy:
    def __init__(self, obj, mro, after):
        self.obj = obj
        self.mro = mro
        self.after = after


def instance_mro(obj):
    if isinstance(obj, AstObject):
        return obj._cls.mro()
    ac = getattr(obj, "_ast_class", None)
    if ac is not None:
        return ac.mro()
    return []


# ----------------------------------------------------------------------

class Env:
    """module environment: definitions of one source file + externals"""

    def __init__(self, interp, rel, externals=None, lazy_unknown=True):
        self.interp = interp
        self.rel = rel
        self.ext = dict(externals or {})
        self.defs = {}
        self.assigns = {}
        self.imported = set()
        self.std = {}        # names bound by imports of modelled stdlib
        tree = interp.repo.tree(rel)
        for st in tree.body:
            self._collect(st)
        self.cache = {}

    def _collect(self, st):
        if isinstance(st, (ast.FunctionDef, ast.ClassDef)):
            self.defs[st.name] = st
        elif isinstance(st, ast.Assign):
            for t in st.targets:
                if isinstance(t, ast.Name):
                    self.assigns[t.id] = st.value
        elif isinstance(st, ast.AnnAssign) and st.value is not None \
                and isinstance(st.target, ast.Name):
            self.assigns[st.target.id] = st.value
        elif isinstance(st, ast.Import):
            for a in st.names:
                self.imported.add((a.asname or a.name).split(".")[0])
                if a.name in STDLIB_MODELS:
                    self.std[a.asname or a.name] = (a.name, None)
        elif isinstance(st, ast.ImportFrom):
            for a in st.names:
                self.imported.add((a.asname or a.name).split(".")[0])
                if st.level == 0 and st.module in STDLIB_MODELS:
                    self.std[a.asname or a.name] = (st.module, a.name)
        elif isinstance(st, (ast.If, ast.Try)):
            for s in st.body:
                self._collect(s)

    def lookup(self, name):
        if name in self.cache:
            return self.cache[name]
        if name in self.ext:
            return self.ext[name]
        if name in self.defs:
            d = self.defs[name]
            if isinstance(d, ast.ClassDef):
                v = AstClass(self.interp, d, self)
            else:
                v = Closure(self.interp, d, self)
                if any(txt(x).split(".")[-1] == "contextmanager"
                       for x in d.decorator_list):
                    v = _GenContext.factory(v)
            self.cache[name] = v
            return v
        if name in self.assigns:
            v = self.interp.eval(self.assigns[name], Frame(self, {}))
            self.cache[name] = v
            return v
        if name in self.std:
            mod, member = self.std[name]
            ns = STDLIB_MODELS[mod]
            if member is None:
                return ns
            try:
                return getattr(ns, member)
            except (AttributeError, AnalysisError):
                raise AnalysisError(f"{self.rel}: `{mod}.{member}` is not "
                                    f"modelled by the analyser")
        if name in BUILTINS:
            return BUILTINS[name]
        # ``from .sibling import helper``: a function / class / constant of
        # another module of the repository is loaded from that module's
        # syntax tree (with the same externals)
        if name in self.imported:
            from .normalize import resolve_from_import
            r = resolve_from_import(self.interp.repo, self.rel, name)
            if r is not None and r[0] != self.rel:
                key = (r[0], id(self.ext))
                envs = self.interp.__dict__.setdefault("_import_envs", {})
                env2 = envs.get(key)
                if env2 is None:
                    env2 = Env(self.interp, r[0], self.ext)
                    envs[key] = env2
                v = env2.lookup(r[1])
                self.cache[name] = v
                return v
        raise AnalysisError(
            f"{self.rel}: name `{name}` is not modelled by the analyser")


class Frame:
    __slots__ = ("genv", "loc", "closure", "depth", "parent")

    def __init__(self, genv, loc, closure=None, depth=0, parent=None):
        self.genv = genv
        self.loc = loc
        self.closure = closure
        self.depth = depth
        self.parent = parent     # enclosing frame's locals (nested scopes)

    def get(self, name, node=None):
        if name in self.loc:
            return self.loc[name]
        p = self.parent
        while p is not None:
            if name in p.loc:
                return p.loc[name]
            p = p.parent
        return self.genv.lookup(name)


def _py_isinstance(obj, cls):
    if isinstance(cls, tuple):
        return any(_py_isinstance(obj, c) for c in cls)
    if isinstance(cls, AstClass):
        return cls in instance_mro(obj)
    if isinstance(cls, ModelType):
        return cls.check(obj)
    if cls == "np.ndarray":
        return isinstance(obj, (Arr, Mat))
    if isinstance(cls, type):
        if cls is list:
            return isinstance(obj, list)
        return isinstance(obj, cls)
    raise AnalysisError(f"isinstance against un-modelled class {cls!r}")


class ModelType:
    """class token for isinstance() tests on model objects"""

    def __init__(self, name, check):
        self.name = name
        self.check = check

    def __repr__(self):
        return f"<type {self.name}>"


def _py_len(x):
    if isinstance(x, Opaque):
        raise AnalysisError("len() of un-modelled value")
    try:
        return len(x)
    except TypeError:
        f = lookup_attr(None, x, "__len__", None)
        return f()


def _py_print(*a, **k):
    return None


def _py_hasattr(o, name):
    try:
        lookup_attr(None, o, name, None)
        return True
    except ModelFault:
        return False


_NODEFAULT = object()


def _py_getattr(o, name, default=_NODEFAULT):
    try:
        return lookup_attr(None, o, name, None)
    except ModelFault as e:
        if e.kind == "AttributeError" and default is not _NODEFAULT:
            return default
        raise


def _py_setattr(o, name, value):
    store_attr(None, o, name, value, None)


def _py_super(*a):
    raise AnalysisError("super() outside of a method call")


BUILTINS = {
    "len": _py_len, "list": list, "set": set, "sorted": sorted,
    "range": range, "min": min, "max": max, "sum": sum, "tuple": tuple,
    "dict": dict, "print": _py_print, "reversed": reversed,
    "enumerate": enumerate, "zip": zip, "int": int, "bool": bool,
    "str": str, "abs": abs, "any": any, "all": all, "float": float,
    "isinstance": _py_isinstance, "hasattr": _py_hasattr,
    "getattr": _py_getattr, "setattr": _py_setattr,
    "frozenset": frozenset, "repr": repr, "bytes": bytes,
    "next": next, "iter": iter, "map": map, "filter": filter,
    "divmod": divmod, "round": round, "pow": pow, "slice": slice,
    "callable": callable, "format": format, "ord": ord, "chr": chr,
    "bytearray": bytearray, "id": id,
    "RuntimeError": ExcClass("RuntimeError"), "OSError": ExcClass("OSError"),
    "StopIteration": ExcClass("StopIteration"),
    "AssertionError": ExcClass("AssertionError"),
    "ZeroDivisionError": ExcClass("ZeroDivisionError"),
    "FileNotFoundError": ExcClass("FileNotFoundError"),
    "RuntimeWarning": ExcClass("RuntimeWarning"),
    "FutureWarning": ExcClass("FutureWarning"),
    "True": True, "False": False, "None": None,
    "ValueError": ExcClass("ValueError"), "KeyError": ExcClass("KeyError"),
    "IndexError": ExcClass("IndexError"), "TypeError": ExcClass("TypeError"),
    "AttributeError": ExcClass("AttributeError"),
    "NotImplementedError": ExcClass("NotImplementedError"),
    "BaseException": ExcClass("BaseException"),
    "Exception": ExcClass("Exception"),
    "UserWarning": ExcClass("UserWarning"),
    "DeprecationWarning": ExcClass("DeprecationWarning"),
    "object": PyBase("object", {"__init__": lambda obj, *a, **k: None}),
}

NATIVE_FAULTS = (AttributeError, KeyError, IndexError, TypeError, ValueError,
                 ZeroDivisionError, StopIteration)

_BINOPS = {
    ast.Add: operator.add, ast.Sub: operator.sub, ast.Mult: operator.mul,
    ast.Div: operator.truediv, ast.FloorDiv: operator.floordiv,
    ast.Mod: operator.mod, ast.Pow: operator.pow,
    ast.BitAnd: operator.and_, ast.BitOr: operator.or_,
    ast.BitXor: operator.xor, ast.LShift: operator.lshift,
    ast.RShift: operator.rshift,
}
_INPLACE = {
    ast.Add: operator.iadd, ast.Sub: operator.isub, ast.Mult: operator.imul,
    ast.Div: operator.itruediv, ast.BitAnd: operator.iand,
    ast.BitOr: operator.ior, ast.Pow: operator.ipow,
    ast.FloorDiv: operator.ifloordiv, ast.Mod: operator.imod,
    ast.BitXor: operator.ixor,
}
_CMPOPS = {
    ast.Eq: operator.eq, ast.NotEq: operator.ne, ast.Lt: operator.lt,
    ast.LtE: operator.le, ast.Gt: operator.gt, ast.GtE: operator.ge,
    ast.Is: operator.is_, ast.IsNot: operator.is_not,
}


def lookup_attr(interp, obj, name, node):
    """attribute read with the python object model, AST classes included"""
    if isinstance(obj, SuperProxy):
        got = find_member(obj.mro, name, after=obj.after)
        if got is None:
            # un-modelled base: constructors and resets are no-ops
            if name in ("__init__",):
                return lambda *a, **k: None
            raise AnalysisError(f"super().{name}: base class not modelled")
        defs, owner = got
        return _bind(obj.obj, defs, owner, name)
    if isinstance(obj, AstObject):
        if name in obj._attrs:
            return obj._attrs[name]
        got = find_member(obj._cls.mro(), name)
        if got is not None:
            defs, owner = got
            return _bind(obj, defs, owner, name)
        if name == "__class__":
            return obj._cls
        for c in obj._cls.mro():
            if isinstance(c, AstClass):
                try:
                    return c.class_attr(name)
                except KeyError:
                    pass
        raise ModelFault("AttributeError", f"'{obj._cls.name}' object has no "
                         f"attribute '{name}'", node)
    if isinstance(obj, AstClass):
        if name == "__name__":
            return obj.name
        got = find_member(obj.mro(), name)
        if got is not None:
            defs, owner = got
            if isinstance(owner, PyBase):
                return defs
            fd = defs[-1]
            clo = Closure(obj.interp, fd, owner.genv, owner=owner)
            if "staticmethod" in _decorators(fd):
                return clo
            if "classmethod" in _decorators(fd):
                return BoundMethod(clo, obj)
            return clo
        raise ModelFault("AttributeError", f"class {obj.name} has no "
                         f"attribute '{name}'", node)
    if obj is None:
        raise ModelFault("AttributeError", f"'NoneType' object has no "
                         f"attribute '{name}'", node)
    try:
        return getattr(obj, name)
    except AttributeError:
        cls = obj.__dict__.get("_ast_class") if hasattr(
            obj, "__dict__") else None
        if cls is not None:
            got = find_member(cls.mro(), name)
            if got is not None:
                defs, owner = got
                return _bind(obj, defs, owner, name)
        if isinstance(obj, (int, float, str, bool, list, tuple, dict, set,
                            Arr, Mat, bytes)) or getattr(
                                obj, "_strict_attrs", False):
            raise ModelFault("AttributeError",
                             f"'{type(obj).__name__}' object has no "
                             f"attribute '{name}'", node)
        raise AnalysisError(f"attribute `{name}` of model "
                            f"{type(obj).__name__} is not modelled")


def _bind(obj, defs, owner, name):
    if isinstance(owner, PyBase):
        f = defs
        if name in owner.props:
            return f(obj)
        return lambda *a, **k: f(obj, *a, **k)
    fd = defs[-1]
    decos = _decorators(fd)
    interp = owner.interp
    if any(d.endswith(".setter") for d in decos):
        # property with setter: use the getter (first definition)
        fd = defs[0]
        decos = _decorators(fd)
    clo = Closure(interp, fd, owner.genv, owner=owner)
    if "property" in decos or any(d.endswith("cached_property")
                                  for d in decos):
        return clo(obj)
    if "staticmethod" in decos:
        return clo
    return BoundMethod(clo, obj)


def store_attr(interp, obj, name, value, node):
    if isinstance(obj, AstObject):
        # property setters
        got = find_member(obj._cls.mro(), name)
        if got is not None and not isinstance(got[1], PyBase):
            defs, owner = got
            for fd in defs:
                if any(d == f"{name}.setter" for d in _decorators(fd)):
                    Closure(interp, fd, owner.genv, owner=owner)(obj, value)
                    return
            if any("property" in _decorators(fd) for fd in defs):
                raise ModelFault("AttributeError", f"can't set attribute "
                                 f"'{name}'", node)
        obj._attrs[name] = value
        return
    if obj is None or isinstance(obj, (int, float, str, tuple, list, dict)):
        raise ModelFault("AttributeError", f"cannot set attribute '{name}' "
                         f"on {type(obj).__name__}", node)
    try:
        setattr(obj, name, value)
    except AttributeError as e:
        raise ModelFault("AttributeError", str(e), node)


# ----------------------------------------------------------------------
# harmless standard-library models (bound when the analysed module imports
# them and the rule does not supply its own)

def _identity_decorator(*a, **k):
    """lru_cache / cache / wraps(...): decorators without an effect on
    the value computed (memoisation is invisible on immutable models)"""
    if len(a) == 1 and callable(a[0]) and not k:
        return a[0]
    return lambda f: f


def _limited_count(start=0, step=1):
    def gen():
        v = start
        for _ in range(MAX_LOOP + 1):
            yield v
            v += step
        raise AnalysisError("itertools.count(): more than "
                            f"{MAX_LOOP} elements drawn on a finite model")
    return gen()


def _limited_cycle(it):
    items = list(it)

    def gen():
        for i in range(MAX_LOOP + 1):
            if not items:
                return
            yield items[i % len(items)]
        raise AnalysisError("itertools.cycle(): loop limit")
    return gen()


def _attrgetter(*names):
    def get(o):
        vals = []
        for n in names:
            v = o
            for part in n.split("."):
                v = lookup_attr(None, v, part, None)
            vals.append(v)
        return vals[0] if len(vals) == 1 else tuple(vals)
    return get


def _itemgetter(*keys):
    def get(o):
        def one(k):
            if isinstance(o, AstObject):
                return lookup_attr(None, o, "__getitem__", None)(k)
            try:
                return o[k]
            except NATIVE_FAULTS as e:
                raise ModelFault(type(e).__name__, str(e))
        vals = [one(k) for k in keys]
        return vals[0] if len(vals) == 1 else tuple(vals)
    return get


class _GenContext:
    """@contextlib.contextmanager function: the value of the (single)
    yield is bound by the with statement.  Approximation on the model: the
    code after the yield runs when the context is *entered*, not when it is
    left (generators are evaluated eagerly) - sound for managers whose
    clean-up has no effect the analysed body can observe."""
    _strict_attrs = True

    def __init__(self, clo, args, kwargs):
        self._clo, self._args, self._kwargs = clo, args, kwargs

    @staticmethod
    def factory(clo):
        def make(*a, **k):
            return _GenContext(clo, a, k)
        make.__name__ = clo.__name__
        return make

    def __enter__(self):
        vals = list(self._clo(*self._args, **self._kwargs))
        if len(vals) != 1:
            raise ModelFault("RuntimeError", "generator of a context "
                             f"manager yielded {len(vals)} values")
        return vals[0]

    def __exit__(self, *a):
        return False


class ModelExitStack:
    """contextlib.ExitStack: contexts entered through the stack are left in
    reverse order when the stack is left"""
    _strict_attrs = True

    def __init__(self):
        self._todo = []

    def __enter__(self):
        return self

    def __exit__(self, *a):
        self.close()
        return False

    def enter_context(self, cm):
        if isinstance(cm, Opaque):
            return cm
        v = lookup_attr(None, cm, "__enter__", None)()
        self._todo.append(lambda: lookup_attr(None, cm, "__exit__", None)(
            None, None, None))
        return v

    def callback(self, fn, *a, **k):
        self._todo.append(lambda: fn(*a, **k))
        return fn

    def push(self, cm):
        self._todo.append(lambda: lookup_attr(None, cm, "__exit__", None)(
            None, None, None))
        return cm

    def pop_all(self):
        new = ModelExitStack()
        new._todo, self._todo = self._todo, []
        return new

    def close(self):
        while self._todo:
            self._todo.pop()()


class ModelNullContext:
    _strict_attrs = True

    def __init__(self, enter_result=None):
        self.enter_result = enter_result

    def __enter__(self):
        return self.enter_result

    def __exit__(self, *a):
        return False


def _stdlib_models():
    import collections
    import functools
    import itertools
    import operator as op
    return {
        "functools": namespace(
            "functools", partial=functools.partial,
            reduce=functools.reduce, wraps=_identity_decorator,
            lru_cache=_identity_decorator, cache=_identity_decorator,
            cached_property=_identity_decorator),
        "itertools": namespace(
            "itertools", product=itertools.product, chain=itertools.chain,
            permutations=itertools.permutations,
            combinations=itertools.combinations,
            combinations_with_replacement=(
                itertools.combinations_with_replacement),
            zip_longest=itertools.zip_longest, islice=itertools.islice,
            accumulate=itertools.accumulate, repeat=(
                lambda v, times=None: itertools.repeat(v, times)
                if times is not None else _limited_cycle([v])),
            starmap=itertools.starmap, takewhile=itertools.takewhile,
            dropwhile=itertools.dropwhile, groupby=itertools.groupby,
            tee=itertools.tee, compress=itertools.compress,
            filterfalse=itertools.filterfalse, pairwise=getattr(
                itertools, "pairwise", None),
            count=_limited_count, cycle=_limited_cycle),
        "operator": namespace(
            "operator", itemgetter=_itemgetter, attrgetter=_attrgetter,
            add=op.add, sub=op.sub, mul=op.mul, truediv=op.truediv,
            neg=op.neg, eq=op.eq, ne=op.ne, lt=op.lt, le=op.le, gt=op.gt,
            ge=op.ge, and_=op.and_, or_=op.or_, not_=op.not_,
            contains=op.contains, getitem=op.getitem),
        "contextlib": namespace(
            "contextlib", ExitStack=ModelExitStack,
            nullcontext=ModelNullContext),
        "collections": namespace(
            "collections", namedtuple=collections.namedtuple,
            OrderedDict=collections.OrderedDict,
            defaultdict=collections.defaultdict, deque=collections.deque,
            Counter=collections.Counter, ChainMap=collections.ChainMap),
    }


def _is_generator(fn):
    """does the function body (not nested definitions) yield?"""
    cached = getattr(fn, "_is_generator", None)
    if cached is not None:
        return cached
    res = False
    stack = list(fn.body) if not isinstance(fn, ast.Lambda) else []
    while stack:
        n = stack.pop()
        if isinstance(n, (ast.Yield, ast.YieldFrom)):
            res = True
            break
        if isinstance(n, (ast.FunctionDef, ast.AsyncFunctionDef, ast.Lambda,
                          ast.ClassDef)):
            continue
        stack.extend(ast.iter_child_nodes(n))
    fn._is_generator = res      # syntax trees are immutable once parsed
    return res


class Interp:
    def __init__(self, repo):
        self.repo = repo
        self.steps = 0
        self._envs = {}

    def env(self, rel, externals=None):
        """(cached per externals identity) module environment"""
        return Env(self, rel, externals)

    # -- calls ----------------------------------------------------------
    def call_closure(self, clo, args, kwargs, depth=None):
        node = clo.node
        a = node.args
        loc = {}
        params = [p.arg for p in getattr(a, "posonlyargs", [])] + [
            p.arg for p in a.args]
        if len(args) > len(params) and a.vararg is None:
            raise ModelFault("TypeError", f"{clo.__name__}() takes "
                             f"{len(params)} positional arguments but "
                             f"{len(args)} were given", node)
        for p, v in zip(params, args):
            loc[p] = v
        if a.vararg is not None:
            loc[a.vararg.arg] = tuple(args[len(params):])
        kwonly = [p.arg for p in a.kwonlyargs]
        extra = {}
        for k, v in kwargs.items():
            if k in loc:
                raise ModelFault("TypeError", f"{clo.__name__}() got "
                                 f"multiple values for argument '{k}'", node)
            if k in params or k in kwonly:
                loc[k] = v
            elif a.kwarg is not None:
                extra[k] = v
            else:
                raise ModelFault("TypeError", f"{clo.__name__}() got an "
                                 f"unexpected keyword argument '{k}'", node)
        if a.kwarg is not None:
            loc[a.kwarg.arg] = extra
        dframe = Frame(clo.genv, {}, parent=clo.cell)
        ndef = len(a.defaults)
        for i, p in enumerate(params):
            if p not in loc:
                j = i - (len(params) - ndef)
                if j < 0:
                    raise ModelFault("TypeError", f"{clo.__name__}() missing "
                                     f"required argument '{p}'", node)
                loc[p] = self.eval(a.defaults[j], dframe)
        for p, d in zip(kwonly, a.kw_defaults):
            if p not in loc:
                if d is None:
                    raise ModelFault("TypeError", f"{clo.__name__}() missing "
                                     f"keyword argument '{p}'", node)
                loc[p] = self.eval(d, dframe)
        frame = Frame(clo.genv, loc, closure=clo, parent=clo.cell)
        frame.depth = (getattr(self, "_depth", 0)) + 1
        if frame.depth > MAX_DEPTH:
            raise AnalysisError(f"recursion limit in {clo.__name__} "
                                f"(possible non-termination)")
        self._depth = frame.depth
        try:
            if isinstance(node, ast.Lambda):
                return self.eval(node.body, frame)
            if _is_generator(node):
                # generator function: the body is run to its end, the
                # yielded values are handed out afterwards (finite models;
                # an endless generator hits the loop limit)
                frame.loc["<yield>"] = []
                try:
                    self.block(node.body, frame)
                except _Return:
                    pass
                return iter(frame.loc.pop("<yield>"))
            try:
                self.block(node.body, frame)
            except _Return as r:
                return r.value
            return None
        finally:
            self._depth = frame.depth - 1

    def call(self, fn, args, kwargs, node):
        if isinstance(fn, (Closure, BoundMethod, AstClass)):
            return fn(*args, **kwargs)
        if isinstance(fn, Opaque):
            return fn(*args, **kwargs)
        if isinstance(fn, AstObject):
            f = lookup_attr(self, fn, "__call__", node)
            return f(*args, **kwargs)
        if fn is _py_super:
            raise AnalysisError("super() handled elsewhere")
        if not callable(fn):
            raise ModelFault("TypeError", f"'{type(fn).__name__}' object is "
                             f"not callable", node)
        try:
            return fn(*args, **kwargs)
        except NATIVE_FAULTS as e:
            raise ModelFault(type(e).__name__, str(e), node)

    # -- statements -------------------------------------------------------
    def block(self, stmts, f):
        for st in stmts:
            self.stmt(st, f)

    def stmt(self, st, f):
        self.steps += 1
        m = getattr(self, "s_" + type(st).__name__, None)
        if m is None:
            raise AnalysisError(f"statement not modelled: "
                                f"{type(st).__name__} at {loc(st)}")
        return m(st, f)

    def s_Expr(self, st, f):
        self.eval(st.value, f)

    def s_Pass(self, st, f):
        pass

    def s_Import(self, st, f):
        pass

    s_ImportFrom = s_Import

    def s_Global(self, st, f):
        raise AnalysisError("global statement not modelled")

    def s_Assign(self, st, f):
        v = self.eval(st.value, f)
        for t in st.targets:
            self.assign(t, v, f)

    def s_AnnAssign(self, st, f):
        if st.value is not None:
            self.assign(st.target, self.eval(st.value, f), f)

    def s_AugAssign(self, st, f):
        op = _INPLACE.get(type(st.op))
        if op is None:
            raise AnalysisError(f"operator not modelled: {txt(st)}")
        t = st.target
        if isinstance(t, ast.Name):
            cur = f.get(t.id, t)
            new = self._apply(op, cur, self.eval(st.value, f), st)
            f.loc[t.id] = new
        elif isinstance(t, ast.Attribute):
            obj = self.eval(t.value, f)
            cur = lookup_attr(self, obj, t.attr, t)
            new = self._apply(op, cur, self.eval(st.value, f), st)
            store_attr(self, obj, t.attr, new, t)
        elif isinstance(t, ast.Subscript):
            obj = self.eval(t.value, f)
            idx = self.index(t.slice, f)
            cur = self.getitem(obj, idx, t)
            new = self._apply(op, cur, self.eval(st.value, f), st)
            self.setitem(obj, idx, new, t)
        else:
            raise AnalysisError(f"augmented target not modelled: {txt(st)}")

    def _apply(self, op, a, b, node):
        if isinstance(a, Opaque) or isinstance(b, Opaque):
            return Opaque("arith")
        try:
            return op(a, b)
        except NATIVE_FAULTS as e:
            raise ModelFault(type(e).__name__, str(e), node)

    def s_Delete(self, st, f):
        for t in st.targets:
            if isinstance(t, ast.Subscript):
                obj = self.eval(t.value, f)
                idx = self.index(t.slice, f)
                try:
                    del obj[idx]
                except NATIVE_FAULTS as e:
                    raise ModelFault(type(e).__name__, str(e), t)
            elif isinstance(t, ast.Name):
                f.loc.pop(t.id, None)
            else:
                raise AnalysisError(f"del target not modelled: {txt(st)}")

    def s_If(self, st, f):
        if self.truth(self.eval(st.test, f), st.test):
            self.block(st.body, f)
        else:
            self.block(st.orelse, f)

    def s_While(self, st, f):
        n = 0
        while self.truth(self.eval(st.test, f), st.test):
            n += 1
            if n > MAX_LOOP:
                raise AnalysisError(f"loop at {loc(st)} exceeds {MAX_LOOP} "
                                    f"iterations on a finite model "
                                    f"(possible non-termination)")
            try:
                self.block(st.body, f)
            except _Break:
                return
            except _Continue:
                continue
        self.block(st.orelse, f)

    def iterate(self, it, node):
        if isinstance(it, Opaque):
            raise AnalysisError("iteration over un-modelled value")
        if isinstance(it, AstObject):
            fn = lookup_attr(self, it, "__iter__", node)
            return list(fn())
        if isinstance(it, dict):
            return list(it.keys())
        try:
            return list(it)
        except TypeError as e:
            raise ModelFault("TypeError", str(e), node)

    def iter_live(self, it, node):
        """iterator with Python's semantics for containers that are
        modified during the loop (lists: by position; generators: lazily;
        dicts: RuntimeError)"""
        if isinstance(it, (list, dict, set)) or hasattr(it, "__next__") \
                or type(it).__name__ in ("dict_keys", "dict_values",
                                         "dict_items", "generator"):
            def gen():
                try:
                    for v in it:
                        yield v
                except RuntimeError as e:
                    raise ModelFault("RuntimeError", str(e), node)
            return gen()
        return iter(self.iterate(it, node))

    def s_For(self, st, f):
        items = self.iter_live(self.eval(st.iter, f), st.iter)
        for v in items:
            self.assign(st.target, v, f)
            try:
                self.block(st.body, f)
            except _Break:
                return
            except _Continue:
                continue
        self.block(st.orelse, f)

    def s_Break(self, st, f):
        raise _Break()

    def s_Continue(self, st, f):
        raise _Continue()

    def s_Return(self, st, f):
        raise _Return(None if st.value is None else self.eval(st.value, f))

    def s_Raise(self, st, f):
        if st.exc is None:
            raise AnalysisError("bare raise not modelled")
        e = self.eval(st.exc, f)
        if isinstance(e, (ExcClass, AstClass)):
            e = e()
        raise ModelRaise(e, st)

    def s_Assert(self, st, f):
        if not self.truth(self.eval(st.test, f), st.test):
            raise ModelRaise(ExcValue("AssertionError", (txt(st.test),)), st)

    def s_With(self, st, f):
        exits = []
        for it in st.items:
            cm = self.eval(it.context_expr, f)
            if isinstance(cm, Opaque):
                v = cm
            else:
                enter = lookup_attr(self, cm, "__enter__", it.context_expr)
                v = enter()
                exits.append(cm)
            if it.optional_vars is not None:
                self.assign(it.optional_vars, v, f)
        try:
            self.block(st.body, f)
        finally:
            for cm in reversed(exits):
                ex = lookup_attr(self, cm, "__exit__", st)
                ex(None, None, None)

    def s_Try(self, st, f):
        try:
            try:
                self.block(st.body, f)
            except (ModelRaise, ModelFault) as e:
                for h in st.handlers:
                    if self._handler_matches(h, e, f):
                        if h.name:
                            f.loc[h.name] = e.exc if isinstance(
                                e, ModelRaise) else ExcValue(e.kind, (e.msg,))
                        self.block(h.body, f)
                        break
                else:
                    raise
            else:
                self.block(st.orelse, f)
        finally:
            self.block(st.finalbody, f)

    def _handler_matches(self, h, e, f):
        if h.type is None:
            return True
        names = [txt(t).split(".")[-1] for t in (
            h.type.elts if isinstance(h.type, ast.Tuple) else [h.type])]
        if "BaseException" in names or "Exception" in names:
            return True
        return e.kind in names

    def s_FunctionDef(self, st, f):
        f.loc[st.name] = Closure(self, st, f.genv, cell=f)

    def s_ClassDef(self, st, f):
        raise AnalysisError("nested class definition not modelled")

    # -- assignment targets ---------------------------------------------
    def assign(self, t, v, f):
        if isinstance(t, ast.Name):
            f.loc[t.id] = v
        elif isinstance(t, (ast.Tuple, ast.List)):
            vals = self.iterate(v, t)
            if any(isinstance(e, ast.Starred) for e in t.elts):
                raise AnalysisError("starred assignment not modelled")
            if len(vals) != len(t.elts):
                raise ModelFault("ValueError", f"cannot unpack {len(vals)} "
                                 f"values into {len(t.elts)} targets", t)
            for e, x in zip(t.elts, vals):
                self.assign(e, x, f)
        elif isinstance(t, ast.Attribute):
            store_attr(self, self.eval(t.value, f), t.attr, v, t)
        elif isinstance(t, ast.Subscript):
            obj = self.eval(t.value, f)
            self.setitem(obj, self.index(t.slice, f), v, t)
        else:
            raise AnalysisError(f"assignment target not modelled: {txt(t)}")

    def index(self, s, f):
        if isinstance(s, ast.Slice):
            return slice(None if s.lower is None else self.eval(s.lower, f),
                         None if s.upper is None else self.eval(s.upper, f),
                         None if s.step is None else self.eval(s.step, f))
        if isinstance(s, ast.Tuple):
            return tuple(self.index(e, f) for e in s.elts)
        return self.eval(s, f)

    def getitem(self, obj, idx, node):
        if isinstance(obj, Opaque):
            return obj[idx]
        if isinstance(obj, AstObject):
            return lookup_attr(self, obj, "__getitem__", node)(idx)
        if obj is None:
            raise ModelFault("TypeError", "'NoneType' object is not "
                             "subscriptable", node)
        if isinstance(obj, (list, tuple)) and isinstance(idx, Arr):
            raise ModelFault("TypeError", "list indices must be integers or "
                             "slices, not array", node)
        try:
            return obj[idx]
        except NATIVE_FAULTS as e:
            raise ModelFault(type(e).__name__, str(e), node)

    def setitem(self, obj, idx, v, node):
        if isinstance(obj, Opaque):
            raise AnalysisError("store into un-modelled value")
        if isinstance(obj, AstObject):
            return lookup_attr(self, obj, "__setitem__", node)(idx, v)
        if obj is None:
            raise ModelFault("TypeError", "'NoneType' object does not "
                             "support item assignment", node)
        try:
            obj[idx] = v
        except NATIVE_FAULTS as e:
            raise ModelFault(type(e).__name__, str(e), node)

    def truth(self, v, node):
        if isinstance(v, AstObject):
            got = find_member(v._cls.mro(), "__bool__") or find_member(
                v._cls.mro(), "__len__")
            if got is None:
                return True
            return bool(_bind(v, got[0], got[1], "")())
        try:
            return bool(v)
        except ModelFault as e:
            e.node = e.node or node
            raise

    # -- expressions ------------------------------------------------------
    def eval(self, e, f):
        self.steps += 1
        m = getattr(self, "e_" + type(e).__name__, None)
        if m is None:
            raise AnalysisError(f"expression not modelled: "
                                f"{type(e).__name__} `{txt(e)[:60]}`")
        return m(e, f)

    def e_Constant(self, e, f):
        return e.value

    def e_Name(self, e, f):
        return f.get(e.id, e)

    def e_Attribute(self, e, f):
        obj = self.eval(e.value, f)
        if isinstance(obj, Opaque):
            return getattr(obj, e.attr)
        return lookup_attr(self, obj, e.attr, e)

    def e_Subscript(self, e, f):
        obj = self.eval(e.value, f)
        return self.getitem(obj, self.index(e.slice, f), e)

    def e_Slice(self, e, f):
        return self.index(e, f)

    def e_List(self, e, f):
        return self._elts(e.elts, f)

    def e_Tuple(self, e, f):
        return tuple(self._elts(e.elts, f))

    def e_Set(self, e, f):
        return set(self._elts(e.elts, f))

    def _elts(self, elts, f):
        out = []
        for x in elts:
            if isinstance(x, ast.Starred):
                out += self.iterate(self.eval(x.value, f), x)
            else:
                out.append(self.eval(x, f))
        return out

    def e_Dict(self, e, f):
        d = {}
        for k, v in zip(e.keys, e.values):
            if k is None:
                d.update(self.eval(v, f))
            else:
                d[self.eval(k, f)] = self.eval(v, f)
        return d

    def e_JoinedStr(self, e, f):
        out = []
        for v in e.values:
            if isinstance(v, ast.Constant):
                out.append(str(v.value))
            else:
                val = self.eval(v.value, f)
                spec = ""
                if v.format_spec is not None:
                    spec = self.e_JoinedStr(v.format_spec, f)
                try:
                    if v.conversion == 114:
                        out.append(repr(val))
                    else:
                        out.append(format(val, spec))
                except (TypeError, ValueError):
                    out.append(str(val))
        return "".join(out)

    def e_IfExp(self, e, f):
        if self.truth(self.eval(e.test, f), e.test):
            return self.eval(e.body, f)
        return self.eval(e.orelse, f)

    def e_BoolOp(self, e, f):
        is_and = isinstance(e.op, ast.And)
        v = None
        for x in e.values:
            v = self.eval(x, f)
            t = self.truth(v, x)
            if is_and and not t:
                return v
            if not is_and and t:
                return v
        return v

    def e_UnaryOp(self, e, f):
        v = self.eval(e.operand, f)
        if isinstance(e.op, ast.Not):
            return not self.truth(v, e.operand)
        if isinstance(v, Opaque):
            return Opaque("arith")
        try:
            if isinstance(e.op, ast.Invert):
                return ~v
            if isinstance(e.op, ast.USub):
                return -v
            if isinstance(e.op, ast.UAdd):
                return +v
        except NATIVE_FAULTS as x:
            raise ModelFault(type(x).__name__, str(x), e)
        raise AnalysisError(f"unary operator not modelled: {txt(e)}")

    def e_BinOp(self, e, f):
        op = _BINOPS.get(type(e.op))
        if op is None:
            raise AnalysisError(f"operator not modelled: {txt(e)}")
        a = self.eval(e.left, f)
        b = self.eval(e.right, f)
        return self._apply(op, a, b, e)

    def e_Compare(self, e, f):
        left = self.eval(e.left, f)
        res = True
        for op, c in zip(e.ops, e.comparators):
            right = self.eval(c, f)
            if isinstance(op, (ast.In, ast.NotIn)):
                r = self.contains(right, left, e)
                if isinstance(op, ast.NotIn):
                    r = not r
            elif isinstance(op, (ast.Is, ast.IsNot)):
                r = _CMPOPS[type(op)](left, right)
            else:
                if isinstance(left, Opaque) or isinstance(right, Opaque):
                    raise AnalysisError("comparison of un-modelled value")
                try:
                    r = _CMPOPS[type(op)](left, right)
                except NATIVE_FAULTS as x:
                    raise ModelFault(type(x).__name__, str(x), e)
            if len(e.ops) == 1:
                return r
            if not self.truth(r, e):
                return r
            res = r
            left = right
        return res

    def contains(self, container, item, node):
        if isinstance(container, Opaque):
            raise AnalysisError("membership test on un-modelled value")
        if isinstance(container, AstObject):
            return bool(lookup_attr(self, container, "__contains__", node)(
                item))
        if isinstance(container, Arr):
            return item in container.data
        if container is None:
            raise ModelFault("TypeError", "argument of type 'NoneType' is "
                             "not iterable", node)
        try:
            return item in container
        except NATIVE_FAULTS as x:
            raise ModelFault(type(x).__name__, str(x), node)

    def e_Lambda(self, e, f):
        return Closure(self, e, f.genv, cell=f)

    def _comp(self, gens, f, emit):
        def rec(i, fr):
            if i == len(gens):
                emit(fr)
                return
            g = gens[i]
            for v in self.iterate(self.eval(g.iter, fr), g.iter):
                self.assign(g.target, v, fr)
                if all(self.truth(self.eval(c, fr), c) for c in g.ifs):
                    rec(i + 1, fr)
        inner = Frame(f.genv, {}, closure=f.closure, parent=f)
        rec(0, inner)

    def e_ListComp(self, e, f):
        out = []
        self._comp(e.generators, f, lambda fr: out.append(
            self.eval(e.elt, fr)))
        return out

    def e_GeneratorExp(self, e, f):
        """lazy: the outermost iterable is evaluated now, the elements when
        they are requested"""
        inner = Frame(f.genv, {}, closure=f.closure, parent=f)
        gens = e.generators
        first = self.eval(gens[0].iter, f)

        def rec(i, fr):
            if i == len(gens):
                yield self.eval(e.elt, fr)
                return
            g = gens[i]
            src = first if i == 0 else self.eval(g.iter, fr)
            for v in self.iter_live(src, g.iter):
                self.assign(g.target, v, fr)
                if all(self.truth(self.eval(c, fr), c) for c in g.ifs):
                    yield from rec(i + 1, fr)
        return rec(0, inner)

    def e_SetComp(self, e, f):
        return set(self.e_ListComp(e, f))

    def e_DictComp(self, e, f):
        out = {}
        self._comp(e.generators, f, lambda fr: out.__setitem__(
            self.eval(e.key, fr), self.eval(e.value, fr)))
        return out

    def _yield_sink(self, f, node):
        fr = f
        while fr is not None:
            if "<yield>" in fr.loc:
                return fr.loc["<yield>"]
            fr = fr.parent
        raise AnalysisError(f"yield outside a generator function "
                            f"({loc(node)})")

    def e_Yield(self, e, f):
        self._yield_sink(f, e).append(
            None if e.value is None else self.eval(e.value, f))
        return None

    def e_YieldFrom(self, e, f):
        self._yield_sink(f, e).extend(self.iterate(self.eval(e.value, f), e))
        return None

    def e_Starred(self, e, f):
        raise AnalysisError("starred expression outside a call/list")

    def e_Call(self, e, f):
        fn_node = e.func
        # super() / super(Cls, self)
        if isinstance(fn_node, ast.Name) and fn_node.id == "super" \
                and "super" not in f.loc:
            return self._super(e, f)
        if isinstance(fn_node, ast.Attribute):
            recv = self.eval(fn_node.value, f)
            if isinstance(recv, Opaque):
                fn = getattr(recv, fn_node.attr)
            else:
                fn = lookup_attr(self, recv, fn_node.attr, fn_node)
        else:
            fn = self.eval(fn_node, f)
        args = []
        for a in e.args:
            if isinstance(a, ast.Starred):
                args += self.iterate(self.eval(a.value, f), a)
            else:
                args.append(self.eval(a, f))
        kwargs = {}
        for kw in e.keywords:
            if kw.arg is None:
                d = self.eval(kw.value, f)
                if isinstance(d, Opaque):
                    raise AnalysisError("** of un-modelled value")
                kwargs.update(d)
            else:
                kwargs[kw.arg] = self.eval(kw.value, f)
        return self.call(fn, args, kwargs, e)

    def _super(self, e, f):
        clo = f.closure
        fr = f
        while (clo is None or clo.owner is None) and fr.parent is not None:
            fr = fr.parent
            clo = fr.closure
        if clo is None or clo.owner is None:
            raise AnalysisError("super() outside a method")
        params = [p.arg for p in clo.node.args.args]
        obj = fr.loc.get(params[0]) if params else None
        if e.args:
            obj = self.eval(e.args[1], f)
        mro = instance_mro(obj)
        if not mro:
            raise AnalysisError("super() on an object without a modelled "
                                "class")
        return SuperProxy(obj, mro, clo.owner)


def run(fn, *args, **kwargs):
    """-> ('ok', value) | ('raise', kind, detail) | ('fault', kind, detail)"""
    try:
        return ("ok", fn(*args, **kwargs))
    except ModelRaise as e:
        return ("raise", e.kind, str(e))
    except ModelFault as e:
        where = f" at {loc(e.node)}" if e.node is not None else ""
        return ("fault", e.kind, f"{e.msg}{where}")
    except RecursionError:
        raise AnalysisError("python recursion limit while evaluating the "
                            "model (possible non-termination)")


STDLIB_MODELS = _stdlib_models()
