"""Source model for the dclab static checks.

Loads the working tree of /repo (``*.py`` through ``ast``, ``*.pyx`` through the
de-cythonising front end in :mod:`sa.pyxfront`) and offers small helpers that
every rule uses: parent links, qualified-name lookup, dotted names, calls,
normalised statement text.  An in-memory *overlay* ``{relative path: source}``
replaces files on disk so that mutants are analysed without scratch copies.

Nothing from /repo is imported or executed here.
"""
from __future__ import annotations

import ast
import os
import pathlib

REPO_ROOT = pathlib.Path(os.environ.get("DCLAB_VERIF_REPO", "/repo"))


class AnalysisError(Exception):
    """The analyser lost an anchor / cannot recognise a shape (exit 2)."""


class Repo:
    def __init__(self, root=None, overlay=None):
        self.root = pathlib.Path(root or REPO_ROOT)
        self.overlay = dict(overlay or {})
        self._src = {}
        self._tree = {}
        self.consulted = set()

    # ------------------------------------------------------------------
    def exists(self, rel):
        return rel in self.overlay or (self.root / rel).is_file()

    def src(self, rel):
        if rel not in self._src:
            if rel in self.overlay:
                self._src[rel] = self.overlay[rel]
            else:
                p = self.root / rel
                if not p.is_file():
                    raise AnalysisError(f"anchor file vanished: {rel}")
                self._src[rel] = p.read_text(encoding="utf-8")
        self.consulted.add(rel)
        return self._src[rel]

    def tree(self, rel):
        if rel not in self._tree:
            src = self.src(rel)
            if rel.endswith(".pyx"):
                from . import pyxfront
                src = pyxfront.decythonize(src, rel)
            try:
                t = ast.parse(src, filename=rel)
            except SyntaxError as e:
                raise AnalysisError(f"cannot parse {rel}: {e}")
            link(t, rel)
            self._tree[rel] = t
        return self._tree[rel]

    def files(self, prefix="dclab/", suffixes=(".py",)):
        out = set()
        base = self.root / prefix
        if base.is_dir():
            for p in base.rglob("*"):
                if p.suffix in suffixes and p.is_file():
                    out.add(str(p.relative_to(self.root)))
        for rel in self.overlay:
            if rel.startswith(prefix) and rel.endswith(tuple(suffixes)):
                out.add(rel)
        return sorted(out)

    # ------------------------------------------------------------------
    def lookup(self, rel, qual, kinds=(ast.FunctionDef, ast.ClassDef,
                                       ast.AsyncFunctionDef), missing_ok=False):
        """Return the def/class node with dotted qualified name `qual`"""
        node = self.tree(rel)
        for part in qual.split("."):
            found = None
            for child in body_defs(node):
                if isinstance(child, kinds) and child.name == part:
                    found = child  # last definition wins, as in Python
            if found is None:
                if missing_ok:
                    return None
                raise AnalysisError(f"anchor vanished: {rel}::{qual}")
            node = found
        return node

    def func(self, rel, qual, missing_ok=False):
        n = self.lookup(rel, qual, missing_ok=missing_ok)
        if n is None:
            return None
        if not isinstance(n, (ast.FunctionDef, ast.AsyncFunctionDef)):
            raise AnalysisError(f"{rel}::{qual} is not a function")
        return n

    def cls(self, rel, qual, missing_ok=False):
        n = self.lookup(rel, qual, missing_ok=missing_ok)
        if n is None:
            return None
        if not isinstance(n, ast.ClassDef):
            raise AnalysisError(f"{rel}::{qual} is not a class")
        return n

    def module_assign(self, rel, name, missing_ok=False):
        """Value node of the last module-level assignment ``name = ...``"""
        val = None
        for st in self.tree(rel).body:
            if isinstance(st, ast.Assign):
                for t in st.targets:
                    if isinstance(t, ast.Name) and t.id == name:
                        val = st.value
            elif isinstance(st, ast.AnnAssign) and st.value is not None:
                if isinstance(st.target, ast.Name) and st.target.id == name:
                    val = st.value
        if val is None and not missing_ok:
            raise AnalysisError(f"anchor vanished: {rel}::{name} (assignment)")
        return val

    def all_functions(self, rel):
        """Yield (qualname, node) for every function in the file"""
        def rec(node, prefix):
            for child in body_defs(node):
                if isinstance(child, (ast.FunctionDef, ast.AsyncFunctionDef)):
                    q = prefix + child.name
                    yield q, child
                    yield from rec(child, q + ".")
                elif isinstance(child, ast.ClassDef):
                    yield from rec(child, prefix + child.name + ".")
        yield from rec(self.tree(rel), "")


def body_defs(node):
    """Definitions directly contained in `node` (descending into if/try/with
    at definition level, but not into other defs)"""
    stack = list(getattr(node, "body", []))
    for extra in ("orelse", "finalbody", "handlers"):
        stack += list(getattr(node, extra, []))
    out = []
    for st in stack:
        if isinstance(st, (ast.FunctionDef, ast.AsyncFunctionDef,
                           ast.ClassDef)):
            out.append(st)
        elif isinstance(st, (ast.If, ast.Try, ast.With, ast.ExceptHandler)):
            out += body_defs(st)
    out.sort(key=lambda n: (n.lineno, n.col_offset))
    return out


def link(tree, rel=None):
    """Set ``.parent`` on every node, ``.relfile`` on the root"""
    tree.parent = None
    tree.relfile = rel
    for node in ast.walk(tree):
        for child in ast.iter_child_nodes(node):
            child.parent = node
    return tree


# ----------------------------------------------------------------------
# small helpers

FUNC_TYPES = (ast.FunctionDef, ast.AsyncFunctionDef, ast.Lambda)


def txt(node):
    """Normalised source text of a node (formatting- and comment-free)"""
    if node is None:
        return "None"
    if isinstance(node, list):
        return "; ".join(txt(n) for n in node)
    try:
        return ast.unparse(node)
    except Exception:  # pragma: no cover
        return ast.dump(node)


def short(node, n=90):
    s = " ".join(txt(node).split())
    return s if len(s) <= n else s[:n - 1] + "…"


def dotted(node):
    """'a.b.c' for Name/Attribute chains, else None"""
    parts = []
    while isinstance(node, ast.Attribute):
        parts.append(node.attr)
        node = node.value
    if isinstance(node, ast.Name):
        parts.append(node.id)
        return ".".join(reversed(parts))
    return None


def call_name(call):
    """dotted name of the callee of an ast.Call (or None)"""
    if isinstance(call, ast.Call):
        return dotted(call.func)
    return None


def last_attr(call):
    """'x' for a call ``<anything>.x(...)`` or ``x(...)``"""
    if not isinstance(call, ast.Call):
        return None
    f = call.func
    if isinstance(f, ast.Attribute):
        return f.attr
    if isinstance(f, ast.Name):
        return f.id
    return None


def walk(node, nested=False):
    """ast.walk that does not descend into nested function/class bodies
    (unless nested=True); the start node itself is always entered"""
    stack = [node]
    first = True
    while stack:
        n = stack.pop()
        if not first and not nested and isinstance(
                n, FUNC_TYPES + (ast.ClassDef,)):
            continue
        first = False
        yield n
        stack.extend(reversed(list(ast.iter_child_nodes(n))))


def calls(node, nested=False):
    return [n for n in walk(node, nested) if isinstance(n, ast.Call)]


def find_calls(node, name=None, attr=None, nested=False):
    """Calls whose dotted name equals `name` or whose last attribute is
    `attr`"""
    out = []
    for c in calls(node, nested):
        if name is not None and call_name(c) == name:
            out.append(c)
        elif attr is not None and last_attr(c) == attr:
            out.append(c)
    return out


def kwarg(call, name, pos=None):
    """The value node of keyword `name` (or positional index `pos`)"""
    for kw in call.keywords:
        if kw.arg == name:
            return kw.value
    if pos is not None and len(call.args) > pos:
        a = call.args[pos]
        if not isinstance(a, ast.Starred):
            return a
    return None


def names_in(node):
    return {n.id for n in ast.walk(node) if isinstance(n, ast.Name)}


def const_str(node):
    if isinstance(node, ast.Constant) and isinstance(node.value, str):
        return node.value
    return None


def enclosing(node, types):
    n = getattr(node, "parent", None)
    while n is not None:
        if isinstance(n, types):
            return n
        n = getattr(n, "parent", None)
    return None


def enclosing_stmt(node):
    n = node
    while n is not None and not isinstance(n, ast.stmt):
        n = getattr(n, "parent", None)
    return n


def ancestors(node):
    n = getattr(node, "parent", None)
    while n is not None:
        yield n
        n = getattr(n, "parent", None)


def qualname(node):
    parts = []
    n = node
    while n is not None:
        if isinstance(n, (ast.FunctionDef, ast.AsyncFunctionDef,
                          ast.ClassDef)):
            parts.append(n.name)
        n = getattr(n, "parent", None)
    return ".".join(reversed(parts))


def root_file(node):
    n = node
    while getattr(n, "parent", None) is not None:
        n = n.parent
    return getattr(n, "relfile", None)


def loc(node):
    f = root_file(node)
    return f"{f}:{getattr(node, 'lineno', '?')}"


def assigned_names(target):
    """Plain names bound by an assignment target"""
    out = []
    for n in ast.walk(target):
        if isinstance(n, ast.Name) and isinstance(n.ctx, (ast.Store, ast.Del)):
            out.append(n.id)
    return out


def stmts_of(func):
    """All statements of a function body (not nested defs), in source order"""
    out = [n for n in walk(func) if isinstance(n, ast.stmt) and n is not func]
    out.sort(key=lambda n: (n.lineno, n.col_offset))
    return out


def is_name(node, name):
    return isinstance(node, ast.Name) and node.id == name


def is_attr(node, base, attr):
    return (isinstance(node, ast.Attribute) and node.attr == attr
            and is_name(node.value, base))


def is_self_attr(node, attr=None):
    return (isinstance(node, ast.Attribute) and is_name(node.value, "self")
            and (attr is None or node.attr == attr))


def subscript_key(node):
    """constant key of ``x[<const>]`` else None"""
    if isinstance(node, ast.Subscript):
        s = node.slice
        if isinstance(s, ast.Constant):
            return s.value
    return None
