"""Shared helpers of rules/C01.py and rules/C20.py: following from-imports,
method resolution through base classes / mixins of the same file, and the
one-/two-level expansion of calls to private helpers.

Nothing of the repository is imported or executed.
"""
from __future__ import annotations

import ast
import posixpath

from .core import AnalysisError, txt, walk


# ----------------------------------------------------------------------
# AST utilities

def clone(node):
    """copy of an AST subtree without the parent links"""
    if isinstance(node, list):
        return [clone(x) for x in node]
    if not isinstance(node, ast.AST):
        return node
    new = node.__class__()
    for f in node._fields:
        if hasattr(node, f):
            setattr(new, f, clone(getattr(node, f)))
    for a in node._attributes:
        if hasattr(node, a):
            setattr(new, a, getattr(node, a))
    return new


def relink(node, parent):
    node.parent = parent
    for ch in ast.iter_child_nodes(node):
        relink(ch, node)


def replace_stmt(root, old, body):
    for n in ast.walk(root):
        for f in ("body", "orelse", "finalbody"):
            lst = getattr(n, f, None)
            if isinstance(lst, list):
                for i, x in enumerate(lst):
                    if x is old:
                        lst[i:i + 1] = body
                        return
    raise AnalysisError("inline: statement not found")


# ----------------------------------------------------------------------
# imports

def _import_target_rel(repo, rel, level, module):
    """relative path of the module a from-import of file `rel` names"""
    if level == 0:
        if not module or not module.startswith("dclab"):
            return None
        base = module.replace(".", "/")
    else:
        d = posixpath.dirname(rel)
        for _ in range(level - 1):
            d = posixpath.dirname(d)
        base = posixpath.join(d, *(module.split(".") if module else []))
    for cand in (base + ".py", posixpath.join(base, "__init__.py")):
        if repo.exists(cand):
            return cand
    return None


def import_source(repo, rel, name, depth=0):
    """(rel2, original name) of the module-level object `name` of `rel`
    when it comes from a `from … import name [as alias]`; else None"""
    if depth > 4:
        return None
    for st in repo.tree(rel).body:
        if isinstance(st, ast.ImportFrom):
            for al in st.names:
                if (al.asname or al.name) == name:
                    tgt = _import_target_rel(repo, rel, st.level, st.module)
                    if tgt is None:
                        return None
                    # re-exported by a package __init__?
                    inner = import_source(repo, tgt, al.name, depth + 1)
                    return inner or (tgt, al.name)
    return None


def module_value(repo, rel, name):
    """value node of the module-level assignment `name` visible in `rel`
    (defined there or imported with from-import); None when unknown"""
    v = repo.module_assign(rel, name, missing_ok=True)
    if v is not None:
        return v
    src = import_source(repo, rel, name)
    if src is not None:
        return repo.module_assign(src[0], src[1], missing_ok=True)
    return None


def module_function(repo, rel, name):
    """(rel2, FunctionDef) of a module-level function visible in `rel`"""
    cands = [d for d in repo.tree(rel).body
             if isinstance(d, ast.FunctionDef) and d.name == name]
    if len(cands) == 1:
        return rel, cands[0]
    src = import_source(repo, rel, name)
    if src is not None:
        cands = [d for d in repo.tree(src[0]).body
                 if isinstance(d, ast.FunctionDef) and d.name == src[1]]
        if len(cands) == 1:
            return src[0], cands[0]
    return None


# ----------------------------------------------------------------------
# classes

def class_methods(repo, rel, cls, _seen=None):
    """{name: FunctionDef} of `cls` including the methods inherited from
    base classes / mixins that are defined in the same file (left-to-right,
    the class itself first)"""
    _seen = _seen or set()
    out = {}
    if id(cls) in _seen:
        return out
    _seen.add(id(cls))
    for f in cls.body:
        if isinstance(f, ast.FunctionDef):
            out[f.name] = f
    tree = repo.tree(rel)
    for b in cls.bases:
        if isinstance(b, ast.Name):
            for c in tree.body:
                if isinstance(c, ast.ClassDef) and c.name == b.id:
                    for k, v in class_methods(repo, rel, c, _seen).items():
                        out.setdefault(k, v)
    return out


def class_of(func):
    p = getattr(func, "parent", None)
    return p if isinstance(p, ast.ClassDef) else None


# ----------------------------------------------------------------------
# expansion of private helpers

def private_callee(repo, rel, func, call, cls=None):
    """(rel2, FunctionDef) of `self._x(..)`, `cls._x(..)`, `<Class>._x(..)`
    (looked up through the bases of the same file) or of a module-level /
    from-imported `_x(..)` – private helpers only (extracted code)"""
    f = call.func
    cls = cls or class_of(func)
    if isinstance(f, ast.Attribute) and isinstance(f.value, ast.Name) \
            and cls is not None and f.value.id in ("self", "cls", cls.name):
        name = f.attr
        if not name.startswith("_") or name.startswith("__"):
            return None
        m = class_methods(repo, rel, cls).get(name)
        if m is None or m is func:
            return None
        return rel, m
    if isinstance(f, ast.Name):
        name = f.id
        if not name.startswith("_") or name.startswith("__"):
            return None
        got = module_function(repo, rel, name)
        if got is None or got[1] is func:
            return None
        return got
    return None


def _single_exit(body):
    """`…; if c: A; return x` + `B; return y`  ->  `…; if c: A; r = x else:
    B; r = y` + `return r` (one early return in a top-level `if` without
    else; both returns carry a value) – same paths, one exit"""
    rets = [n for b in body for n in walk(b) if isinstance(n, ast.Return)]
    if len(rets) != 2 or not body or rets[1] is not body[-1]:
        return body
    for i, st in enumerate(body[:-1]):
        if isinstance(st, ast.If) and not st.orelse and st.body \
                and st.body[-1] is rets[0] and rets[0].value is not None \
                and rets[1].value is not None:
            res = "ret__h"

            def asg(v, at):
                return ast.copy_location(ast.Assign(
                    targets=[ast.Name(id=res, ctx=ast.Store())],
                    value=clone(v)), at)
            new_if = ast.copy_location(ast.If(
                test=clone(st.test),
                body=[clone(x) for x in st.body[:-1]] + [
                    asg(rets[0].value, rets[0])],
                orelse=[clone(x) for x in body[i + 1:-1]] + [
                    asg(rets[1].value, rets[1])]), st)
            tail = ast.copy_location(ast.Return(
                value=ast.Name(id=res, ctx=ast.Load())), rets[1])
            out = [clone(x) for x in body[:i]] + [new_if, tail]
            for x in out:
                ast.fix_missing_locations(x)
                relink(x, None)
            return out
    return body


def _record_fields(repo, rel, ctor):
    """field names of a NamedTuple class / namedtuple() visible in `rel`"""
    if not isinstance(ctor, ast.Name):
        return None
    for c in repo.tree(rel).body:
        if isinstance(c, ast.ClassDef) and c.name == ctor.id and any(
                txt(b).split(".")[-1] == "NamedTuple" for b in c.bases):
            return [x.target.id for x in c.body
                    if isinstance(x, ast.AnnAssign)
                    and isinstance(x.target, ast.Name)]
    v = module_value(repo, rel, ctor.id)
    if isinstance(v, ast.Call) and txt(v.func).split(".")[-1] \
            == "namedtuple" and len(v.args) == 2:
        f = v.args[1]
        if isinstance(f, (ast.List, ast.Tuple)):
            return [e.value for e in f.elts if isinstance(e, ast.Constant)]
        if isinstance(f, ast.Constant) and isinstance(f.value, str):
            return f.value.replace(",", " ").split()
    return None


def scalarise_records(repo, rel, func):
    """Locals that only ever hold a record (NamedTuple / namedtuple built by
    its constructor, or a copy of such a local) and are only read through
    `r.field`, tuple unpacking `a, b = r` or copied, are replaced by one
    local per field (`r__field`).  Returns `func` itself when there is
    nothing to do or a use is not of these kinds."""
    defs = {}
    for n in walk(func):
        if isinstance(n, ast.Assign) and len(n.targets) == 1 \
                and isinstance(n.targets[0], ast.Name):
            defs.setdefault(n.targets[0].id, []).append(n)
    fields = {}
    changed = True
    while changed:
        changed = False
        for nm, ds in defs.items():
            if nm in fields:
                continue
            fl = None
            ok = True
            for d in ds:
                v = d.value
                if isinstance(v, ast.Call) and not any(
                        isinstance(a, ast.Starred) for a in v.args):
                    f = _record_fields(repo, rel, v.func)
                elif isinstance(v, ast.Name) and v.id in fields:
                    f = fields[v.id]
                else:
                    f = None
                if not f or (fl is not None and f != fl):
                    ok = False
                    break
                fl = f
            if ok and fl:
                fields[nm] = fl
                changed = True
    if not fields:
        return func
    # every use must be understood
    for n in walk(func):
        if isinstance(n, ast.Name) and n.id in fields and isinstance(
                n.ctx, ast.Load):
            par = n.parent
            if isinstance(par, ast.Attribute) and par.value is n \
                    and par.attr in fields[n.id]:
                continue
            if isinstance(par, ast.Assign) and par.value is n and len(
                    par.targets) == 1:
                t = par.targets[0]
                if isinstance(t, ast.Name) and t.id in fields:
                    continue
                if isinstance(t, ast.Tuple) and len(t.elts) == len(
                        fields[n.id]) and all(isinstance(e, ast.Name)
                                              for e in t.elts):
                    continue
            return func
    new = clone(func)
    relink(new, getattr(func, "parent", None))

    def fname(r, f):
        return f"{r}__{f}"

    def rewrite(stmts):
        out = []
        for st in stmts:
            for fld in ("body", "orelse", "finalbody"):
                if isinstance(getattr(st, fld, None), list) and not \
                        isinstance(st, (ast.FunctionDef, ast.ClassDef)):
                    setattr(st, fld, rewrite(getattr(st, fld)))
            if isinstance(st, ast.Try):
                for h in st.handlers:
                    h.body = rewrite(h.body)
            if isinstance(st, ast.Assign) and len(st.targets) == 1:
                t, v = st.targets[0], st.value
                if isinstance(t, ast.Name) and t.id in fields:
                    fl = fields[t.id]
                    if isinstance(v, ast.Call):
                        vals = dict(zip(fl, v.args))
                        vals.update({k.arg: k.value for k in v.keywords})
                        if set(vals) != set(fl):
                            raise AnalysisError(
                                f"record `{t.id}`: constructor arguments")
                        for f in fl:
                            out.append(ast.copy_location(ast.Assign(
                                targets=[ast.Name(id=fname(t.id, f),
                                                  ctx=ast.Store())],
                                value=vals[f]), st))
                    else:
                        for f in fl:
                            out.append(ast.copy_location(ast.Assign(
                                targets=[ast.Name(id=fname(t.id, f),
                                                  ctx=ast.Store())],
                                value=ast.Name(id=fname(v.id, f),
                                               ctx=ast.Load())), st))
                    continue
                if isinstance(t, ast.Tuple) and isinstance(v, ast.Name) \
                        and v.id in fields:
                    for e, f in zip(t.elts, fields[v.id]):
                        out.append(ast.copy_location(ast.Assign(
                            targets=[e], value=ast.Name(
                                id=fname(v.id, f), ctx=ast.Load())), st))
                    continue
            out.append(st)
        return out
    new.body = rewrite(new.body)

    class A(ast.NodeTransformer):
        def visit_Attribute(self, n):
            self.generic_visit(n)
            if isinstance(n.value, ast.Name) and n.value.id in fields \
                    and n.attr in fields[n.value.id]:
                return ast.copy_location(ast.Name(
                    id=fname(n.value.id, n.attr), ctx=n.ctx), n)
            return n
    A().visit(new)
    ast.fix_missing_locations(new)
    relink(new, getattr(func, "parent", None))
    if hasattr(func, "expanded_from"):
        new.expanded_from = func.expanded_from
    return new


def _inline_body(st, callee, caller_names):
    call = st.value
    a = callee.args
    if a.vararg or a.kwarg or a.posonlyargs or any(
            isinstance(x, ast.Starred) for x in call.args) or any(
            k.arg is None for k in call.keywords):
        return None
    params = [x.arg for x in a.args]
    static = any(txt(d) == "staticmethod" for d in callee.decorator_list)
    is_method = isinstance(getattr(callee, "parent", None), ast.ClassDef)
    bound = {}
    pos = list(call.args)
    if is_method and not static:
        if not params:
            return None
        first = params.pop(0)
        if isinstance(call.func, ast.Attribute) and isinstance(
                call.func.value, ast.Name) and call.func.value.id in (
                "self", "cls"):
            bound[first] = ast.Name(id=call.func.value.id, ctx=ast.Load())
        else:
            if not pos:
                return None
            bound[first] = pos.pop(0)
    if len(pos) > len(params):
        return None
    for p_, v in zip(params, pos):
        bound[p_] = v
    for k in call.keywords:
        if k.arg not in params + [x.arg for x in a.kwonlyargs] \
                or k.arg in bound:
            return None
        bound[k.arg] = k.value
    defaults = dict(zip(reversed([x.arg for x in a.args]),
                        reversed(a.defaults)))
    for x in a.kwonlyargs:
        params.append(x.arg)
    for x, dv in zip(a.kwonlyargs, a.kw_defaults):
        if dv is not None:
            defaults[x.arg] = dv
    for p_ in params:
        if p_ not in bound:
            if p_ not in defaults:
                return None
            bound[p_] = defaults[p_]
    body = [b for b in callee.body if not (
        isinstance(b, ast.Expr) and isinstance(b.value, ast.Constant)
        and isinstance(b.value.value, str))]
    if any(isinstance(n, (ast.Yield, ast.YieldFrom)) for b in body
           for n in walk(b)):
        return None
    body = _single_exit(body)
    rets = [n for b in body for n in walk(b) if isinstance(n, ast.Return)]
    tail = None
    if rets:
        if len(rets) != 1 or rets[0] is not body[-1]:
            return None
        tail = rets[0].value
        body = body[:-1]
    elif isinstance(st, (ast.Assign, ast.Return)):
        return None
    # names of the caller that receive the result: a helper local of the
    # same name is that very variable (no renaming, no copy)
    keep = set()
    tgt = st.targets[0] if isinstance(st, ast.Assign) else None
    if tail is not None and tgt is not None:
        if isinstance(tgt, ast.Name) and isinstance(tail, ast.Name) \
                and tgt.id == tail.id:
            keep.add(tgt.id)
        elif isinstance(tgt, ast.Tuple) and isinstance(tail, ast.Tuple) \
                and len(tgt.elts) == len(tail.elts):
            for t_, v_ in zip(tgt.elts, tail.elts):
                if isinstance(t_, ast.Name) and isinstance(v_, ast.Name) \
                        and t_.id == v_.id:
                    keep.add(t_.id)
        elif isinstance(tgt, ast.Tuple):
            return None
    ren = {}
    pre = []
    for p_, v in bound.items():
        if isinstance(v, ast.Name) and v.id == p_:
            continue
        ren[p_] = p_ + "__h" if p_ in caller_names else p_
        pre.append(ast.Assign(
            targets=[ast.Name(id=ren[p_], ctx=ast.Store())],
            value=clone(v), lineno=st.lineno, col_offset=st.col_offset))
    local = set()
    for b in body:
        for n in walk(b):
            if isinstance(n, ast.Name) and isinstance(n.ctx, ast.Store):
                local.add(n.id)
    for nm in local:
        if nm not in bound and nm in caller_names and nm not in keep:
            ren[nm] = nm + "__h"

    def rename(tree):
        for n in ast.walk(tree):
            if isinstance(n, ast.Name) and n.id in ren:
                n.id = ren[n.id]
        return tree
    out = pre + [rename(clone(b)) for b in body]
    if tail is not None:
        rt = rename(clone(tail))
        if isinstance(st, ast.Return):
            out.append(ast.Return(value=rt, lineno=st.lineno,
                                  col_offset=st.col_offset))
        elif isinstance(st, ast.Assign):
            if isinstance(tgt, ast.Tuple) and isinstance(rt, ast.Tuple):
                for t_, v_ in zip(tgt.elts, rt.elts):
                    if isinstance(t_, ast.Name) and isinstance(
                            v_, ast.Name) and t_.id == v_.id:
                        continue
                    out.append(ast.Assign(
                        targets=[clone(t_)], value=v_, lineno=st.lineno,
                        col_offset=st.col_offset))
            elif not (isinstance(tgt, ast.Name) and isinstance(
                    rt, ast.Name) and tgt.id == rt.id):
                out.append(ast.Assign(
                    targets=[clone(t) for t in st.targets], value=rt,
                    lineno=st.lineno, col_offset=st.col_offset))
        elif not isinstance(rt, (ast.Constant, ast.Name)):
            out.append(ast.Expr(value=rt, lineno=st.lineno,
                                col_offset=st.col_offset))
    for b in out:
        ast.fix_missing_locations(b)
    if not out:
        out = [ast.Pass(lineno=st.lineno, col_offset=st.col_offset)]
    return out


def expand_private_calls(repo, rel, func, keep=(), depth=2, cls=None):
    """A copy of `func` in which statements `self._helper(..)`,
    `x = self._helper(..)`, `a, b = self._helper(..)` and
    `return self._helper(..)` are replaced by the helper's body (parameters
    bound to the arguments, helper locals renamed on collision, a single
    trailing `return` turned into the assignment / return).  Helpers are
    private methods of the class (also inherited from bases of the same
    file) and private module-level functions (also from-imported).  The
    copy hangs under the same class, so construct keys name the caller;
    `expanded_from` lists (file, name) of what was inlined.  Helpers that
    return from the middle or are generators stay calls."""
    cls = cls or class_of(func)
    cur = func
    inlined = list(getattr(func, "expanded_from", []))
    for _ in range(depth):
        sites = []
        for st in walk(cur):
            if isinstance(st, ast.Expr) and isinstance(st.value, ast.Call):
                got = private_callee(repo, rel, cur, st.value, cls)
            elif isinstance(st, ast.Assign) and len(st.targets) == 1 \
                    and isinstance(st.value, ast.Call):
                got = private_callee(repo, rel, cur, st.value, cls)
            elif isinstance(st, ast.Return) and isinstance(
                    st.value, ast.Call):
                got = private_callee(repo, rel, cur, st.value, cls)
            else:
                continue
            if got is not None and got[1].name not in keep \
                    and got[1].name != func.name:
                sites.append((st, got))
        if not sites:
            break
        new = clone(cur)
        olds = [n for n in walk(cur)]
        news = [n for n in walk(new)]
        if len(olds) != len(news):
            raise AnalysisError(f"{func.name}: clone mismatch")
        where = {id(o): n for o, n in zip(olds, news)}
        caller_names = {n.id for n in ast.walk(cur)
                        if isinstance(n, ast.Name)}
        caller_names |= {a.arg for a in cur.args.args}
        done = 0
        for st, (rel2, callee) in sites:
            body = _inline_body(st, callee, caller_names)
            if body is None:
                continue
            replace_stmt(new, where[id(st)], body)
            inlined.append((rel2, callee.name))
            done += 1
        if not done:
            break
        relink(new, func.parent)
        cur = new
    if cur is not func:
        cur.expanded_from = inlined
    return cur


def propagate_copies(func):
    """Locals whose every definition is a plain copy (`x = y`) of one and
    the same root variable are replaced by that root, provided the root is
    not re-bound after any of the copies (checked on the CFG); the copy
    statements disappear.  Returns `func` itself when nothing applies."""
    from .cfg import CFG
    defs = {}
    for n in walk(func):
        if isinstance(n, ast.Assign):
            for t in n.targets:
                for x in ast.walk(t):
                    if isinstance(x, ast.Name) and isinstance(
                            x.ctx, ast.Store):
                        defs.setdefault(x.id, []).append(n)
        elif isinstance(n, (ast.AugAssign, ast.For, ast.comprehension,
                            ast.NamedExpr)):
            for x in ast.walk(n.target):
                if isinstance(x, ast.Name):
                    defs.setdefault(x.id, []).append(None)
    params = {a.arg for a in func.args.args + func.args.kwonlyargs}

    def root(name, seen=()):
        if name in seen or name in params:
            return name
        ds = defs.get(name)
        if not ds or any(d is None or len(d.targets) != 1
                         or not isinstance(d.targets[0], ast.Name)
                         or not isinstance(d.value, ast.Name) for d in ds):
            return name
        roots = {root(d.value.id, seen + (name,)) for d in ds}
        return roots.pop() if len(roots) == 1 else name
    mapping = {n: root(n) for n in defs}
    mapping = {k: v for k, v in mapping.items() if k != v}
    if not mapping:
        return func
    cfg = CFG(func)
    for x, r in list(mapping.items()):
        r_defs = {i for d in defs.get(r, []) if d is not None
                  for i in cfg.ids_of(d)}
        for d in defs[x]:
            if r_defs & cfg.reach(cfg.ids_of(d)):
                mapping.pop(x, None)
                break
    if not mapping:
        return func
    new = clone(func)

    def strip(stmts):
        out = []
        for st in stmts:
            for fld in ("body", "orelse", "finalbody"):
                if isinstance(getattr(st, fld, None), list) and not \
                        isinstance(st, (ast.FunctionDef, ast.ClassDef)):
                    kept = strip(getattr(st, fld))
                    setattr(st, fld, kept or (
                        [ast.copy_location(ast.Pass(), st)]
                        if fld == "body" else []))
            if isinstance(st, ast.Try):
                for h in st.handlers:
                    h.body = strip(h.body) or [ast.copy_location(
                        ast.Pass(), st)]
            if isinstance(st, ast.Assign) and len(st.targets) == 1 \
                    and isinstance(st.targets[0], ast.Name) \
                    and st.targets[0].id in mapping:
                continue
            out.append(st)
        return out
    new.body = strip(new.body)

    class T(ast.NodeTransformer):
        def visit_Name(self, n):
            if n.id in mapping and isinstance(n.ctx, ast.Load):
                return ast.copy_location(ast.Name(id=mapping[n.id],
                                                  ctx=ast.Load()), n)
            return n
    T().visit(new)
    ast.fix_missing_locations(new)
    relink(new, getattr(func, "parent", None))
    if hasattr(func, "expanded_from"):
        new.expanded_from = func.expanded_from
    return new
