"""Normalisation of function bodies before rules look at them, so that
ordinary maintenance refactorings do not change what a rule sees.

* `inline_helpers(repo, rel, func)` – copy of `func` in which calls of private
  helpers of the same class / module (``self._x(..)``, ``Cls._x(..)``,
  ``_x(..)``) that were *extracted* from it are replaced by the helper's body
  (parameters bound by assignments, helper locals renamed).  Only helpers
  with plain positional/keyword parameters whose single ``return`` is their
  last statement are inlined; others stay calls.
* `expand_locals(func, expr)` – normalised text of `expr` with
  single-assignment locals replaced by their values.
"""
from __future__ import annotations

import ast
import copy

from .core import link, names_in, txt, walk


def _is_simple_helper(h):
    a = h.args
    if a.vararg or a.kwarg or a.kwonlyargs or a.posonlyargs:
        return False
    rets = [n for n in walk(h) if isinstance(n, ast.Return)]
    if len(rets) > 1:
        return False
    if rets and h.body[-1] is not rets[0]:
        return False
    if any(isinstance(n, (ast.Yield, ast.YieldFrom, ast.Global,
                          ast.Nonlocal)) for n in walk(h)):
        return False
    return True


class _Rename(ast.NodeTransformer):
    def __init__(self, mapping):
        self.m = mapping

    def visit_Name(self, node):
        if node.id in self.m:
            return ast.copy_location(ast.Name(id=self.m[node.id],
                                              ctx=node.ctx), node)
        return node

    def visit_arg(self, node):
        return node

    def visit_FunctionDef(self, node):
        return node      # do not descend into nested defs

    visit_Lambda = visit_FunctionDef


def _helper_of(repo, rel, cls, call):
    """(helper FunctionDef, is_method) for a call of a private helper"""
    f = call.func
    if isinstance(f, ast.Attribute) and isinstance(f.value, ast.Name) \
            and cls is not None and f.value.id in ("self", "cls", cls.name):
        for st in cls.body:
            if isinstance(st, ast.FunctionDef) and st.name == f.attr:
                static = any(txt(d) in ("staticmethod",)
                             for d in st.decorator_list)
                prop = any(txt(d) in ("property",) for d in st.decorator_list)
                if prop:
                    return None
                return st, not static
    if isinstance(f, ast.Name) and f.id.startswith("_"):
        h = repo.func(rel, f.id, missing_ok=True)
        if h is not None:
            return h, False
    return None


def _expand_call(h, is_method, call, tag):
    """-> (list of statements, return expression or None)"""
    params = [a.arg for a in h.args.args]
    if is_method and params:
        params = params[1:]
    defaults = h.args.defaults
    dmap = {}
    allp = [a.arg for a in h.args.args]
    for p, d in zip(allp[len(allp) - len(defaults):], defaults):
        dmap[p] = d
    bind = {}
    for p, a in zip(params, call.args):
        if isinstance(a, ast.Starred):
            return None
        bind[p] = a
    for kw in call.keywords:
        if kw.arg is None or kw.arg not in params:
            return None
        bind[kw.arg] = kw.value
    for p in params:
        if p not in bind:
            if p in dmap:
                bind[p] = dmap[p]
            else:
                return None
    locals_ = {n.id for n in walk(h) if isinstance(n, ast.Name)
               and isinstance(n.ctx, ast.Store)} | set(params)
    mapping = {}
    pre = []
    for p in params:
        a = bind[p]
        if isinstance(a, ast.Name):
            mapping[p] = a.id            # parameter is an alias of the arg
        else:
            mapping[p] = f"{p}__{tag}"
            pre.append(ast.Assign(
                targets=[ast.Name(id=mapping[p], ctx=ast.Store())],
                value=copy.deepcopy(a), lineno=call.lineno, col_offset=0))
    # a parameter that is re-bound inside the helper must not clobber the
    # caller's variable
    stored = {n.id for n in walk(h) if isinstance(n, ast.Name)
              and isinstance(n.ctx, ast.Store)}
    for p in params:
        if p in stored and mapping[p] == getattr(bind[p], "id", None):
            mapping[p] = f"{p}__{tag}"
            pre.append(ast.Assign(
                targets=[ast.Name(id=mapping[p], ctx=ast.Store())],
                value=copy.deepcopy(bind[p]), lineno=call.lineno,
                col_offset=0))
    for loc in locals_ - set(params):
        mapping[loc] = f"{loc}__{tag}"
    body = [copy.deepcopy(s) for s in h.body]
    if body and isinstance(body[0], ast.Expr) and isinstance(
            body[0].value, ast.Constant) and isinstance(
            body[0].value.value, str):
        body = body[1:]
    ret = None
    if body and isinstance(body[-1], ast.Return):
        ret = body[-1].value
        body = body[:-1]
    ren = _Rename(mapping)
    body = [ren.visit(s) for s in body]
    if ret is not None:
        ret = ren.visit(ret)
    # inlined statements take the position of the call (rules order
    # statements by line)
    for s in pre + body + ([ret] if ret is not None else []):
        for n in ast.walk(s):
            if isinstance(n, (ast.stmt, ast.expr, ast.excepthandler,
                              ast.arg, ast.keyword)):
                n.lineno = call.lineno
                n.end_lineno = call.lineno
                n.col_offset = 0
                n.end_col_offset = 0
    return pre + body, ret


def inline_helpers(repo, rel, func, depth=2, keep=()):
    """`keep`: helper names that are anchors of a rule and stay calls"""
    cls = getattr(func, "parent", None)
    cls = cls if isinstance(cls, ast.ClassDef) else None
    new = copy.deepcopy(func)
    counter = [0]

    def process(stmts, level):
        out = []
        for st in stmts:
            call = None
            kind = None
            if isinstance(st, ast.Expr) and isinstance(st.value, ast.Call):
                call, kind = st.value, "expr"
            elif isinstance(st, ast.Assign) and isinstance(
                    st.value, ast.Call) and len(st.targets) == 1:
                call, kind = st.value, "assign"
            elif isinstance(st, ast.Return) and isinstance(
                    st.value, ast.Call):
                call, kind = st.value, "return"
            elif isinstance(st, (ast.For,)) and isinstance(
                    st.iter, ast.Call):
                call, kind = st.iter, "for"
            done = False
            if call is not None and level < depth:
                hh = _helper_of(repo, rel, cls, call)
                if hh is not None and hh[0].name != func.name \
                        and hh[0].name not in keep \
                        and _is_simple_helper(hh[0]):
                    counter[0] += 1
                    exp = _expand_call(hh[0], hh[1], call,
                                       f"{hh[0].name.strip('_')}{counter[0]}")
                    if exp is not None:
                        body, ret = exp
                        body = process(body, level + 1)
                        if kind == "expr":
                            out += body
                            done = True
                        elif kind == "assign" and ret is not None:
                            out += body + [ast.Assign(
                                targets=st.targets, value=ret,
                                lineno=st.lineno, col_offset=st.col_offset)]
                            done = True
                        elif kind == "return" and ret is not None:
                            out += body + [ast.Return(
                                value=ret, lineno=st.lineno,
                                col_offset=st.col_offset)]
                            done = True
                        elif kind == "for" and ret is not None:
                            st.iter = ret
                            st.body = process(st.body, level)
                            st.orelse = process(st.orelse, level)
                            out += body + [st]
                            done = True
            if done:
                continue
            for fld in ("body", "orelse", "finalbody"):
                if hasattr(st, fld) and isinstance(getattr(st, fld), list) \
                        and not isinstance(st, (ast.FunctionDef,
                                                ast.ClassDef)):
                    setattr(st, fld, process(getattr(st, fld), level))
            if isinstance(st, ast.Try):
                for h in st.handlers:
                    h.body = process(h.body, level)
            out.append(st)
        return out

    new.body = process(new.body, 0)
    ast.fix_missing_locations(new)
    link(new)
    new.parent = getattr(func, "parent", None)
    new.inlined_helpers = counter[0]
    return new


def expand_locals(func, expr, depth=3):
    """text of `expr` with single-assignment locals of `func` expanded"""
    counts = {}
    for n in walk(func):
        if isinstance(n, ast.Assign) and len(n.targets) == 1 and isinstance(
                n.targets[0], ast.Name):
            counts.setdefault(n.targets[0].id, []).append(n.value)
        elif isinstance(n, ast.Assign):
            for t in n.targets:
                for nm in names_in(t):
                    counts.setdefault(nm, []).extend([None, None])
        elif isinstance(n, (ast.AugAssign, ast.For, ast.AnnAssign)):
            for nm in names_in(n.target):
                counts.setdefault(nm, []).extend([None, None])
        elif isinstance(n, (ast.With,)):
            for it in n.items:
                if it.optional_vars is not None:
                    for nm in names_in(it.optional_vars):
                        counts.setdefault(nm, []).extend([None, None])
    defs = {k: v[0] for k, v in counts.items()
            if len(v) == 1 and v[0] is not None}

    class Sub(ast.NodeTransformer):
        def visit_Name(self, node):
            if isinstance(node.ctx, ast.Load) and node.id in defs:
                return ast.parse("(" + txt(defs[node.id]) + ")",
                                 mode="eval").body
            return node
    cur = ast.parse(txt(expr), mode="eval").body
    for _ in range(depth):
        cur = ast.fix_missing_locations(Sub().visit(cur))
        cur = ast.parse(txt(cur), mode="eval").body
    return txt(cur)
