"""Normalisation of function bodies before rules look at them, so that
ordinary maintenance refactorings do not change what a rule sees.

* `inline_helpers(repo, rel, func)` – copy of `func` in which calls of private
  helpers of the same class / module (``self._x(..)``, ``Cls._x(..)``,
  ``_x(..)``) that were *extracted* from it are replaced by the helper's body
  (parameters bound by assignments, helper locals renamed).  Only helpers
  with plain positional/keyword parameters whose single ``return`` is their
  last statement are inlined; others stay calls.
* `expand_locals(func, expr)` – normalised text of `expr` with
  single-assignment locals replaced by their values.
"""
from __future__ import annotations

import ast
import copy

from .core import call_name, link, names_in, txt, walk


def _cp(node):
    """structural copy of a syntax tree: fields and positions only (the
    `.parent` links set by core.link are not followed)"""
    if isinstance(node, ast.AST):
        new = node.__class__()
        for f in node._fields:
            if hasattr(node, f):
                setattr(new, f, _cp(getattr(node, f)))
        for a in node._attributes:
            if hasattr(node, a):
                setattr(new, a, getattr(node, a))
        return new
    if isinstance(node, list):
        return [_cp(x) for x in node]
    return node


def _is_simple_helper(h):
    a = h.args
    if a.vararg or a.kwarg or a.kwonlyargs or a.posonlyargs:
        return False
    rets = [n for n in walk(h) if isinstance(n, ast.Return)]
    if len(rets) > 1:
        return False
    if rets and h.body[-1] is not rets[0]:
        return False
    if any(isinstance(n, (ast.Yield, ast.YieldFrom, ast.Global,
                          ast.Nonlocal)) for n in walk(h)):
        return False
    return True


class _Rename(ast.NodeTransformer):
    def __init__(self, mapping):
        self.m = mapping

    def visit_Name(self, node):
        if node.id in self.m:
            return ast.copy_location(ast.Name(id=self.m[node.id],
                                              ctx=node.ctx), node)
        return node

    def visit_arg(self, node):
        return node

    def visit_FunctionDef(self, node):
        return node      # do not descend into nested defs

    visit_Lambda = visit_FunctionDef


def _helper_of(repo, rel, cls, call):
    """(helper FunctionDef, is_method) for a call of a private helper"""
    f = call.func
    if isinstance(f, ast.Attribute) and isinstance(f.value, ast.Name) \
            and cls is not None and f.value.id in ("self", "cls", cls.name):
        for st in cls.body:
            if isinstance(st, ast.FunctionDef) and st.name == f.attr:
                static = any(txt(d) in ("staticmethod",)
                             for d in st.decorator_list)
                prop = any(txt(d) in ("property",) for d in st.decorator_list)
                if prop:
                    return None
                return st, not static
    if isinstance(f, ast.Name) and f.id.startswith("_"):
        try:
            h = repo.func(rel, f.id, missing_ok=True)
        except Exception:
            h = None       # a private class, not a helper function
        if h is not None:
            return h, False
        imp = resolve_from_import(repo, rel, f.id)
        if imp is not None:
            try:
                h = repo.func(imp[0], imp[1], missing_ok=True)
            except Exception:
                h = None
            if h is not None:
                return h, False
    return None


def resolve_from_import(repo, rel, name):
    """(rel2, name2) when `name` is bound in module `rel` by
    ``from <module> import name2 [as name]`` and <module> is a file of the
    repository, else None"""
    import posixpath
    try:
        tree = repo.tree(rel)
    except Exception:
        return None
    for st in tree.body:
        if not isinstance(st, ast.ImportFrom):
            continue
        for al in st.names:
            if (al.asname or al.name) != name:
                continue
            if st.level:
                base = posixpath.dirname(rel)
                for _ in range(st.level - 1):
                    base = posixpath.dirname(base)
                mod = (st.module or "").replace(".", "/")
                cand = posixpath.join(base, mod) if mod else base
            else:
                cand = (st.module or "").replace(".", "/")
            for r2 in (cand + ".py", cand + "/__init__.py"):
                try:
                    repo.tree(r2)
                    return r2, al.name
                except Exception:
                    continue
    return None


def _ends_in_exit(stmts):
    """every path through `stmts` ends in return / raise"""
    if not stmts:
        return False
    last = stmts[-1]
    if isinstance(last, (ast.Return, ast.Raise)):
        return True
    if isinstance(last, ast.If):
        return _ends_in_exit(last.body) and _ends_in_exit(last.orelse)
    if isinstance(last, (ast.With, ast.AsyncWith)):
        return _ends_in_exit(last.body)
    if isinstance(last, ast.Try):
        return (_ends_in_exit(last.finalbody) or (
            _ends_in_exit(last.body if not last.orelse else last.orelse)
            and all(_ends_in_exit(h_.body) for h_ in last.handlers)))
    return False


def _expand_call(h, is_method, call, tag, tail=False):
    """-> (list of statements, return expression or None); with `tail` the
    body keeps all its return statements (the call is the operand of a
    ``return``: the helper's exits are the caller's exits)"""
    params = [a.arg for a in h.args.args]
    if is_method and params:
        params = params[1:]
    defaults = h.args.defaults
    dmap = {}
    allp = [a.arg for a in h.args.args]
    for p, d in zip(allp[len(allp) - len(defaults):], defaults):
        dmap[p] = d
    bind = {}
    for p, a in zip(params, call.args):
        if isinstance(a, ast.Starred):
            return None
        bind[p] = a
    for kw in call.keywords:
        if kw.arg is None or kw.arg not in params:
            return None
        bind[kw.arg] = kw.value
    for p in params:
        if p not in bind:
            if p in dmap:
                bind[p] = dmap[p]
            else:
                return None
    locals_ = {n.id for n in walk(h) if isinstance(n, ast.Name)
               and isinstance(n.ctx, ast.Store)} | set(params)
    mapping = {}
    pre = []
    for p in params:
        a = bind[p]
        if isinstance(a, ast.Name):
            mapping[p] = a.id            # parameter is an alias of the arg
        else:
            mapping[p] = f"{p}__{tag}"
            pre.append(ast.Assign(
                targets=[ast.Name(id=mapping[p], ctx=ast.Store())],
                value=_cp(a), lineno=call.lineno, col_offset=0))
    # a parameter that is re-bound inside the helper must not clobber the
    # caller's variable
    stored = {n.id for n in walk(h) if isinstance(n, ast.Name)
              and isinstance(n.ctx, ast.Store)}
    for p in params:
        if p in stored and mapping[p] == getattr(bind[p], "id", None):
            mapping[p] = f"{p}__{tag}"
            pre.append(ast.Assign(
                targets=[ast.Name(id=mapping[p], ctx=ast.Store())],
                value=_cp(bind[p]), lineno=call.lineno,
                col_offset=0))
    for loc in locals_ - set(params):
        mapping[loc] = f"{loc}__{tag}"
    body = [_cp(s) for s in h.body]
    if body and isinstance(body[0], ast.Expr) and isinstance(
            body[0].value, ast.Constant) and isinstance(
            body[0].value.value, str):
        body = body[1:]
    ret = None
    if tail:
        if not _ends_in_exit(body):
            body.append(ast.Return(value=ast.Constant(value=None)))
    elif body and isinstance(body[-1], ast.Return):
        ret = body[-1].value
        body = body[:-1]
    ren = _Rename(mapping)
    body = [ren.visit(s) for s in body]
    if ret is not None:
        ret = ren.visit(ret)
    # inlined statements take the position of the call (rules order
    # statements by line)
    for s in pre + body + ([ret] if ret is not None else []):
        for n in ast.walk(s):
            if isinstance(n, (ast.stmt, ast.expr, ast.excepthandler,
                              ast.arg, ast.keyword)):
                n.lineno = call.lineno
                n.end_lineno = call.lineno
                n.col_offset = 0
                n.end_col_offset = 0
    return pre + body, ret


def exitstack_to_with(func):
    """``with contextlib.ExitStack() as st: a = st.enter_context(X); …``
    reads like ``with X as a, …:`` when the enter_context calls are the
    leading statements of the block and the stack is not used otherwise
    (in place, on a copy of the function)"""
    def is_stack(e):
        return isinstance(e, ast.Call) and (
            call_name(e) or "").split(".")[-1] == "ExitStack" \
            and not e.args and not e.keywords

    class T(ast.NodeTransformer):
        def visit_With(self, node):
            self.generic_visit(node)
            if len(node.items) != 1 or not is_stack(
                    node.items[0].context_expr) or not isinstance(
                    node.items[0].optional_vars, ast.Name):
                return node
            st = node.items[0].optional_vars.id
            items, k = [], 0
            for s_ in node.body:
                v = s_.value if isinstance(s_, (ast.Assign, ast.Expr)) \
                    else None
                if isinstance(v, ast.Call) and isinstance(
                        v.func, ast.Attribute) and v.func.attr == \
                        "enter_context" and isinstance(
                        v.func.value, ast.Name) and v.func.value.id == st \
                        and len(v.args) == 1 and not v.keywords and (
                        isinstance(s_, ast.Expr) or (
                            len(s_.targets) == 1 and isinstance(
                                s_.targets[0], ast.Name))):
                    items.append(ast.withitem(
                        context_expr=v.args[0],
                        optional_vars=(ast.Name(id=s_.targets[0].id,
                                                ctx=ast.Store())
                                       if isinstance(s_, ast.Assign)
                                       else None)))
                    k += 1
                else:
                    break
            rest = node.body[k:]
            if not items or not rest or any(
                    isinstance(n, ast.Name) and n.id == st
                    for r in rest for n in ast.walk(r)):
                return node
            new = ast.With(items=items, body=rest)
            return ast.copy_location(new, node)
    T().visit(func)
    ast.fix_missing_locations(func)
    return func


def _is_tail_helper(h):
    a = h.args
    if a.vararg or a.kwarg or a.kwonlyargs or a.posonlyargs:
        return False
    return not any(isinstance(n, (ast.Yield, ast.YieldFrom, ast.Global,
                                  ast.Nonlocal)) for n in walk(h))


def inline_helpers(repo, rel, func, depth=2, keep=()):
    """`keep`: helper names that are anchors of a rule and stay calls"""
    cls = getattr(func, "parent", None)
    cls = cls if isinstance(cls, ast.ClassDef) else None
    new = _cp(func)
    counter = [0]

    def process(stmts, level):
        out = []
        for st in stmts:
            call = None
            kind = None
            if isinstance(st, ast.Expr) and isinstance(st.value, ast.Call):
                call, kind = st.value, "expr"
            elif isinstance(st, ast.Assign) and isinstance(
                    st.value, ast.Call) and len(st.targets) == 1:
                call, kind = st.value, "assign"
            elif isinstance(st, ast.Return) and isinstance(
                    st.value, ast.Call):
                call, kind = st.value, "return"
            elif isinstance(st, (ast.For,)) and isinstance(
                    st.iter, ast.Call):
                call, kind = st.iter, "for"
            done = False
            if call is not None and level < depth:
                hh = _helper_of(repo, rel, cls, call)
                if hh is not None and hh[0].name != func.name \
                        and hh[0].name not in keep and kind == "return" \
                        and not _is_simple_helper(hh[0]) \
                        and _is_tail_helper(hh[0]):
                    # `return helper(...)`: the helper's body, with all its
                    # exits, takes the place of the statement
                    counter[0] += 1
                    exp = _expand_call(hh[0], hh[1], call,
                                       f"{hh[0].name.strip('_')}{counter[0]}",
                                       tail=True)
                    if exp is not None:
                        out += process(exp[0], level + 1)
                        continue
                if hh is not None and hh[0].name != func.name \
                        and hh[0].name not in keep \
                        and _is_simple_helper(hh[0]):
                    counter[0] += 1
                    exp = _expand_call(hh[0], hh[1], call,
                                       f"{hh[0].name.strip('_')}{counter[0]}")
                    if exp is not None:
                        body, ret = exp
                        body = process(body, level + 1)
                        if kind == "expr":
                            out += body
                            done = True
                        elif kind == "assign" and ret is not None:
                            tg0 = st.targets[0]
                            if isinstance(tg0, ast.Tuple) and isinstance(
                                    ret, ast.Tuple) and len(tg0.elts) == len(
                                    ret.elts) and all(
                                    isinstance(t_, ast.Name)
                                    for t_ in tg0.elts) and not (
                                    {t_.id for t_ in tg0.elts}
                                    & names_in(ret)):
                                # a, b = helper() with `return x, y`:
                                # element-wise
                                out += body + [ast.Assign(
                                    targets=[t_], value=v_,
                                    lineno=st.lineno,
                                    col_offset=st.col_offset)
                                    for t_, v_ in zip(tg0.elts, ret.elts)]
                            else:
                                out += body + [ast.Assign(
                                    targets=st.targets, value=ret,
                                    lineno=st.lineno,
                                    col_offset=st.col_offset)]
                            done = True
                        elif kind == "return" and ret is not None:
                            out += body + [ast.Return(
                                value=ret, lineno=st.lineno,
                                col_offset=st.col_offset)]
                            done = True
                        elif kind == "for" and ret is not None:
                            st.iter = ret
                            st.body = process(st.body, level)
                            st.orelse = process(st.orelse, level)
                            out += body + [st]
                            done = True
            if done:
                continue
            for fld in ("body", "orelse", "finalbody"):
                if hasattr(st, fld) and isinstance(getattr(st, fld), list) \
                        and not isinstance(st, (ast.FunctionDef,
                                                ast.ClassDef)):
                    setattr(st, fld, process(getattr(st, fld), level))
            if isinstance(st, ast.Try):
                for h in st.handlers:
                    h.body = process(h.body, level)
            out.append(st)
        return out

    new.body = process(new.body, 0)

    # calls of pure expression helpers (body = ``return <expr>``) in any
    # expression position
    class ExprInline(ast.NodeTransformer):
        def visit_FunctionDef(self, node):
            if node is new:
                self.generic_visit(node)
            return node

        visit_Lambda = visit_FunctionDef

        def visit_Call(self, node):
            self.generic_visit(node)
            hh = _helper_of(repo, rel, cls, node)
            if hh is None or hh[0].name == func.name or hh[0].name in keep:
                return node
            h, is_method = hh
            body = list(h.body)
            if body and isinstance(body[0], ast.Expr) and isinstance(
                    body[0].value, ast.Constant) and isinstance(
                    body[0].value.value, str):
                body = body[1:]
            if len(body) != 1 or not isinstance(body[0], ast.Return) \
                    or body[0].value is None or not _is_simple_helper(h) \
                    or h.decorator_list and not all(
                        txt(d) == "staticmethod" for d in h.decorator_list):
                return node
            params = [a.arg for a in h.args.args]
            if is_method and params:
                params = params[1:]
            dmap = dict(zip([a.arg for a in h.args.args][
                len(h.args.args) - len(h.args.defaults):], h.args.defaults))
            bind = {}
            for p_, a_ in zip(params, node.args):
                if isinstance(a_, ast.Starred):
                    return node
                bind[p_] = a_
            if len(node.args) > len(params):
                return node
            for kw in node.keywords:
                if kw.arg is None or kw.arg not in params:
                    return node
                bind[kw.arg] = kw.value
            for p_ in params:
                if p_ not in bind:
                    if p_ in dmap:
                        bind[p_] = dmap[p_]
                    else:
                        return node
            expr = body[0].value
            if any(isinstance(n, (ast.Lambda, ast.NamedExpr, ast.ListComp,
                                  ast.GeneratorExp, ast.DictComp, ast.SetComp,
                                  ast.Await, ast.Yield))
                   for n in ast.walk(expr)):
                return node
            uses = {}
            for n in ast.walk(expr):
                if isinstance(n, ast.Name):
                    uses[n.id] = uses.get(n.id, 0) + 1
            for p_ in params:
                a_ = bind[p_]
                pure = isinstance(a_, (ast.Name, ast.Constant)) or _pure_ref(
                    a_)
                if not pure and uses.get(p_, 0) > 1:
                    return node
            if is_method and h.args.args:
                # the receiver keeps its name only for self.<helper>
                me = h.args.args[0].arg
                if isinstance(node.func, ast.Attribute) and isinstance(
                        node.func.value, ast.Name):
                    bind[me] = ast.Name(id=node.func.value.id,
                                        ctx=ast.Load())
            counter[0] += 1
            out = _Subst(bind).visit(_cp(expr))
            for n in ast.walk(out):
                if hasattr(n, "lineno") or isinstance(n, (ast.expr,)):
                    n.lineno = node.lineno
                    n.end_lineno = node.lineno
                    n.col_offset = 0
                    n.end_col_offset = 0
            return out
    new = ExprInline().visit(new)
    ast.fix_missing_locations(new)
    link(new)
    new.parent = getattr(func, "parent", None)
    new.inlined_helpers = counter[0]
    return new


def expand_locals(func, expr, depth=3):
    """text of `expr` with single-assignment locals of `func` expanded"""
    counts = {}
    for n in walk(func):
        if isinstance(n, ast.Assign) and len(n.targets) == 1 and isinstance(
                n.targets[0], ast.Name):
            counts.setdefault(n.targets[0].id, []).append(n.value)
        elif isinstance(n, ast.Assign):
            for t in n.targets:
                for nm in names_in(t):
                    counts.setdefault(nm, []).extend([None, None])
        elif isinstance(n, (ast.AugAssign, ast.For, ast.AnnAssign)):
            for nm in names_in(n.target):
                counts.setdefault(nm, []).extend([None, None])
        elif isinstance(n, (ast.With,)):
            for it in n.items:
                if it.optional_vars is not None:
                    for nm in names_in(it.optional_vars):
                        counts.setdefault(nm, []).extend([None, None])
    defs = {k: v[0] for k, v in counts.items()
            if len(v) == 1 and v[0] is not None}

    class Sub(ast.NodeTransformer):
        def visit_Name(self, node):
            if isinstance(node.ctx, ast.Load) and node.id in defs:
                return ast.parse("(" + txt(defs[node.id]) + ")",
                                 mode="eval").body
            return node
    cur = ast.parse(txt(expr), mode="eval").body
    for _ in range(depth):
        cur = ast.fix_missing_locations(Sub().visit(cur))
        cur = ast.parse(txt(cur), mode="eval").body
    return txt(cur)


# ----------------------------------------------------------------------
# canonical forms of a few equivalent idioms (rules are written against the
# canonical one; these rewrites are semantics-preserving for the analyses)

def _stores(nodes):
    out = set()
    for s in nodes:
        for n in ast.walk(s):
            if isinstance(n, ast.Name) and isinstance(n.ctx, (ast.Store,
                                                              ast.Del)):
                out.add(n.id)
    return out


class _Subst(ast.NodeTransformer):
    """replace loads of names by expressions"""

    def __init__(self, mapping):
        self.m = mapping

    def visit_Name(self, node):
        if isinstance(node.ctx, ast.Load) and node.id in self.m:
            return _cp(self.m[node.id])
        return node

    def visit_FunctionDef(self, node):
        return node

    visit_Lambda = visit_FunctionDef


def _pure_ref(e):
    """name or attribute chain (no calls/subscripts)"""
    while isinstance(e, ast.Attribute):
        e = e.value
    return isinstance(e, ast.Name)


def _sub(value, *idx):
    for i in idx:
        value = ast.Subscript(value=value, slice=i, ctx=ast.Load())
    return value


class _DictIter(ast.NodeTransformer):
    """``for v in D.values()`` / ``for k, v in D.items()`` ->
    ``for k in D`` with ``v`` replaced by ``D[k]`` (tuple targets
    position-wise)"""

    def __init__(self):
        self.n = 0

    def visit_FunctionDef(self, node):
        if getattr(self, "_top", None) is None:
            self._top = node
            self.generic_visit(node)
        return node

    def visit_For(self, node):
        self.generic_visit(node)
        it = node.iter
        if not (isinstance(it, ast.Call) and not it.args and not it.keywords
                and isinstance(it.func, ast.Attribute)
                and it.func.attr in ("values", "items")
                and _pure_ref(it.func.value)):
            return node
        d = it.func.value
        tgt = node.target
        if it.func.attr == "items":
            if not (isinstance(tgt, ast.Tuple) and len(tgt.elts) == 2
                    and isinstance(tgt.elts[0], ast.Name)):
                return node
            key, val = tgt.elts
        else:
            self.n += 1
            key, val = ast.Name(id=f"_key{self.n}", ctx=ast.Store()), tgt
        mapping = {}
        base = _sub(_cp(d), ast.Name(id=key.id, ctx=ast.Load()))
        if isinstance(val, ast.Name):
            mapping[val.id] = base
        elif isinstance(val, ast.Tuple) and all(
                isinstance(e, ast.Name) for e in val.elts):
            for i, e in enumerate(val.elts):
                mapping[e.id] = _sub(_cp(base),
                                     ast.Constant(value=i))
        else:
            return node
        if _stores(node.body + node.orelse) & (set(mapping) | {key.id}):
            return node
        sub = _Subst(mapping)
        node.target = ast.Name(id=key.id, ctx=ast.Store())
        node.iter = _cp(d)
        node.body = [sub.visit(s) for s in node.body]
        node.orelse = [sub.visit(s) for s in node.orelse]
        return node


def _single_assigned(func):
    """{name: Assign node} for locals bound exactly once in `func`"""
    cnt = {}
    for n in walk(func):
        tg = []
        if isinstance(n, ast.Assign):
            for t in n.targets:
                if isinstance(t, ast.Name):
                    cnt.setdefault(t.id, []).append(n)
                else:
                    tg.append(t)
        elif isinstance(n, (ast.AugAssign, ast.AnnAssign, ast.For,
                            ast.NamedExpr)):
            tg.append(n.target)
        elif isinstance(n, ast.With):
            tg += [i.optional_vars for i in n.items
                   if i.optional_vars is not None]
        elif isinstance(n, ast.comprehension):
            tg.append(n.target)
        elif isinstance(n, ast.ExceptHandler) and n.name:
            cnt.setdefault(n.name, []).extend([None, None])
        for t in tg:
            for nm in names_in(t):
                cnt.setdefault(nm, []).extend([None, None])
    for a in func.args.args + func.args.kwonlyargs + func.args.posonlyargs:
        cnt.setdefault(a.arg, []).extend([None, None])
    return {k: v[0] for k, v in cnt.items()
            if len(v) == 1 and v[0] is not None}


def _canon_get(func):
    """``x = D.get(k)`` (x bound once) -> uses of ``x`` become ``D[k]``,
    ``x is None`` becomes ``k not in D``"""
    single = _single_assigned(func)
    todo = {}
    for name, asg in single.items():
        v = asg.value
        if isinstance(v, ast.Call) and isinstance(v.func, ast.Attribute) \
                and v.func.attr == "get" and len(v.args) == 1 \
                and not v.keywords and _pure_ref(v.func.value) \
                and len(asg.targets) == 1:
            todo[name] = (asg, v.func.value, v.args[0])
    if not todo:
        return func

    class T(ast.NodeTransformer):
        def visit_FunctionDef(self, node):
            if node is func:
                self.generic_visit(node)
            return node

        def visit_Assign(self, node):
            for name, (asg, d, k) in todo.items():
                if node is asg:
                    return ast.copy_location(ast.Pass(), node)
            self.generic_visit(node)
            return node

        def visit_Compare(self, node):
            if len(node.ops) == 1 and isinstance(node.left, ast.Name) \
                    and node.left.id in todo and isinstance(
                        node.ops[0], (ast.Is, ast.IsNot)) and isinstance(
                        node.comparators[0], ast.Constant) \
                    and node.comparators[0].value is None:
                _, d, k = todo[node.left.id]
                op = ast.NotIn() if isinstance(node.ops[0], ast.Is) \
                    else ast.In()
                return ast.copy_location(ast.Compare(
                    left=_cp(k), ops=[op],
                    comparators=[_cp(d)]), node)
            self.generic_visit(node)
            return node

        def visit_Name(self, node):
            if isinstance(node.ctx, ast.Load) and node.id in todo:
                _, d, k = todo[node.id]
                return ast.copy_location(
                    _sub(_cp(d), _cp(k)), node)
            return node
    return T().visit(func)


def _literal_items(repo, rel, func, it, single):
    """elements of a literal table `it` iterates over: list of expressions
    (for ``.items()`` of a dict literal: Tuple(key, value)) or None"""
    def resolve(e):
        if isinstance(e, ast.Name):
            if e.id in single and len(single[e.id].targets) == 1:
                return single[e.id].value
            if repo is not None and e.id not in _stores([func]):
                try:
                    return repo.module_assign(rel, e.id)
                except Exception:
                    return None
        return e
    if isinstance(it, ast.Call) and isinstance(it.func, ast.Attribute) \
            and it.func.attr == "items" and not it.args:
        d = resolve(it.func.value)
        if isinstance(d, ast.Dict) and all(k is not None for k in d.keys):
            return [ast.Tuple(elts=[k, v], ctx=ast.Load())
                    for k, v in zip(d.keys, d.values)]
        return None
    lit = resolve(it)
    if isinstance(lit, (ast.Tuple, ast.List)) and not any(
            isinstance(e, ast.Starred) for e in lit.elts):
        return list(lit.elts)
    if isinstance(lit, ast.Dict) and all(k is not None for k in lit.keys) \
            and lit is not it:
        return list(lit.keys)
    return None


def _unroll(repo, rel, func, limit=40):
    """``for t in <literal table>: body`` -> body per element"""
    single = _single_assigned(func)

    def bind(target, elem, mapping):
        if isinstance(target, ast.Name):
            mapping[target.id] = elem
            return True
        if isinstance(target, (ast.Tuple, ast.List)) and isinstance(
                elem, (ast.Tuple, ast.List)) and len(target.elts) == len(
                elem.elts):
            return all(bind(t, e, mapping)
                       for t, e in zip(target.elts, elem.elts))
        return False

    def process(stmts):
        out = []
        for st in stmts:
            for fld in ("body", "orelse", "finalbody"):
                if hasattr(st, fld) and isinstance(getattr(st, fld), list) \
                        and not isinstance(st, (ast.FunctionDef,
                                                ast.ClassDef)):
                    setattr(st, fld, process(getattr(st, fld)))
            if isinstance(st, ast.Try):
                for h in st.handlers:
                    h.body = process(h.body)
            if isinstance(st, ast.For) and not st.orelse:
                elems = _literal_items(repo, rel, func, st.iter, single)
                tn = names_in(st.target)
                ok = elems is not None and 0 < len(elems) <= limit \
                    and not (_stores(st.body) & tn) and not any(
                        isinstance(n, (ast.Break, ast.Continue))
                        for s in st.body for n in walk(s))
                if ok:
                    copies = []
                    for el in elems:
                        mapping = {}
                        if not bind(st.target, el, mapping):
                            ok = False
                            break
                        sub = _Subst(mapping)
                        for s in st.body:
                            c = sub.visit(_cp(s))
                            for n in ast.walk(c):
                                if hasattr(n, "lineno"):
                                    n.lineno = st.lineno
                                    n.end_lineno = st.lineno
                            copies.append(c)
                    if ok:
                        out += copies
                        continue
            out.append(st)
        return out
    func.body = process(func.body)
    return func


def _module_scalar(repo, rel, name, depth=2):
    """Constant node a module-level name is bound to exactly once (str,
    bytes, number, bool, None), following ``from .m import NAME``; else
    None.  A name that is stored anywhere else in the module (global
    statement, augmented assignment, loop target) is not a constant."""
    try:
        tree = repo.tree(rel)
    except Exception:
        return None
    val, n = None, 0
    for node in ast.walk(tree):
        if isinstance(node, ast.Name) and node.id == name \
                and not isinstance(node.ctx, ast.Load):
            n += 1
        elif isinstance(node, ast.Global) and name in node.names:
            return None
        elif isinstance(node, (ast.FunctionDef, ast.ClassDef,
                               ast.AsyncFunctionDef)) and node.name == name:
            return None
    for st in tree.body:
        if isinstance(st, ast.Assign) and len(st.targets) == 1 \
                and isinstance(st.targets[0], ast.Name) \
                and st.targets[0].id == name:
            val = st.value
        elif isinstance(st, ast.AnnAssign) and st.value is not None \
                and isinstance(st.target, ast.Name) \
                and st.target.id == name:
            val = st.value
    if val is not None:
        if n == 1 and isinstance(val, ast.Constant) and not isinstance(
                val.value, type(Ellipsis)):
            return val
        return None
    if n == 0 and depth > 0:
        r = resolve_from_import(repo, rel, name)
        if r is not None:
            return _module_scalar(repo, r[0], r[1], depth - 1)
    return None


def fold_constants(repo, rel, func):
    """replace loads of module-level scalar constants in `func` (in place)
    by the constant: ``po.with_suffix(SUFFIX_TEMP)`` reads like the
    literal it stands for"""
    if repo is None:
        return func
    local = _stores([func]) | {a.arg for a in ast.walk(func)
                               if isinstance(a, ast.arg)}
    for n in ast.walk(func):
        if isinstance(n, (ast.Global, ast.Nonlocal)):
            local |= set(n.names)
    cache = {}

    class T(ast.NodeTransformer):
        def visit_Name(self, node):
            if not isinstance(node.ctx, ast.Load) or node.id in local:
                return node
            if node.id not in cache:
                cache[node.id] = _module_scalar(repo, rel, node.id)
            c = cache[node.id]
            if c is None:
                return node
            return ast.copy_location(ast.Constant(value=c.value), node)
    T().visit(func)
    return func


def canon(repo, rel, func, keep=(), depth=2, unroll=True):
    """copy of `func` with private helpers inlined, ``D.get(k)`` locals,
    ``.values()/.items()`` iteration, leading walrus tests and loops over literal tables brought
    to the canonical forms the rules are written against"""
    new = inline_helpers(repo, rel, func, depth=depth, keep=keep)
    parent = getattr(new, "parent", None)
    new = fold_constants(repo, rel, new)
    ft = _FillToSlice()
    ft._top = None
    new = ft.visit(new)
    ln = _LogicalNotToInvert()
    ln._top = None
    new = ln.visit(new)
    new = _expand_partial(new)
    new = _try_keyerror_to_if(new)
    new = _ifexp_to_if(new)
    new = _hoist_walrus(new)
    new = _named_conditions(new)
    new = _canon_get(new)
    if unroll:
        new = _unroll(repo, rel, new)
    t = _DictIter()
    t._top = None
    new = t.visit(new)
    ast.fix_missing_locations(new)
    link(new)
    new.parent = parent
    return new


def expand_bool_locals(func, expr, depth=3):
    """AST of `expr` with locals of `func` that are bound exactly once to a
    boolean expression (comparison / and / or / not / any-all call) replaced
    by that expression – named conditions are transparent to predicate
    evaluation, other locals (keys, bounds, data) stay names"""
    single = _single_assigned(func)

    def is_bool(v):
        if isinstance(v, (ast.Compare, ast.BoolOp)):
            return True
        if isinstance(v, ast.UnaryOp) and isinstance(v.op, ast.Not):
            return True
        return False
    defs = {k: a.value for k, a in single.items()
            if len(a.targets) == 1 and is_bool(a.value)}
    cur = _cp(expr)
    for _ in range(depth):
        cur = _Subst(defs).visit(cur)
        if isinstance(cur, ast.Name) and cur.id in defs:
            cur = _cp(defs[cur.id])
    ast.fix_missing_locations(cur)
    return link(cur) or cur


def _hoist_walrus(func):
    """``if (x := e) <cmp> …:`` -> ``x = e`` before the ``if`` (only where
    the named expression is evaluated first and unconditionally)"""
    def first(e):
        if isinstance(e, ast.NamedExpr):
            return e
        if isinstance(e, ast.Compare):
            return first(e.left)
        if isinstance(e, ast.BoolOp):
            return first(e.values[0])
        if isinstance(e, ast.UnaryOp):
            return first(e.operand)
        return None

    class Repl(ast.NodeTransformer):
        def __init__(self, ne):
            self.ne = ne

        def visit_NamedExpr(self, node):
            if node is self.ne:
                return ast.copy_location(
                    ast.Name(id=node.target.id, ctx=ast.Load()), node)
            return self.generic_visit(node)

    def process(stmts):
        out = []
        for st in stmts:
            for fld in ("body", "orelse", "finalbody"):
                if hasattr(st, fld) and isinstance(getattr(st, fld), list) \
                        and not isinstance(st, (ast.FunctionDef,
                                                ast.ClassDef)):
                    setattr(st, fld, process(getattr(st, fld)))
            if isinstance(st, ast.Try):
                for h in st.handlers:
                    h.body = process(h.body)
            if isinstance(st, ast.If):
                ne = first(st.test)
                while ne is not None:
                    out.append(ast.copy_location(ast.Assign(
                        targets=[ast.Name(id=ne.target.id, ctx=ast.Store())],
                        value=ne.value), st))
                    st.test = Repl(ne).visit(st.test)
                    ne = first(st.test)
            out.append(st)
        return out
    func.body = process(func.body)
    return func


def _ifexp_to_if(func):
    """``x = a if c else b`` -> ``if c: x = a else: x = b`` (also for
    ``return``), so that rules written for the statement form see it"""
    def process(stmts):
        out = []
        for st in stmts:
            for fld in ("body", "orelse", "finalbody"):
                if hasattr(st, fld) and isinstance(getattr(st, fld), list) \
                        and not isinstance(st, (ast.FunctionDef,
                                                ast.ClassDef)):
                    setattr(st, fld, process(getattr(st, fld)))
            if isinstance(st, ast.Try):
                for h in st.handlers:
                    h.body = process(h.body)
            v = getattr(st, "value", None)
            if isinstance(st, (ast.Assign, ast.Return)) and isinstance(
                    v, ast.IfExp):
                def mk(val):
                    c = _cp(st)
                    c.value = val
                    if isinstance(st, ast.Assign):
                        c.targets = [_cp(t) for t in st.targets]
                    return c
                new = ast.copy_location(ast.If(
                    test=v.test, body=process([mk(v.body)]),
                    orelse=process([mk(v.orelse)])), st)
                out.append(new)
                continue
            out.append(st)
        return out
    func.body = process(func.body)
    return func


def _named_conditions(func):
    """``flag = <boolean expr>`` (bound once, operands never re-bound) used
    as an ``if``/``while``/``assert`` test or inside one -> the expression"""
    single = _single_assigned(func)
    stored = set()
    for n in walk(func):
        if isinstance(n, (ast.Name, ast.Attribute, ast.Subscript)) \
                and isinstance(getattr(n, "ctx", None), (ast.Store, ast.Del)):
            stored.add(txt(n))
    for a in func.args.args + func.args.kwonlyargs + func.args.posonlyargs:
        pass
    defs = {}
    for k, a in single.items():
        v = a.value
        if len(a.targets) != 1:
            continue
        if not (isinstance(v, (ast.Compare, ast.BoolOp)) or isinstance(
                v, ast.UnaryOp) and isinstance(v.op, ast.Not)):
            continue
        if any(isinstance(n, (ast.Call, ast.NamedExpr, ast.Await))
               for n in ast.walk(v)):
            continue
        operands = {txt(n) for n in ast.walk(v) if isinstance(
            n, (ast.Name, ast.Attribute, ast.Subscript))}
        # operands may be parameters or locals bound once *before* use;
        # anything stored elsewhere (augmented, re-bound, attribute
        # written) blocks the rewrite
        multi = {t for t in operands if t in stored and not (
            t in single and t != k)}
        if multi:
            continue
        defs[k] = v
    if not defs:
        return func

    class T(ast.NodeTransformer):
        def visit_FunctionDef(self, node):
            if node is func:
                self.generic_visit(node)
            return node

        def _test(self, node):
            for _ in range(3):
                node.test = _Subst(defs).visit(node.test)
                if isinstance(node.test, ast.Name) and node.test.id in defs:
                    node.test = _cp(defs[node.test.id])
            self.generic_visit(node)
            return node
        visit_If = _test
        visit_While = _test
        visit_Assert = _test
        visit_IfExp = _test
    return T().visit(func)


def expand_ref_locals(func):
    """copy of `func` in which locals bound exactly once to a *reference
    expression* (name / attribute / subscript chain with name or constant
    indices), also position-wise through tuple unpacking of such an
    expression, are replaced by that expression.  Opt-in: only sound for
    rules that do not depend on the moment the reference is read."""
    new = _cp(func)

    def is_ref(e):
        if isinstance(e, ast.Name):
            return True
        if isinstance(e, ast.Attribute):
            return is_ref(e.value)
        if isinstance(e, ast.Subscript):
            return is_ref(e.value) and isinstance(
                e.slice, (ast.Name, ast.Constant))
        return False
    cnt = {}
    for n in walk(new):
        if isinstance(n, ast.Assign):
            for t in n.targets:
                for nm in names_in(t):
                    cnt[nm] = cnt.get(nm, 0) + 1
        elif isinstance(n, (ast.AugAssign, ast.AnnAssign, ast.For,
                            ast.NamedExpr, ast.comprehension)):
            for nm in names_in(n.target):
                cnt[nm] = cnt.get(nm, 0) + 2
        elif isinstance(n, ast.With):
            for it in n.items:
                if it.optional_vars is not None:
                    for nm in names_in(it.optional_vars):
                        cnt[nm] = cnt.get(nm, 0) + 2
    for a in new.args.args + new.args.kwonlyargs + new.args.posonlyargs:
        cnt[a.arg] = cnt.get(a.arg, 0) + 2
    mapping = {}
    drop = []
    for n in walk(new):
        if not (isinstance(n, ast.Assign) and len(n.targets) == 1
                and is_ref(n.value) and not isinstance(n.value, ast.Name)):
            continue
        t = n.targets[0]
        if isinstance(t, ast.Name) and cnt.get(t.id) == 1:
            mapping[t.id] = n.value
            drop.append(n)
        elif isinstance(t, ast.Tuple) and all(
                isinstance(e, ast.Name) and cnt.get(e.id) == 1
                for e in t.elts):
            for i, e in enumerate(t.elts):
                mapping[e.id] = _sub(_cp(n.value), ast.Constant(value=i))
            drop.append(n)
    if not mapping:
        link(new)
        new.parent = getattr(func, "parent", None)
        return new
    for _ in range(3):
        mapping = {k: _Subst({a: b for a, b in mapping.items() if a != k})
                   .visit(_cp(v)) for k, v in mapping.items()}

    class T(ast.NodeTransformer):
        def visit_FunctionDef(self, node):
            if node is new:
                self.generic_visit(node)
            return node

        def visit_Assign(self, node):
            if any(node is d for d in drop):
                return ast.copy_location(ast.Pass(), node)
            self.generic_visit(node)
            return node

        def visit_Name(self, node):
            if isinstance(node.ctx, ast.Load) and node.id in mapping:
                return ast.copy_location(_cp(mapping[node.id]), node)
            return node
    new = T().visit(new)
    ast.fix_missing_locations(new)
    link(new)
    new.parent = getattr(func, "parent", None)
    return new


class _FillToSlice(ast.NodeTransformer):
    """``X.fill(c)`` / ``X[...] = c`` -> ``X[:] = c``"""

    def visit_FunctionDef(self, node):
        if getattr(self, "_top", None) is None:
            self._top = node
            self.generic_visit(node)
        return node

    def visit_Expr(self, node):
        c = node.value
        if isinstance(c, ast.Call) and isinstance(c.func, ast.Attribute) \
                and c.func.attr == "fill" and len(c.args) == 1 \
                and not c.keywords and _pure_ref(c.func.value):
            return ast.copy_location(ast.Assign(
                targets=[ast.Subscript(
                    value=c.func.value,
                    slice=ast.Slice(lower=None, upper=None, step=None),
                    ctx=ast.Store())], value=c.args[0]), node)
        return node

    def visit_Assign(self, node):
        for t in node.targets:
            if isinstance(t, ast.Subscript) and isinstance(
                    t.slice, ast.Constant) and t.slice.value is Ellipsis:
                t.slice = ast.Slice(lower=None, upper=None, step=None)
        return node


def _try_keyerror_to_if(func):
    """``try: S(D[k]) except KeyError: H [else: E]`` (one statement S whose
    only look-up is ``D[k]``) -> ``if k in D: S; E else: H``"""
    def lookups(st):
        return [n for n in ast.walk(st) if isinstance(n, ast.Subscript)
                and isinstance(n.ctx, ast.Load)]

    def process(stmts):
        out = []
        for st in stmts:
            for fld in ("body", "orelse", "finalbody"):
                if hasattr(st, fld) and isinstance(getattr(st, fld), list) \
                        and not isinstance(st, (ast.FunctionDef,
                                                ast.ClassDef)):
                    setattr(st, fld, process(getattr(st, fld)))
            if isinstance(st, ast.Try):
                for h in st.handlers:
                    h.body = process(h.body)
            if isinstance(st, ast.Try) and len(st.body) == 1 and len(
                    st.handlers) == 1 and not st.finalbody:
                h = st.handlers[0]
                subs = lookups(st.body[0])
                if h.type is not None and txt(h.type) == "KeyError" \
                        and h.name is None and len(subs) == 1 \
                        and _pure_ref(subs[0].value) and isinstance(
                            subs[0].slice, (ast.Name, ast.Constant)) \
                        and not any(isinstance(n, ast.Call)
                                    for n in ast.walk(st.body[0])):
                    test = ast.Compare(left=_cp(subs[0].slice),
                                       ops=[ast.In()],
                                       comparators=[_cp(subs[0].value)])
                    new = ast.copy_location(ast.If(
                        test=test, body=st.body + st.orelse,
                        orelse=h.body), st)
                    out.append(new)
                    continue
            out.append(st)
        return out
    func.body = process(func.body)
    return func


def _expand_partial(func):
    """``p = functools.partial(f, *a, **k)`` (bound once) … ``p(*b, **m)``
    -> ``f(*a, *b, **k, **m)``"""
    single = _single_assigned(func)
    parts = {}
    for name, asg in single.items():
        v = asg.value
        if isinstance(v, ast.Call) and (call_name(v) or "").split(".")[-1] \
                == "partial" and v.args and len(asg.targets) == 1:
            parts[name] = v
    if not parts:
        return func

    class T(ast.NodeTransformer):
        def visit_FunctionDef(self, node):
            if node is func:
                self.generic_visit(node)
            return node

        def visit_Call(self, node):
            self.generic_visit(node)
            if isinstance(node.func, ast.Name) and node.func.id in parts:
                p = parts[node.func.id]
                return ast.copy_location(ast.Call(
                    func=_cp(p.args[0]),
                    args=[_cp(a) for a in p.args[1:]] + node.args,
                    keywords=[_cp(k) for k in p.keywords] + node.keywords),
                    node)
            return node
    return T().visit(func)


class _LogicalNotToInvert(ast.NodeTransformer):
    """``np.logical_not(x)`` / ``np.invert(x)`` / ``np.bitwise_not(x)`` with
    one argument -> ``~x`` (masks)"""

    def visit_FunctionDef(self, node):
        if getattr(self, "_top", None) is None:
            self._top = node
            self.generic_visit(node)
        return node

    def visit_Call(self, node):
        self.generic_visit(node)
        nm = call_name(node) or ""
        if nm.split(".")[-1] in ("logical_not", "invert", "bitwise_not") \
                and nm.split(".")[0] in ("np", "numpy") \
                and len(node.args) == 1 and not node.keywords:
            return ast.copy_location(ast.UnaryOp(op=ast.Invert(),
                                                 operand=node.args[0]), node)
        return node
