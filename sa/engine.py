"""Obligation bookkeeping, known findings, evidence and exit codes."""
from __future__ import annotations

import ast
import json
import os
import pathlib
import time

from .core import AnalysisError, loc, qualname, root_file, short

VERIF = pathlib.Path(__file__).resolve().parent.parent
KNOWN_FILE = VERIF / "known_findings.json"


class Ob:
    __slots__ = ("rule", "key", "ok", "msg", "where", "nontrivial", "extra")

    def __init__(self, rule, key, ok, msg, where, nontrivial, extra=None):
        self.rule = rule
        self.key = key
        self.ok = ok
        self.msg = msg
        self.where = where
        self.nontrivial = nontrivial
        self.extra = extra

    def as_dict(self):
        d = {"rule": self.rule, "construct": self.key,
             "verdict": "holds" if self.ok else "VIOLATED",
             "where": self.where, "detail": self.msg}
        if self.extra:
            d["extra"] = self.extra
        return d


class Ctx:
    """Collects the obligations of one property run"""

    def __init__(self, prop, repo, tier="quick"):
        self.prop = prop
        self.repo = repo
        self.tier = tier
        self.obs = []
        self.minimum = {}
        self.rule_text = {}
        self.notes = []
        self.stats = {}

    def rule(self, rid, text, minimum=1):
        """Declare a rule, its one-line statement and the minimum number of
        instances confirmed by hand on the pinned tree"""
        self.rule_text[rid] = text
        self.minimum[rid] = minimum

    def ob(self, rule, ok, msg, node=None, key=None, label=None,
           nontrivial=True, extra=None):
        """Record one obligation.

        The construct key is ``file::qualname::label`` (label defaults to the
        normalised statement text), never a line number."""
        where = "?"
        if node is not None and isinstance(node, ast.AST):
            where = loc(node)
            if key is None:
                f = root_file(node)
                q = qualname(node)
                lab = label if label is not None else short(node, 70)
                key = f"{f}::{q}::{lab}"
        if key is None:
            key = label or "?"
        self.obs.append(Ob(rule, key, bool(ok), msg, where, nontrivial, extra))
        return bool(ok)

    def note(self, text):
        self.notes.append(text)

    def stat(self, name, value):
        self.stats[name] = value

    def counts(self):
        c = {}
        for o in self.obs:
            c[o.rule] = c.get(o.rule, 0) + 1
        return c

    def check_minimums(self):
        c = self.counts()
        for rid, m in self.minimum.items():
            if c.get(rid, 0) < m:
                raise AnalysisError(
                    f"rule {rid} matched {c.get(rid, 0)} instance(s), fewer "
                    f"than the {m} confirmed by hand – anchor or idiom lost")

    def findings(self):
        return [o for o in self.obs if not o.ok]


def load_known():
    if not KNOWN_FILE.exists():
        return []
    return json.loads(KNOWN_FILE.read_text())["findings"]


def split_findings(prop, findings, known=None):
    """-> (new findings, [(finding, known entry)])"""
    known = load_known() if known is None else known
    idx = {}
    for k in known:
        if k["property"] == prop and k.get("status") == "known":
            idx[(k["rule"], k["construct"])] = k
    new, old = [], []
    for f in findings:
        k = idx.get((f.rule, f.key))
        if k is None:
            new.append(f)
        else:
            old.append((f, k))
    return new, old


def write_evidence(prop, tier, ctx, wall, violations, known_hits, extra=None,
                   seed=0):
    obs = ctx.obs
    distinct = {(o.rule, o.key) for o in obs if o.nontrivial}
    samples = [o.as_dict() for o in obs[:6]]
    # one sample per rule beyond the first six
    seen_rules = {o.rule for o in obs[:6]}
    for o in obs:
        if o.rule not in seen_rules:
            samples.append(o.as_dict())
            seen_rules.add(o.rule)
    for o in obs:
        if not o.ok and o.as_dict() not in samples:
            samples.append(o.as_dict())
    cov = {
        "explanation": (
            "Static analysis of /repo's working tree (ast + CFG + dataflow; "
            "no code of the repository is executed to decide). Each rule "
            "enumerates the constructs it applies to (obligations) and "
            "decides each from the syntax tree / control-flow graph. "
            "Decided are the structural necessary conditions listed in "
            "'rules'; the value-level clauses listed under 'assumptions' "
            "are NOT decided."),
        "obligations": len(obs),
        "discharged": sum(1 for o in obs if o.ok),
        "evaluations": len(obs),
        "distinct_nontrivial": len(distinct),
        "rule": ("one obligation per (rule, construct); construct = "
                 "file::function::normalised statement or instance label; "
                 "distinct = distinct (rule, construct) pairs; non-trivial = "
                 "the rule's deciding branch was evaluated on it (not merely "
                 "an anchor-exists check)"),
        "rules": ctx.rule_text,
        "per_rule_instances": ctx.counts(),
        "per_rule_minimum": ctx.minimum,
        "samples": samples,
        "files_consulted": sorted(ctx.repo.consulted),
        "known_findings_reported": [
            {"rule": f.rule, "construct": f.key} for f, _ in known_hits],
        "trusted_base": ["CPython ast", "sa/pyxfront (de-cythoniser)",
                         "numpy/scipy/h5py semantics", "POSIX rename"],
        "stats": ctx.stats,
        "notes": ctx.notes,
        "exhaustive": True,
    }
    if extra:
        cov.update(extra)
    ev = {
        "property_id": prop,
        "tier": tier,
        "seed": seed,
        "level": "other",
        "coverage": cov,
        "assumptions": ASSUMPTIONS.get(prop, []),
        "wall_s": round(wall, 3),
        "violations": violations,
    }
    d = VERIF / "evidence"
    d.mkdir(exist_ok=True)
    (d / f"{prop}.json").write_text(json.dumps(ev, indent=1, default=str))
    return ev


ASSUMPTIONS = {}


def set_assumptions(prop, items):
    ASSUMPTIONS[prop] = list(items)
