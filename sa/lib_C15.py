"""Shared helper of the C15 / C16 rules: follow a method that delegates its
work to a helper with a tail call.

``inline_tail_call(repo, rel, func)``: when the last statement of `func` is
``return helper(args..)`` and `helper` is a private function of the same file
(module level, or a method of the same class called through self / the class
name), the result is a function with the signature of `func` whose body is
the statements of `func` before the call followed by the body of the helper
with its parameters replaced by the argument expressions (helper locals that
collide with names of `func` are renamed).  Because the call is in tail
position the helper may have any number of returns.  Anything else is
returned unchanged.
"""
from __future__ import annotations

import ast

from .core import AnalysisError, link, txt, walk


def _fresh_stmt(st):
    new = ast.parse(txt(st)).body[0]
    off = getattr(st, "lineno", 1) - 1
    for n in ast.walk(new):
        if hasattr(n, "lineno"):
            n.lineno += off
        if hasattr(n, "end_lineno") and n.end_lineno is not None:
            n.end_lineno += off
    return new


class _Ren(ast.NodeTransformer):
    def __init__(self, names, exprs):
        self.names, self.exprs = names, exprs

    def visit_Name(self, node):
        if node.id in self.exprs and isinstance(node.ctx, ast.Load):
            return ast.copy_location(
                ast.parse(txt(self.exprs[node.id]), mode="eval").body, node)
        if node.id in self.names:
            return ast.copy_location(
                ast.Name(id=self.names[node.id], ctx=node.ctx), node)
        return node

    def visit_FunctionDef(self, node):
        return node

    visit_Lambda = visit_FunctionDef


def _resolve(repo, rel, func, call):
    f = call.func
    cls = getattr(func, "parent", None)
    cls = cls if isinstance(cls, ast.ClassDef) else None
    if isinstance(f, ast.Name):
        h = repo.func(rel, f.id, missing_ok=True)
        return (h, False) if h is not None else None
    if isinstance(f, ast.Attribute) and isinstance(f.value, ast.Name) \
            and cls is not None and f.value.id in ("self", "cls", cls.name):
        for st in cls.body:
            if isinstance(st, ast.FunctionDef) and st.name == f.attr:
                if any(txt(d) == "property" for d in st.decorator_list):
                    return None
                static = any(txt(d) == "staticmethod"
                             for d in st.decorator_list)
                return st, (not static and f.value.id == "self")
    return None


def inline_tail_call(repo, rel, func, depth=2):
    body = list(func.body)
    if not body or not isinstance(body[-1], ast.Return) or not isinstance(
            body[-1].value, ast.Call) or depth <= 0:
        return func
    call = body[-1].value
    res = _resolve(repo, rel, func, call)
    if res is None:
        return func
    helper, bound_self = res
    if helper is func:
        return func
    a = helper.args
    if a.vararg or a.kwarg or a.kwonlyargs or a.posonlyargs:
        return func
    if any(isinstance(n, (ast.Yield, ast.YieldFrom, ast.Global, ast.Nonlocal))
           for n in walk(helper)):
        return func
    params = [x.arg for x in a.args]
    bind = {}
    if bound_self and params:
        bind[params[0]] = ast.Name(id="self", ctx=ast.Load())
        params = params[1:]
    for p, v in zip(params, call.args):
        if isinstance(v, ast.Starred):
            return func
        bind[p] = v
    for kw in call.keywords:
        if kw.arg is None or kw.arg not in params:
            return func
        bind[kw.arg] = kw.value
    allp = [x.arg for x in a.args]
    for p, d in zip(allp[len(allp) - len(a.defaults):], a.defaults):
        bind.setdefault(p, d)
    if any(p not in bind for p in params):
        return func
    stored = {n.id for n in walk(helper) if isinstance(n, ast.Name)
              and isinstance(n.ctx, ast.Store)}
    own = {x.arg for x in func.args.args} | {
        n.id for st in body[:-1] for n in ast.walk(st)
        if isinstance(n, ast.Name)}
    names, exprs, pre = {}, {}, []
    for p, v in bind.items():
        if isinstance(v, ast.Name) and p not in stored:
            names[p] = v.id
        elif isinstance(v, ast.Name) and v.id == p:
            continue
        elif p in stored or not isinstance(v, (ast.Name, ast.Constant)):
            tmp = p if p not in own else f"{p}__{helper.name.strip('_')}"
            names[p] = tmp
            pre.append(ast.parse(f"{tmp} = {txt(v)}").body[0])
        else:
            exprs[p] = v
    for loc in stored - set(bind):
        if loc in own:
            names[loc] = f"{loc}__{helper.name.strip('_')}"
    hbody = list(helper.body)
    if hbody and isinstance(hbody[0], ast.Expr) and isinstance(
            hbody[0].value, ast.Constant) and isinstance(
            hbody[0].value.value, str):
        hbody = hbody[1:]
    ren = _Ren(names, exprs)
    new_body = [_fresh_stmt(s) for s in body[:-1]]
    for s in pre:
        for n in ast.walk(s):
            if hasattr(n, "lineno"):
                n.lineno = call.lineno
        new_body.append(s)
    for s in hbody:
        new_body.append(ren.visit(_fresh_stmt(s)))
    if not new_body:
        raise AnalysisError(f"{func.name}: empty body after following "
                            f"{helper.name}")
    head = ast.parse(txt(ast.FunctionDef(
        name=func.name, args=func.args, body=[ast.Pass()],
        decorator_list=[], lineno=func.lineno, col_offset=0))).body[0]
    head.body = new_body
    head.lineno = func.lineno
    ast.fix_missing_locations(head)
    link(head)
    head.parent = getattr(func, "parent", None)
    head.followed = helper.name
    return inline_tail_call(repo, rel, head, depth - 1)
