"""Path-sensitive partial evaluator for *compute functions* of ancillary
features (effect analysis: which features / configuration keys does a
function read from the dataset it is given, and does the read matter?).

The function is evaluated on an abstract dataset under a three-valued
*presence environment* (PRESENT / ABSENT / UNKNOWN per feature and per
configuration key).  Unknown conditions fork the evaluation; presence tests on
UNKNOWN items fork and *record the assumption* on the path so that the caller
can discard paths that are infeasible for the instance under analysis (a
higher-priority recipe would have been selected).  Values carry provenance
(the set of reads they derive from); a read becomes *value-affecting* when its
value reaches a ``return``, an argument of a call other than
``warnings.warn``, or a branch condition of a statement that is not
diagnostic-only (an ``if`` whose body consists of ``warnings.warn`` calls
only).  A path that ends in ``raise`` marks the reads that steered it there as
*raise-affecting*.

Nothing of the repository is executed; this interprets syntax trees.
"""
from __future__ import annotations

import ast
import itertools

from .core import AnalysisError, call_name, dotted, last_attr, txt

PRESENT, ABSENT, UNKNOWN = "present", "absent", "unknown"


class V:
    """abstract value"""
    __slots__ = ("kind", "val", "prov")

    def __init__(self, kind, val=None, prov=frozenset()):
        self.kind = kind    # const|unknown|notnone|ds|cfg|sec|func|dict|list
        self.val = val
        self.prov = frozenset(prov)

    def with_prov(self, prov):
        return V(self.kind, self.val, self.prov | frozenset(prov))

    def __repr__(self):
        return f"V({self.kind},{self.val!r},{len(self.prov)})"


def const(v, prov=()):
    return V("const", v, prov)


def unknown(prov=()):
    return V("unknown", None, prov)


def _comprehension_as_loops(stmt):
    """``name = [elt for a in A for b in B if c]`` (also dict / set
    displays) as ``name = []`` + nested loops with ``name.append(elt)``;
    None for anything else (single-clause list comprehensions without a
    filter stay expressions: they fold directly)"""
    if not (isinstance(stmt, ast.Assign) and len(stmt.targets) == 1
            and isinstance(stmt.targets[0], ast.Name)):
        return None
    v = stmt.value
    if not isinstance(v, (ast.ListComp, ast.DictComp)):
        return None
    if isinstance(v, ast.ListComp) and len(v.generators) == 1 \
            and not v.generators[0].ifs:
        return None
    if any(g.is_async for g in v.generators):
        return None
    cached = getattr(stmt, "_as_loops", None)
    if cached is not None:
        return cached
    name = stmt.targets[0].id
    # the comprehension's own variables must not shadow the target
    for g in v.generators:
        if any(isinstance(n, ast.Name) and n.id == name
               for n in ast.walk(g.target)):
            return None
    if isinstance(v, ast.ListComp):
        init = ast.List(elts=[], ctx=ast.Load())
        inner = ast.Expr(value=ast.Call(
            func=ast.Attribute(value=ast.Name(id=name, ctx=ast.Load()),
                               attr="append", ctx=ast.Load()),
            args=[v.elt], keywords=[]))
    else:
        init = ast.Dict(keys=[], values=[])
        inner = ast.Assign(targets=[ast.Subscript(
            value=ast.Name(id=name, ctx=ast.Load()), slice=v.key,
            ctx=ast.Store())], value=v.value)
    body = inner
    for g in reversed(v.generators):
        for c in reversed(g.ifs):
            body = ast.If(test=c, body=[body], orelse=[])
        body = ast.For(target=g.target, iter=g.iter, body=[body], orelse=[])
    out = [ast.Assign(targets=[ast.Name(id=name, ctx=ast.Store())],
                      value=init), body]
    for o in out:
        ast.copy_location(o, stmt)
        ast.fix_missing_locations(o)
    stmt._as_loops = out
    return out


class AbsDict:
    """dict with must/may key sets and value provenance"""

    def __init__(self):
        self.must = {}
        self.may = {}

    def copy(self):
        d = AbsDict()
        d.must = dict(self.must)
        d.may = dict(self.may)
        return d


class Signal(Exception):
    pass


class PathLimit(Exception):
    pass


class Read:
    __slots__ = ("kind", "sec", "key", "node", "affects", "raises", "diag",
                 "presence_only")

    def __init__(self, kind, sec, key, node):
        self.kind = kind      # feat|cfg|feat-dyn|cfg-dyn|attr
        self.sec = sec
        self.key = key
        self.node = node
        self.affects = False
        self.raises = False
        self.diag = False

    @property
    def ident(self):
        return (self.kind, self.sec, self.key)

    def label(self):
        if self.kind.startswith("cfg"):
            return f"config [{self.sec}] {self.key}"
        if self.kind == "attr":
            return f"attribute .{self.key}"
        return f"feature {self.key}"


class State:
    def __init__(self, env=None, assume=None):
        self.env = env or {}
        self.assume = assume or {}    # ident -> bool (presence assumptions)
        self.ctrl = frozenset()       # provenance steering this path
        self.marks = set()            # read ids marked affecting on this path
        self.diag_depth = 0
        self.yielded = None           # list while a generator body is folded

    def fork(self):
        s = State(dict(self.env), dict(self.assume))
        s.yielded = None if self.yielded is None else list(self.yielded)
        for k, v in s.env.items():
            if isinstance(v, V) and v.kind == "dict":
                s.env[k] = V("dict", v.val.copy(), v.prov)
        s.ctrl = self.ctrl
        s.marks = set(self.marks)
        s.diag_depth = self.diag_depth
        return s


class Evaluator:
    """Evaluate `func` with its first parameter bound to the dataset"""

    MAX_PATHS = 4000
    MAX_DEPTH = 4

    def __init__(self, repo, rel, presence, resolver=None, feasible=None):
        """`presence(kind, sec, key)` -> PRESENT|ABSENT|UNKNOWN;
        `resolver(rel, name)` -> (rel, FunctionDef) for package functions;
        `feasible(assume)` -> bool decides whether a finished path is
        possible for the instance"""
        self.repo = repo
        self.rel = rel
        self.presence = presence
        self.resolver = resolver
        self.feasible = feasible or (lambda a: True)
        self.reads = {}      # id -> Read
        self._next = itertools.count()
        self.paths = 0
        self.paths_feasible = 0
        self.paths_infeasible = 0
        self.return_values = []   # (V, assume) of feasible returning paths
        self.unresolved_calls = set()
        self.depth = 0
        self.call_hook = None
        self.inline_all = False

    # -- reads ---------------------------------------------------------
    def _read(self, kind, sec, key, node):
        rid = (kind, sec, key, id(node))
        if rid not in self.reads:
            self.reads[rid] = Read(kind, sec, key, node)
        return rid

    # -- entry ---------------------------------------------------------
    def run_module(self, tree, then_call=None):
        """fold mode: evaluate module-level statements, then the body of the
        module's function `then_call` (no dataset involved)"""
        st = State()
        body = [s for s in tree.body]
        outs = list(self._block(body, st, self.rel))
        if then_call is not None:
            for st2, sig, val in outs:
                f = st2.env.get(then_call)
                if f is None or f.kind != "func":
                    continue
                list(self._block(f.val[1].body, st2, self.rel))
        return self

    def run(self, func, extra_args=None):
        st = State()
        params = [a.arg for a in func.args.args]
        if not params:
            raise AnalysisError(f"{func.name}: no dataset parameter")
        st.env[params[0]] = V("ds")
        defaults = func.args.defaults
        for p, d in zip(params[len(params) - len(defaults):], defaults):
            st.env[p] = self._eval_const_default(d)
        for k, v in (extra_args or {}).items():
            st.env[k] = v
        for out_state, sig, val in self._block(func.body, st, self.rel):
            self._finish(out_state, sig, val)
        return self

    def _eval_const_default(self, d):
        try:
            return const(ast.literal_eval(d))
        except Exception:
            return unknown()

    def _finish(self, st, sig, val):
        self.paths += 1
        if self.paths > self.MAX_PATHS:
            raise AnalysisError("path limit exceeded in effect analysis")
        if not self.feasible(st.assume):
            self.paths_infeasible += 1
            return
        self.paths_feasible += 1
        marks = set(st.marks)
        if sig == "return" or sig is None:
            if val is not None:
                marks |= val.prov
                marks |= self._deep_prov(val)
            marks |= st.ctrl
            for rid in marks:
                self.reads[rid].affects = True
            self.return_values.append((val, dict(st.assume)))
        elif sig == "raise":
            for rid in marks:
                self.reads[rid].affects = True
            for rid in st.ctrl:
                self.reads[rid].raises = True

    def _deep_prov(self, v):
        out = set()
        if v is None:
            return out
        if v.kind in ("list", "tuple") and isinstance(v.val, (list, tuple)):
            for e in v.val:
                if isinstance(e, V):
                    out |= e.prov | self._deep_prov(e)
        elif v.kind == "dict" and isinstance(v.val, AbsDict):
            for e in list(v.val.must.values()) + list(v.val.may.values()):
                out |= e.prov | self._deep_prov(e)
        return out

    # -- statements ----------------------------------------------------
    def _block(self, stmts, st, rel):
        """yield (state, signal, value) for every way through `stmts`"""
        if not stmts:
            yield st, None, None
            return
        head, rest = stmts[0], stmts[1:]
        loops = _comprehension_as_loops(head)
        if loops is not None:
            # `x = [elt for …]` / `x = {k: v for …}` with several clauses or
            # a filter reads like the loop that builds it
            yield from self._block(loops + list(rest), st, rel)
            return
        for st2, sig, val in self._stmt(head, st, rel):
            if sig is None:
                yield from self._block(rest, st2, rel)
            else:
                yield st2, sig, val

    def _is_diag_only(self, body):
        if not body:
            return False
        for s in body:
            if isinstance(s, ast.Pass):
                continue
            if isinstance(s, ast.Expr) and isinstance(s.value, ast.Call) \
                    and call_name(s.value) in ("warnings.warn", "print",
                                               "logger.warning",
                                               "logger.info"):
                continue
            if isinstance(s, ast.If) and self._is_diag_only(s.body) and (
                    not s.orelse or self._is_diag_only(s.orelse)):
                continue
            return False
        return True

    def _stmt(self, s, st, rel):
        if isinstance(s, ast.Expr) and isinstance(s.value, ast.Yield) \
                and st.yielded is not None:
            if s.value.value is None:
                st.yielded.append(const(None))
                yield st, None, None
                return
            for st2, v in self._expr(s.value.value, st, rel):
                st2.yielded.append(v)
                yield st2, None, None
        elif isinstance(s, ast.Expr):
            for st2, v in self._expr(s.value, st, rel):
                yield st2, None, None
        elif isinstance(s, (ast.Assign, ast.AnnAssign)):
            if isinstance(s, ast.AnnAssign):
                if s.value is None:
                    yield st, None, None
                    return
                targets = [s.target]
            else:
                targets = s.targets
            for st2, v in self._expr(s.value, st, rel):
                for t in targets:
                    self._assign(t, v, st2, rel)
                yield st2, None, None
        elif isinstance(s, ast.AugAssign):
            for st2, v in self._expr(s.value, st, rel):
                cur = st2.env.get(s.target.id) if isinstance(
                    s.target, ast.Name) else None
                if isinstance(s.target, ast.Name):
                    if cur is not None and cur.kind == "const" \
                            and v.kind == "const":
                        try:
                            st2.env[s.target.id] = const(
                                _binop(s.op, cur.val, v.val),
                                cur.prov | v.prov)
                        except Exception:
                            st2.env[s.target.id] = unknown(cur.prov | v.prov)
                    else:
                        p = (cur.prov if cur is not None else frozenset())
                        st2.env[s.target.id] = unknown(p | v.prov)
                else:
                    self._assign(s.target, unknown(v.prov), st2, rel)
                yield st2, None, None
        elif isinstance(s, ast.Return):
            if s.value is None:
                yield st, "return", const(None)
            else:
                for st2, v in self._expr(s.value, st, rel):
                    yield st2, "return", v
        elif isinstance(s, ast.Raise):
            yield st, "raise", None
        elif isinstance(s, ast.If):
            diag = self._is_diag_only(s.body) and (
                not s.orelse or self._is_diag_only(s.orelse))
            if diag:
                # the statement only warns: evaluate test and body for their
                # (diagnostic) reads; no control dependence, no fork on
                # unknown values
                st.diag_depth += 1
                for st2, truth, prov in list(self._cond(s.test, st, rel)):
                    body = s.body if truth is not False else s.orelse
                    outs = list(self._block(body, st2, rel))
                    st3 = outs[0][0] if outs else st2
                    st3.diag_depth -= 1
                    yield st3, None, None
                return
            for st2, truth, prov in self._cond(s.test, st, rel):
                st2.ctrl = st2.ctrl | prov
                if truth is True:
                    branches = [(s.body, st2)]
                elif truth is False:
                    branches = [(s.orelse, st2)]
                else:
                    branches = [(s.body, st2), (s.orelse, st2.fork())]
                for body, stb in branches:
                    yield from self._block(body, stb, rel)
        elif isinstance(s, (ast.For, ast.AsyncFor)):
            yield from self._for(s, st, rel)
        elif isinstance(s, ast.While):
            for st2, truth, prov in self._cond(s.test, st, rel):
                st2.ctrl = st2.ctrl | prov
                if truth is False:
                    yield st2, None, None
                else:
                    for st3, sig, val in self._block(s.body, st2, rel):
                        if sig in ("break", "continue", None):
                            yield st3, None, None
                        else:
                            yield st3, sig, val
        elif isinstance(s, (ast.With, ast.AsyncWith)):
            sts = [st]
            for item in s.items:
                new = []
                for stx in sts:
                    for st2, v in self._expr(item.context_expr, stx, rel):
                        if item.optional_vars is not None:
                            self._assign(item.optional_vars,
                                         unknown(v.prov), st2, rel)
                        new.append(st2)
                sts = new
            for stx in sts:
                yield from self._block(s.body, stx, rel)
        elif isinstance(s, ast.Try):
            for st2, sig, val in self._block(s.body, st, rel):
                if sig is None:
                    for st3, sig3, val3 in self._block(
                            s.orelse + s.finalbody, st2, rel):
                        yield st3, sig3, val3
                elif sig == "raise" and s.handlers:
                    for h in s.handlers:
                        yield from self._block(h.body + s.finalbody,
                                               st2.fork(), rel)
                else:
                    yield st2, sig, val
        elif isinstance(s, ast.Break):
            yield st, "break", None
        elif isinstance(s, ast.Continue):
            yield st, "continue", None
        elif isinstance(s, (ast.Pass, ast.Import, ast.ImportFrom, ast.Global,
                            ast.Nonlocal)):
            yield st, None, None
        elif isinstance(s, ast.Assert):
            for st2, truth, prov in self._cond(s.test, st, rel):
                st2.ctrl = st2.ctrl | prov
                yield st2, None, None
        elif isinstance(s, (ast.FunctionDef, ast.ClassDef)):
            st.env[s.name] = V("func", (rel, s))
            yield st, None, None
        elif isinstance(s, ast.Delete):
            yield st, None, None
        else:
            raise AnalysisError(
                f"effect analysis: unsupported statement {type(s).__name__} "
                f"at {rel}:{s.lineno}")

    def _module_constant(self, rel, name):
        """value of a module-level constant of `rel` that folds to concrete
        items (literal tables, itertools products of literals), else None"""
        cache = self.__dict__.setdefault("_modconst", {})
        key = (rel, name)
        if key in cache:
            return cache[key]
        cache[key] = None
        try:
            node = self.repo.module_assign(rel, name, missing_ok=True)
        except Exception:
            node = None
        if node is not None and self.depth < self.MAX_DEPTH:
            self.depth += 1
            try:
                outs = list(self._expr(node, State(), rel))
            except Exception:
                outs = []
            finally:
                self.depth -= 1
            if len(outs) == 1:
                v = outs[0][1]

                def concrete(v_):
                    if v_.kind == "const":
                        return True
                    return v_.kind in ("tuple", "list") and isinstance(
                        v_.val, (list, tuple)) and all(
                        isinstance(e_, V) and concrete(e_) for e_ in v_.val)
                if not v.prov and concrete(v):
                    cache[key] = v
        return cache[key]

    def _generator_items(self, call, st, rel):
        """values yielded by a call of a package generator function whose
        body folds to one path with concrete items (e.g. nested loops over
        literals), else None"""
        if not (isinstance(call, ast.Call) and isinstance(call.func, ast.Name)
                and not call.keywords):
            return None
        target = None
        if call.func.id in st.env and st.env[call.func.id].kind == "func":
            target = st.env[call.func.id].val
        elif self.resolver:
            target = self.resolver(rel, call.func.id)
        if target is None:
            return None
        trel, fdef = target
        if not isinstance(fdef, ast.FunctionDef) or not any(
                isinstance(n, (ast.Yield, ast.YieldFrom))
                for n in ast.walk(fdef)) or any(
                isinstance(n, ast.YieldFrom) for n in ast.walk(fdef)):
            return None
        params = [a.arg for a in fdef.args.args]
        if len(call.args) != len(params) or self.depth >= self.MAX_DEPTH:
            return None
        gst = State()
        for k, v in st.env.items():
            if isinstance(v, V) and v.kind == "func":
                gst.env[k] = v
        for p_, a_ in zip(params, call.args):
            r = list(self._expr(a_, st, rel))
            if len(r) != 1 or r[0][1].kind != "const":
                return None
            gst.env[p_] = r[0][1]
        gst.yielded = []
        self.depth += 1
        try:
            outs = list(self._block(fdef.body, gst, trel))
        finally:
            self.depth -= 1
        if len(outs) != 1 or outs[0][1] not in (None, "return"):
            return None
        items = outs[0][0].yielded

        def concrete(v):
            if v.kind == "const":
                return True
            return v.kind in ("tuple", "list") and isinstance(
                v.val, (list, tuple)) and all(
                isinstance(e, V) and concrete(e) for e in v.val)
        if not all(concrete(v) for v in items):
            return None
        return items

    def _for(self, s, st, rel):
        gen = self._generator_items(s.iter, st, rel)
        if gen is not None:
            yield from self._unroll(s, gen, st, rel)
            return
        for st2, it in self._expr(s.iter, st, rel):
            items = self._concrete_items(it)
            if items is None:
                # abstract iteration: body once with unknown target (and the
                # zero-iteration path)
                st_zero = st2.fork()
                self._assign(s.target, unknown(it.prov), st2, rel)
                st2.ctrl = st2.ctrl | it.prov
                for st3, sig, val in self._block(s.body, st2, rel):
                    if sig in ("break", "continue", None):
                        yield from self._block(s.orelse, st3, rel)
                    else:
                        yield st3, sig, val
                yield from self._block(s.orelse, st_zero, rel)
            else:
                yield from self._unroll(s, items, st2, rel)

    def _unroll(self, s, items, st, rel):
        if not items:
            yield from self._block(s.orelse, st, rel)
            return
        self._assign(s.target, items[0], st, rel)
        for st2, sig, val in self._block(s.body, st, rel):
            if sig in (None, "continue"):
                yield from self._unroll(s, items[1:], st2, rel)
            elif sig == "break":
                yield st2, None, None
            else:
                yield st2, sig, val

    def _concrete_items(self, v):
        if v.kind in ("list", "tuple") and isinstance(v.val, (list, tuple)):
            return [e if isinstance(e, V) else const(e) for e in v.val]
        if v.kind == "const" and isinstance(v.val, (list, tuple, range, str)):
            return [const(e, v.prov) for e in v.val]
        return None

    def _assign(self, target, v, st, rel):
        if isinstance(target, ast.Name):
            st.env[target.id] = v
        elif isinstance(target, (ast.Tuple, ast.List)):
            items = self._concrete_items(v)
            if items is not None and len(items) == len(target.elts):
                for t, e in zip(target.elts, items):
                    self._assign(t, e, st, rel)
            else:
                for t in target.elts:
                    self._assign(t, unknown(v.prov), st, rel)
        elif isinstance(target, ast.Subscript):
            base = None
            if isinstance(target.value, ast.Name):
                base = st.env.get(target.value.id)
            if base is not None and base.kind == "dict":
                ks = list(self._expr(target.slice, st, rel))
                k = ks[0][1] if ks else unknown()
                if k.kind == "const":
                    base.val.must[k.val] = v
                    base.val.may[k.val] = v
                else:
                    base.val.may[("?", id(target))] = v
            elif base is not None and isinstance(target.value, ast.Name):
                # array / list element store: the container now depends on v
                st.env[target.value.id] = V(base.kind, base.val,
                                            base.prov | v.prov)
        elif isinstance(target, ast.Attribute):
            pass
        elif isinstance(target, ast.Starred):
            self._assign(target.value, unknown(v.prov), st, rel)

    # -- conditions ----------------------------------------------------
    def _cond(self, e, st, rel):
        """yield (state, truth(True/False/None), provenance)"""
        if isinstance(e, ast.BoolOp):
            yield from self._boolop(e.values, isinstance(e.op, ast.And), st,
                                    rel)
            return
        if isinstance(e, ast.UnaryOp) and isinstance(e.op, ast.Not):
            for st2, t, p in self._cond(e.operand, st, rel):
                yield st2, (None if t is None else (not t)), p
            return
        if isinstance(e, ast.Compare) and len(e.ops) == 1:
            op = e.ops[0]
            if isinstance(op, (ast.In, ast.NotIn)):
                yield from self._contains(e, st, rel)
                return
            if isinstance(op, (ast.Is, ast.IsNot)):
                for st2, a in self._expr(e.left, st, rel):
                    for st3, b in self._expr(e.comparators[0], st2, rel):
                        t = None
                        if b.kind == "const" and b.val is None:
                            if a.kind == "const":
                                t = a.val is None
                            elif a.kind in ("notnone", "ds", "cfg", "sec",
                                            "dict", "list", "tuple", "func"):
                                t = False
                        if t is not None and isinstance(op, ast.IsNot):
                            t = not t
                        yield st3, t, a.prov | b.prov
                return
        if isinstance(e, ast.Call) and isinstance(e.func, ast.Name) \
                and e.func.id in ("any", "all") and len(e.args) == 1 \
                and not e.keywords and "any" not in st.env \
                and "all" not in st.env and isinstance(
                    e.args[0], (ast.GeneratorExp, ast.ListComp)) \
                and len(e.args[0].generators) == 1 \
                and not e.args[0].generators[0].ifs:
            # any()/all() over a concrete table is the or / and of its
            # elements, with the same short-circuit forks
            gen = e.args[0].generators[0]
            handled = False
            for st2, it in self._expr(gen.iter, st, rel):
                items = self._concrete_items(it)
                if items is None:
                    break
                handled = True
                yield from self._anyall(e.args[0].elt, gen.target, items,
                                        e.func.id == "any", st2, rel,
                                        set(it.prov))
            if handled:
                return
        for st2, v in self._expr(e, st, rel):
            t = None
            if v.kind == "const":
                try:
                    t = bool(v.val)
                except Exception:
                    t = None
            elif v.kind in ("list", "tuple") and isinstance(
                    v.val, (list, tuple)):
                t = bool(v.val)
            elif v.kind in ("ds", "cfg", "sec", "func"):
                t = True
            yield st2, t, v.prov

    def _anyall(self, elt, target, items, is_any, st, rel, prov):
        if not items:
            yield st, (not is_any), prov
            return
        saved = {n.id: st.env.get(n.id) for n in ast.walk(target)
                 if isinstance(n, ast.Name)}
        self._assign(target, items[0], st, rel)
        for st2, t, p in self._cond(elt, st, rel):
            for k, v in saved.items():
                if v is None:
                    st2.env.pop(k, None)
                else:
                    st2.env[k] = v
            if t is not None and t == is_any:
                yield st2, t, prov | p          # short circuit
            elif t is not None:
                yield from self._anyall(elt, target, items[1:], is_any, st2,
                                        rel, prov | p)
            else:
                yield st2.fork(), is_any, prov | p
                yield from self._anyall(elt, target, items[1:], is_any, st2,
                                        rel, prov | p)

    def _boolop(self, values, is_and, st, rel):
        head, rest = values[0], values[1:]
        for st2, t, p in self._cond(head, st, rel):
            if not rest:
                yield st2, t, p
            elif t is not None:
                if t != is_and:
                    yield st2, t, p          # short circuit
                else:
                    for st3, t2, p2 in self._boolop(rest, is_and, st2, rel):
                        yield st3, t2, p | p2
            else:
                # unknown operand: either it short-circuits (definite
                # result) or the rest decides
                yield st2.fork(), (not is_and), p
                for st3, t2, p2 in self._boolop(rest, is_and, st2, rel):
                    yield st3, t2, p | p2

    def _contains(self, e, st, rel):
        neg = isinstance(e.ops[0], ast.NotIn)
        for st2, item in self._expr(e.left, st, rel):
            for st3, cont in self._expr(e.comparators[0], st2, rel):
                res = []
                if cont.kind == "ds":
                    if item.kind == "const" and isinstance(item.val, str):
                        res = self._presence("feat", None, item.val, e, st3)
                    else:
                        rid = self._read("feat-dyn", None,
                                         "<presence of computed name>", e)
                        res = [(st3, None, frozenset([rid]) | item.prov)]
                elif cont.kind == "sec":
                    if item.kind == "const" and isinstance(item.val, str):
                        res = self._presence("cfg", cont.val, item.val, e, st3)
                    else:
                        rid = self._read("cfg-dyn", cont.val,
                                         "<presence of computed key>", e)
                        res = [(st3, None, frozenset([rid]) | item.prov)]
                elif cont.kind == "cfg":
                    # section presence: sections always exist for datasets
                    res = [(st3, None, item.prov)]
                elif cont.kind == "dict" and item.kind == "const":
                    d = cont.val
                    if item.val in d.must:
                        res = [(st3, True, d.must[item.val].prov)]
                    elif item.val not in d.may and not any(
                            isinstance(k, tuple) and k and k[0] == "?"
                            for k in d.may):
                        res = [(st3, False, cont.prov)]
                    else:
                        pv = d.may.get(item.val)
                        res = [(st3, None, cont.prov | (
                            pv.prov if pv is not None else frozenset()))]
                elif cont.kind in ("const", "list", "tuple") \
                        and item.kind == "const":
                    items = self._concrete_items(cont)
                    if items is not None and all(i.kind == "const"
                                                 for i in items):
                        res = [(st3, item.val in [i.val for i in items],
                                item.prov | cont.prov)]
                    else:
                        res = [(st3, None, item.prov | cont.prov)]
                else:
                    res = [(st3, None, item.prov | cont.prov)]
                for stx, t, p in res:
                    if t is not None and neg:
                        t = not t
                    yield stx, t, p

    def _presence(self, kind, sec, key, node, st):
        """presence test of a named item: consult environment, fork on
        UNKNOWN and record the assumption"""
        ident = (kind, sec, key)
        rid = self._read(kind + "?", sec, key, node)
        prov = frozenset([rid])
        if st.diag_depth:
            self.reads[rid].diag = True
        if ident in st.assume:
            return [(st, st.assume[ident], prov)]
        p = self.presence(kind, sec, key)
        if p == PRESENT:
            return [(st, True, frozenset())]
        if p == ABSENT:
            return [(st, False, frozenset())]
        a = st
        b = st.fork()
        a.assume[ident] = True
        b.assume[ident] = False
        return [(a, True, prov), (b, False, prov)]

    # -- expressions ---------------------------------------------------
    def _expr(self, e, st, rel):
        """yield (state, V)"""
        if isinstance(e, ast.Constant):
            yield st, const(e.value)
        elif isinstance(e, ast.Name):
            if e.id in st.env:
                yield st, st.env[e.id]
            else:
                f = self.resolver(rel, e.id) if self.resolver else None
                if f is not None:
                    yield st, V("func", f)
                elif e.id in ("True", "False", "None"):
                    yield st, const({"True": True, "False": False,
                                     "None": None}[e.id])
                else:
                    g = self._module_constant(rel, e.id)
                    if g is not None:
                        yield st, g
                    else:
                        yield st, V("unknown", ("global", e.id))
        elif isinstance(e, (ast.List, ast.Tuple)):
            kind = "list" if isinstance(e, ast.List) else "tuple"
            sts = [(st, [])]
            for el in e.elts:
                new = []
                for stx, acc in sts:
                    for st2, v in self._expr(el, stx, rel):
                        new.append((st2, acc + [v]))
                sts = new
            for stx, acc in sts:
                yield stx, V(kind, acc)
        elif isinstance(e, ast.Dict):
            d = AbsDict()
            sts = [st]
            cur = st
            for k, v in zip(e.keys, e.values):
                if k is None:
                    vs = list(self._expr(v, cur, rel))
                    cur, vv = vs[0]
                    d.may[("?", id(v))] = vv
                    continue
                ks = list(self._expr(k, cur, rel))
                cur, kv = ks[0]
                vs = list(self._expr(v, cur, rel))
                cur, vv = vs[0]
                if kv.kind == "const":
                    d.must[kv.val] = vv
                    d.may[kv.val] = vv
                else:
                    d.may[("?", id(k))] = vv
            yield cur, V("dict", d)
        elif isinstance(e, ast.Attribute):
            for st2, base in self._expr(e.value, st, rel):
                if base.kind == "ds":
                    if e.attr == "config":
                        yield st2, V("cfg")
                    else:
                        rid = self._read("attr", None, e.attr, e)
                        yield st2, V("notnone", None, [rid])
                elif base.kind in ("sec", "dict") and e.attr in (
                        "get", "keys", "values", "items", "__getitem__",
                        "__contains__"):
                    # bound method taken as a value (``g = cfg.get``): the
                    # call is evaluated where the alias is applied
                    yield st2, V("method", (e.value, e.attr), base.prov)
                else:
                    yield st2, unknown(base.prov)
        elif isinstance(e, ast.Subscript):
            yield from self._subscript(e, st, rel)
        elif isinstance(e, ast.Call):
            yield from self._call(e, st, rel)
        elif isinstance(e, (ast.BoolOp, ast.Compare)) or (
                isinstance(e, ast.UnaryOp) and isinstance(e.op, ast.Not)):
            if isinstance(e, ast.Compare) and not (
                    len(e.ops) == 1 and isinstance(
                        e.ops[0], (ast.In, ast.NotIn, ast.Is, ast.IsNot))):
                # value comparison
                sts = [(st, [])]
                for el in [e.left] + e.comparators:
                    new = []
                    for stx, acc in sts:
                        for st2, v in self._expr(el, stx, rel):
                            new.append((st2, acc + [v]))
                    sts = new
                for stx, acc in sts:
                    prov = frozenset().union(*[a.prov for a in acc])
                    if all(a.kind == "const" for a in acc) and len(acc) == 2:
                        try:
                            yield stx, const(_cmp(e.ops[0], acc[0].val,
                                                  acc[1].val), prov)
                            continue
                        except Exception:
                            pass
                    yield stx, unknown(prov)
            else:
                for st2, t, p in self._cond(e, st, rel):
                    yield st2, (const(t, p) if t is not None else unknown(p))
        elif isinstance(e, ast.IfExp):
            for st2, t, p in self._cond(e.test, st, rel):
                if t is True:
                    brs = [(e.body, st2)]
                elif t is False:
                    brs = [(e.orelse, st2)]
                else:
                    brs = [(e.body, st2), (e.orelse, st2.fork())]
                for ex, stb in brs:
                    for st3, v in self._expr(ex, stb, rel):
                        yield st3, v.with_prov(p)
        elif isinstance(e, ast.BinOp):
            for st2, a in self._expr(e.left, st, rel):
                for st3, b in self._expr(e.right, st2, rel):
                    prov = a.prov | b.prov
                    if a.kind == "const" and b.kind == "const":
                        try:
                            yield st3, const(_binop(e.op, a.val, b.val), prov)
                            continue
                        except Exception:
                            pass
                    la, lb = self._concrete_items(a), self._concrete_items(b)
                    if isinstance(e.op, ast.Add) and a.kind in (
                            "list", "tuple") and b.kind == a.kind \
                            and la is not None and lb is not None:
                        yield st3, V(a.kind, la + lb, prov)
                        continue
                    yield st3, unknown(prov)
        elif isinstance(e, ast.UnaryOp):
            for st2, a in self._expr(e.operand, st, rel):
                yield st2, unknown(a.prov)
        elif isinstance(e, ast.JoinedStr):
            cur = st
            prov = frozenset()
            parts = []
            ok = True
            for v in e.values:
                if isinstance(v, ast.Constant):
                    parts.append(str(v.value))
                else:
                    r = list(self._expr(v.value, cur, rel))
                    cur, vv = r[0]
                    prov |= vv.prov
                    if vv.kind == "const" and v.format_spec is None \
                            and v.conversion == -1:
                        parts.append(str(vv.val))
                    else:
                        ok = False
            yield cur, (const("".join(parts), prov) if ok else unknown(prov))
        elif isinstance(e, (ast.ListComp, ast.GeneratorExp, ast.SetComp,
                            ast.DictComp)):
            yield from self._comprehension(e, st, rel)
        elif isinstance(e, ast.Lambda):
            yield st, V("func", (rel, e))
        elif isinstance(e, ast.Starred):
            yield from self._expr(e.value, st, rel)
        elif isinstance(e, ast.NamedExpr):
            for st2, v in self._expr(e.value, st, rel):
                self._assign(e.target, v, st2, rel)
                yield st2, v
        elif isinstance(e, ast.Slice):
            yield st, unknown()
        else:
            raise AnalysisError(
                f"effect analysis: unsupported expression "
                f"{type(e).__name__} at {rel}:{getattr(e, 'lineno', '?')}")

    def _comprehension(self, e, st, rel):
        # evaluate the element once per concrete item if the (single)
        # iterable is concrete, else once abstractly
        gen = e.generators[0]
        for st2, it in self._expr(gen.iter, st, rel):
            items = self._concrete_items(it) if len(e.generators) == 1 \
                else None
            out = []
            prov = set(it.prov)
            cur = st2
            saved = dict(cur.env)
            for item in (items if items is not None else [unknown(it.prov)]):
                self._assign(gen.target, item, cur, rel)
                keep = True
                for cond in gen.ifs:
                    r = list(self._cond(cond, cur, rel))
                    cur, t, p = r[0]
                    prov |= p
                    if t is False:
                        keep = False
                if not keep:
                    continue
                elt = e.elt if not isinstance(e, ast.DictComp) else e.value
                r = list(self._expr(elt, cur, rel))
                cur, v = r[0]
                prov |= v.prov
                out.append(v)
            for k in list(cur.env):
                if k not in saved:
                    del cur.env[k]
                else:
                    cur.env[k] = saved[k]
            if items is not None and not isinstance(e, ast.DictComp):
                yield cur, V("list", out, prov)
            else:
                yield cur, unknown(prov)

    def _subscript(self, e, st, rel):
        for st2, base in self._expr(e.value, st, rel):
            for st3, key in self._expr(e.slice, st2, rel):
                if base.kind == "ds":
                    if key.kind == "const" and isinstance(key.val, str):
                        rid = self._read("feat", None, key.val, e)
                    else:
                        rid = self._read("feat-dyn", None,
                                         txt(e.slice), e)
                    if st3.diag_depth:
                        self.reads[rid].diag = True
                    yield st3, V("notnone", None, [rid] + list(key.prov))
                elif base.kind == "cfg":
                    if key.kind == "const":
                        yield st3, V("sec", key.val)
                    else:
                        yield st3, V("sec", "?")
                elif base.kind == "sec":
                    if key.kind == "const":
                        rid = self._read("cfg", base.val, key.val, e)
                    else:
                        rid = self._read("cfg-dyn", base.val, txt(e.slice), e)
                    yield st3, V("notnone", None, [rid] + list(key.prov))
                elif base.kind in ("list", "tuple") and key.kind == "const" \
                        and isinstance(base.val, (list, tuple)) \
                        and isinstance(key.val, int) \
                        and -len(base.val) <= key.val < len(base.val):
                    v = base.val[key.val]
                    yield st3, (v if isinstance(v, V) else const(v))
                elif base.kind == "dict" and key.kind == "const" \
                        and key.val in base.val.must:
                    yield st3, base.val.must[key.val]
                elif base.kind == "const" and key.kind == "const":
                    try:
                        yield st3, const(base.val[key.val],
                                         base.prov | key.prov)
                    except Exception:
                        yield st3, unknown(base.prov | key.prov)
                else:
                    p = base.prov | key.prov
                    if base.kind == "dict":
                        p |= self._deep_prov(base)
                    yield st3, unknown(p)

    def _call(self, e, st, rel):
        name = call_name(e) or ""
        attr = last_attr(e)
        if isinstance(e.func, ast.Name) and e.func.id in st.env \
                and st.env[e.func.id].kind == "method":
            recv_ast, mattr = st.env[e.func.id].val
            call = ast.Call(func=ast.Attribute(value=recv_ast, attr=mattr,
                                               ctx=ast.Load()),
                            args=e.args, keywords=e.keywords)
            ast.copy_location(call, e)
            ast.copy_location(call.func, e)
            yield from self._call(call, st, rel)
            return
        # functools.partial(F, …): remembered, applied where it is called
        if name in ("functools.partial", "partial") and e.args \
                and "partial" not in st.env:
            callee = e.args[0]
            pname = dotted(callee) or txt(callee)
            ptarget = None
            if isinstance(callee, ast.Name):
                if callee.id in st.env and st.env[callee.id].kind == "func":
                    ptarget = st.env[callee.id].val
                elif self.resolver:
                    ptarget = self.resolver(rel, callee.id)
            fake = ast.Call(func=callee, args=list(e.args[1:]),
                            keywords=list(e.keywords))
            ast.copy_location(fake, e)
            for st2, (args, kwargs) in self._args(fake, st, rel):
                p = set()
                for a in list(args) + list(kwargs.values()):
                    p |= a.prov
                yield st2, V("partial", (pname, list(args), dict(kwargs),
                                         ptarget), p)
            return
        if name == "map" and "map" not in st.env and len(e.args) == 2 \
                and not e.keywords:
            # map(f, xs) reads like [f(x) for x in xs]
            var = ast.Name(id="_map_item", ctx=ast.Load())
            comp = ast.ListComp(
                elt=ast.Call(func=e.args[0], args=[var], keywords=[]),
                generators=[ast.comprehension(
                    target=ast.Name(id="_map_item", ctx=ast.Store()),
                    iter=e.args[1], ifs=[], is_async=0)])
            ast.copy_location(comp, e)
            ast.fix_missing_locations(comp)
            yield from self._expr(comp, st, rel)
            return
        # warnings.warn: diagnostic sink
        if name in ("warnings.warn", "print"):
            st.diag_depth += 1
            cur = st
            for a in list(e.args) + [k.value for k in e.keywords]:
                r = list(self._expr(a, cur, rel))
                cur = r[0][0]
            cur.diag_depth -= 1
            yield cur, const(None)
            return
        # itertools tables over literal items fold to concrete lists
        if name.split(".")[-1] in ("permutations", "product",
                                   "combinations") and (
                name.startswith("itertools.") or "." not in name) \
                and not e.keywords:
            folded = False
            for st2, (args, kwargs) in self._args(e, st, rel):
                items = [self._concrete_items(a) for a in args]
                import itertools as _it
                combos = None
                try:
                    if name.endswith("product") and all(
                            i is not None and all(x.kind == "const"
                                                  for x in i)
                            for i in items):
                        combos = list(_it.product(*[[x.val for x in i]
                                                    for i in items]))
                    elif not name.endswith("product") and items \
                            and items[0] is not None and all(
                                x.kind == "const" for x in items[0]) \
                            and all(a.kind == "const" for a in args[1:]):
                        fn_ = getattr(_it, name.split(".")[-1])
                        combos = list(fn_([x.val for x in items[0]],
                                          *[a.val for a in args[1:]]))
                except Exception:
                    combos = None
                if combos is None:
                    break
                folded = True
                yield st2, V("list", [V("tuple", [const(x) for x in c_])
                                      for c_ in combos])
            if folded:
                return
        # evaluate receiver for method calls on special objects
        if isinstance(e.func, ast.Attribute):
            for st2, recv in self._expr(e.func.value, st, rel):
                if recv.kind == "sec" and attr == "get":
                    yield from self._cfg_get(e, recv, st2, rel)
                    return
                if recv.kind == "const" and isinstance(recv.val, str) \
                        and attr == "format":
                    yield from self._str_format(e, recv, st2, rel)
                    return
                if recv.kind == "dict" and attr in ("get",):
                    for st3, args in self._args(e, st2, rel):
                        p = recv.prov | self._deep_prov(recv)
                        for a in args[0]:
                            p |= a.prov
                        yield st3, unknown(p)
                    return
                if recv.kind == "list" and attr == "append" \
                        and isinstance(e.func.value, ast.Name) \
                        and isinstance(recv.val, list):
                    for st3, args in self._args(e, st2, rel):
                        cur = st3.env.get(e.func.value.id, recv)
                        st3.env[e.func.value.id] = V(
                            "list", list(cur.val) + list(args[0]), cur.prov)
                        yield st3, const(None)
                    return
                # generic method call on an abstract value
                for st3, (args, kwargs) in self._args(e, st2, rel):
                    p = set(recv.prov)
                    for a in list(args) + list(kwargs.values()):
                        p |= a.prov | self._deep_prov(a)
                    if recv.kind == "ds":
                        # method of the dataset: opaque
                        rid = self._read("attr", None, attr + "()", e)
                        p.add(rid)
                    elif attr == "hash" and any(
                            a.kind == "ds" for a in list(args) + list(
                                kwargs.values())):
                        # <recipe>.hash(dataset): digest of another recipe's
                        # ingredients for this dataset
                        rid = self._read("attr", None, "hash()", e)
                        p.add(rid)
                    if not st3.diag_depth and recv.kind not in (
                            "const", "unknown", "notnone", "list", "tuple",
                            "dict"):
                        st3.marks |= p
                    elif not st3.diag_depth and self._is_external(
                            e.func.value, st3):
                        st3.marks |= p
                    if isinstance(e.func.value, ast.Name) \
                            and e.func.value.id in st3.env \
                            and recv.kind in ("unknown", "notnone"):
                        st3.env[e.func.value.id] = recv.with_prov(p)
                    yield st3, unknown(p)
                return
        if isinstance(e.func, ast.Name) and e.func.id in st.env \
                and st.env[e.func.id].kind == "partial":
            pname, pargs, pkw, ptarget = st.env[e.func.id].val
            for st2, (args, kwargs) in self._args(e, st, rel):
                args2 = list(pargs) + list(args)
                kw2 = dict(pkw)
                kw2.update(kwargs)
                if self.call_hook is not None:
                    hv = self.call_hook(pname, args2, kw2, e, st2, rel)
                    if hv is not None:
                        yield st2, hv
                        continue
                if ptarget is not None and self.depth < self.MAX_DEPTH:
                    yield from self._inline(ptarget, args2, kw2, st2)
                    continue
                p = set()
                for a in list(args2) + list(kw2.values()):
                    p |= a.prov | self._deep_prov(a)
                if not st2.diag_depth:
                    st2.marks |= p
                yield st2, unknown(p)
            return
        # plain function call
        target = None
        if isinstance(e.func, ast.Name):
            if e.func.id in st.env and st.env[e.func.id].kind == "func":
                target = st.env[e.func.id].val
            elif self.resolver:
                target = self.resolver(rel, e.func.id)
        for st2, (args, kwargs) in self._args(e, st, rel):
            if self.call_hook is not None:
                hv = self.call_hook(name, args, kwargs, e, st2, rel)
                if hv is not None:
                    yield st2, hv
                    continue
            passes_ds = any(a.kind in ("ds", "cfg", "sec")
                            for a in list(args) + list(kwargs.values()))
            if target is not None and (passes_ds or self.inline_all) \
                    and self.depth < self.MAX_DEPTH:
                yield from self._inline(target, args, kwargs, st2)
                continue
            if passes_ds and target is None and name not in (
                    "len", "isinstance", "str", "repr", "id", "type"):
                self.unresolved_calls.add(f"{rel}:{e.lineno} {name}")
            p = set()
            for a in list(args) + list(kwargs.values()):
                p |= a.prov | self._deep_prov(a)
            if name in ("isinstance", "len", "str", "int", "float", "bool",
                        "round", "abs", "sorted", "list", "tuple", "set",
                        "enumerate", "zip", "range", "min", "max", "sum"):
                if name == "range" and all(a.kind == "const" for a in args):
                    try:
                        yield st2, const(list(range(*[a.val for a in args])))
                        continue
                    except Exception:
                        pass
                if name in ("sorted", "list", "tuple") and len(args) == 1 \
                        and self._concrete_items(args[0]) is not None \
                        and name != "sorted":
                    yield st2, V("list", self._concrete_items(args[0]), p)
                    continue
                if name == "enumerate" and len(args) == 1 \
                        and self._concrete_items(args[0]) is not None:
                    its = self._concrete_items(args[0])
                    yield st2, V("list", [V("tuple", [const(i), x])
                                          for i, x in enumerate(its)], p)
                    continue
                yield st2, unknown(p)
                continue
            # external computing call: its arguments matter
            if not st2.diag_depth:
                st2.marks |= p
            yield st2, unknown(p)

    def _is_external(self, node, st):
        """receiver expression is a module / external object (np, features…)"""
        root = node
        while isinstance(root, ast.Attribute):
            root = root.value
        return isinstance(root, ast.Name) and root.id not in st.env

    def _args(self, e, st, rel):
        """evaluate call arguments (first result per argument; forks from
        conditional expressions in arguments are followed)"""
        sts = [(st, [], {})]
        for a in e.args:
            new = []
            for stx, args, kw in sts:
                for st2, v in self._expr(a, stx, rel):
                    new.append((st2, args + [v], kw))
            sts = new
        for k in e.keywords:
            new = []
            for stx, args, kw in sts:
                for st2, v in self._expr(k.value, stx, rel):
                    kk = dict(kw)
                    kk[k.arg if k.arg else f"**{id(k)}"] = v
                    new.append((st2, args, kk))
            sts = new
        for stx, args, kw in sts:
            yield stx, (args, kw)

    def _cfg_get(self, e, recv, st, rel):
        for st2, (args, kwargs) in self._args(e, st, rel):
            key = args[0] if args else None
            default = args[1] if len(args) > 1 else kwargs.get(
                "default", const(None))
            if key is None or key.kind != "const":
                rid = self._read("cfg-dyn", recv.val, txt(e), e)
                yield st2, unknown([rid])
                continue
            rid = self._read("cfg", recv.val, key.val, e)
            if st2.diag_depth:
                self.reads[rid].diag = True
            ident = ("cfg", recv.val, key.val)
            if ident in st2.assume:
                p = PRESENT if st2.assume[ident] else ABSENT
            else:
                p = self.presence("cfg", recv.val, key.val)
            if p == PRESENT:
                yield st2, V("notnone", None, [rid])
            elif p == ABSENT:
                yield st2, default
            else:
                a = st2
                b = st2.fork()
                a.assume[ident] = True
                b.assume[ident] = False
                yield a, V("notnone", None, [rid])
                yield b, default.with_prov([rid])

    def _str_format(self, e, recv, st, rel):
        for st2, (args, kwargs) in self._args(e, st, rel):
            p = set(recv.prov)
            for a in list(args) + list(kwargs.values()):
                p |= a.prov
            if all(a.kind == "const" for a in list(args) + list(
                    kwargs.values())):
                try:
                    yield st2, const(recv.val.format(
                        *[a.val for a in args],
                        **{k: v.val for k, v in kwargs.items()}), p)
                    continue
                except Exception:
                    pass
            yield st2, unknown(p)

    def _inline(self, target, args, kwargs, st):
        crel, func = target
        self.depth += 1
        try:
            if isinstance(func, ast.Lambda):
                params = [a.arg for a in func.args.args]
                body = [ast.Return(value=func.body)]
                defaults = func.args.defaults
            else:
                params = [a.arg for a in func.args.args]
                body = func.body
                defaults = func.args.defaults
            callee = State(assume=st.assume)
            callee.ctrl = st.ctrl
            callee.marks = st.marks
            callee.diag_depth = st.diag_depth
            for p, d in zip(params[len(params) - len(defaults):], defaults):
                callee.env[p] = self._eval_const_default(d)
            for p, a in zip(params, args):
                callee.env[p] = a
            for k, v in kwargs.items():
                if not k.startswith("**"):
                    callee.env[k] = v
            for out, sig, val in self._block(body, callee, crel):
                if sig == "raise":
                    # propagate: the caller's path ends
                    st_r = st.fork()
                    st_r.assume = out.assume
                    st_r.ctrl = out.ctrl
                    st_r.marks = out.marks
                    self._finish(st_r, "raise", None)
                    continue
                st_b = st.fork()
                st_b.assume = out.assume
                st_b.ctrl = out.ctrl
                st_b.marks = out.marks
                yield st_b, (val if val is not None else const(None))
        finally:
            self.depth -= 1


def _binop(op, a, b):
    if isinstance(op, ast.Add):
        return a + b
    if isinstance(op, ast.Sub):
        return a - b
    if isinstance(op, ast.Mult):
        return a * b
    if isinstance(op, ast.Mod):
        return a % b
    if isinstance(op, ast.FloorDiv):
        return a // b
    if isinstance(op, ast.Div):
        return a / b
    if isinstance(op, ast.Pow):
        return a ** b
    raise ValueError


def _cmp(op, a, b):
    if isinstance(op, ast.Eq):
        return a == b
    if isinstance(op, ast.NotEq):
        return a != b
    if isinstance(op, ast.Lt):
        return a < b
    if isinstance(op, ast.LtE):
        return a <= b
    if isinstance(op, ast.Gt):
        return a > b
    if isinstance(op, ast.GtE):
        return a >= b
    raise ValueError
