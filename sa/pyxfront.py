"""Line-level de-cythoniser: turn the four ``.pyx`` files of dclab into text
that ``ast.parse`` accepts, keeping line numbers.

Handled: ``cimport`` / ``ctypedef`` lines (dropped), ``cdef <type> x = e`` →
``x = e``, bare ``cdef`` declarations (dropped), ``cdef``/``cpdef`` function
headers with typed parameters (types stripped, trailing ``nogil`` removed),
typed ``def`` parameters, ``with nogil:`` → ``if True:``, address-of
``&x[0]`` → ``x``, C casts ``<type>expr`` → ``expr``.  Anything that still
does not parse is an analysis error, never a pass.  A self-check verifies that
every ``def``/``if``/``for``/``while``/``return`` line of the original survives
as a statement on the same line.
"""
from __future__ import annotations

import ast
import re

from .core import AnalysisError

CTYPE_WORDS = (r"(?:unsigned\s+|signed\s+|const\s+)*"
               r"(?:char|short|int|long|float|double|void|bint|object|list|"
               r"tuple|dict|Py_ssize_t|size_t|uint8|uint32|int64|"
               r"cnp\.\w+|np\.\w+)")
TYPE_RE = re.compile(
    r"^" + CTYPE_WORDS + r"(?:\s*\[[^\]]*\])?(?:\s*\*+)?\s*")
CAST_RE = re.compile(r"<\s*" + CTYPE_WORDS + r"\s*\**\s*>")
ADDR_RE = re.compile(r"&\s*(\w+)\s*\[\s*0\s*\]")


def _strip_param(p):
    p = p.strip()
    if not p:
        return p
    default = ""
    if "=" in p:
        p, default = p.split("=", 1)
        default = "=" + default
        p = p.strip()
    m = TYPE_RE.match(p)
    if m and m.end() < len(p):
        p = p[m.end():].strip()
    p = p.lstrip("*").strip()
    return p + default


def _split_params(s):
    out, depth, cur = [], 0, ""
    for ch in s:
        if ch in "([{":
            depth += 1
        elif ch in ")]}":
            depth -= 1
        if ch == "," and depth == 0:
            out.append(cur)
            cur = ""
        else:
            cur += ch
    if cur.strip():
        out.append(cur)
    return out


def decythonize(src, rel="<pyx>"):
    lines = src.split("\n")
    out = []
    i = 0
    n = len(lines)
    while i < n:
        line = lines[i]
        stripped = line.strip()
        indent = line[:len(line) - len(line.lstrip())]
        # join backslash continuations and open-paren headers for cdef lines
        if re.match(r"(cdef|cpdef)\b", stripped) or (
                stripped.startswith("def ") and not stripped.endswith(":")):
            j = i
            buf = line
            while (buf.rstrip().endswith("\\")
                   or buf.count("(") > buf.count(")")
                   or buf.count("[") > buf.count("]")) and j + 1 < n:
                j += 1
                buf = buf.rstrip().rstrip("\\") + " " + lines[j].strip()
            consumed = j - i
            new = _convert_cdef(buf.strip(), indent) \
                if not stripped.startswith("def ") \
                else indent + _convert_def(buf.strip())
            out.append(new)
            out.extend([""] * consumed)
            i = j + 1
            continue
        if re.match(r"(from\s+\S+\s+)?cimport\b", stripped) \
                or stripped.startswith("ctypedef "):
            out.append(indent + "pass" if indent else "")
            i += 1
            continue
        if re.match(r"with\s+(nogil|gil)\s*:", stripped):
            out.append(indent + "if True:")
            i += 1
            continue
        if stripped.startswith("def ") and stripped.endswith(":"):
            out.append(indent + _convert_def(stripped))
            i += 1
            continue
        line = ADDR_RE.sub(r"\1", line)
        line = CAST_RE.sub("", line)
        out.append(line)
        i += 1
    text = "\n".join(out)
    try:
        tree = ast.parse(text, filename=rel)
    except SyntaxError as e:
        raise AnalysisError(f"de-cythoniser: {rel} does not parse: {e}")
    _selfcheck(src, tree, rel)
    return text


def _convert_def(header):
    m = re.match(r"def\s+(\w+)\s*\((.*)\)\s*(?:nogil\s*)?:\s*$", header,
                 re.S)
    if not m:
        return header
    params = ", ".join(_strip_param(p) for p in _split_params(m.group(2)))
    return f"def {m.group(1)}({params}):"


def _convert_cdef(stmt, indent):
    body = re.sub(r"^(cdef|cpdef)\s+", "", stmt)
    body = re.sub(r"^(inline|public|api)\s+", "", body)
    # function header?
    m = re.match(r"(.*?)(\w+)\s*\((.*)\)\s*(?:nogil\s*)?(?:except\s*[^:]*)?:"
                 r"\s*$", body, re.S)
    if m and "=" not in m.group(1):
        params = ", ".join(_strip_param(p) for p in _split_params(m.group(3)))
        return f"{indent}def {m.group(2)}({params}):"
    body = ADDR_RE.sub(r"\1", body)
    body = CAST_RE.sub("", body)
    # variable declaration, maybe with initialiser
    t = TYPE_RE.match(body)
    rest = body[t.end():] if t else body
    # memoryview / buffer types such as ``uint8[:, :] name`` or
    # ``cnp.ndarray[dtype=..] name``
    rest = re.sub(r"^\[[^\]]*\]\s*", "", rest)
    if "=" in rest:
        name, val = rest.split("=", 1)
        name = name.strip()
        if re.fullmatch(r"[\w\s,\[\]:]+", name):
            name = re.sub(r"\[[^\]]*\]", "", name).strip()
            return f"{indent}{name} = {val.strip()}"
    # bare declaration
    return f"{indent}pass"


def _selfcheck(orig, tree, rel):
    """Every control line of the original must survive on the same line"""
    want = {}
    for ln, line in enumerate(orig.split("\n"), 1):
        s = line.strip()
        m = re.match(r"(def|if|elif|for|while|return)\b", s)
        if m and not s.startswith('"""'):
            want[ln] = m.group(1)
    have = {}
    for node in ast.walk(tree):
        if isinstance(node, (ast.FunctionDef, ast.If, ast.For, ast.While,
                             ast.Return)):
            have.setdefault(node.lineno, set()).add(type(node).__name__)
    in_doc = _docstring_lines(orig)
    missing = []
    for ln, kw in want.items():
        if ln in in_doc:
            continue
        if ln not in have:
            missing.append((ln, kw))
    if missing:
        raise AnalysisError(
            f"de-cythoniser self-check: control lines lost in {rel}: "
            f"{missing[:5]}")


def _docstring_lines(src):
    res = set()
    inside = False
    for ln, line in enumerate(src.split("\n"), 1):
        c = line.count('"""')
        if inside:
            res.add(ln)
            if c % 2 == 1:
                inside = False
        elif c % 2 == 1:
            inside = True
            res.add(ln)
    return res
