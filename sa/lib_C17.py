"""Finite-model evaluation of dclab's global memo ``cached.Cache`` (C17).

``Cache`` is loaded from its syntax tree into the analyser's interpreter
(:mod:`sa.lib_C04`) together with models of what it uses: ``hashlib.md5`` is an
object that *concatenates* what it is fed (so the "digest" is injective in the
byte stream and a missing delimiter shows as a collision), numpy arrays are
model objects with dtype (incl. byte order), shape, raw bytes and a
contiguity flag, the decorated functions are counters that return a fresh
token per call.  Nothing of dclab is imported or executed.
"""
from __future__ import annotations

from . import lib_C04 as L
from .core import AnalysisError

CA = "dclab/cached.py"


class MD5:
    def __init__(self, *a):
        self.stream = b""
        for x in a:
            self.update(x)

    def update(self, data):
        if isinstance(data, RawView):
            data = data.raw
        if isinstance(data, MArr):
            if not data.contiguous:
                raise L.ModelFault("BufferError", "memoryview: underlying "
                                   "buffer is not C-contiguous")
            data = data.raw
        if not isinstance(data, (bytes, bytearray)):
            raise L.ModelFault("TypeError", "object supporting the buffer "
                               f"API required, got {type(data).__name__}")
        self.stream += bytes(data)

    def hexdigest(self):
        return self.stream.hex()

    def digest(self):
        return self.stream


class DType:
    def __init__(self, code):
        self.str = code                     # e.g. '<u2'
        self.byteorder = code[0]
        self.kind = code[1]
        self.itemsize = int(code[2:])
        self.char = {"u1": "B", "u2": "H", "i4": "l", "f8": "d",
                     "f4": "f"}.get(code[1:], "?")
        self.name = {"u": "uint", "i": "int", "f": "float"}[
            self.kind] + str(8 * self.itemsize)
        self.descr = [("", code)]

    def __str__(self):
        return self.name if self.byteorder in "<|=" else self.str

    def __repr__(self):
        return f"dtype('{self}')"

    def __eq__(self, o):
        return isinstance(o, DType) and o.str == self.str

    def __hash__(self):
        return hash(self.str)


class RawView:
    def __init__(self, raw):
        self.raw = raw


class MArr:
    """model ndarray"""

    def __init__(self, raw, code, shape, contiguous=True):
        self.raw = bytes(raw)
        self.dtype = DType(code)
        self.shape = tuple(shape)
        self.contiguous = contiguous
        self.ndim = len(self.shape)
        self.size = len(self.raw) // self.dtype.itemsize
        self.nbytes = len(self.raw)

    def view(self, *a, **k):
        if not self.contiguous:
            raise L.ModelFault("ValueError", "To change to a dtype of a "
                               "different size, the last axis must be "
                               "contiguous")
        return RawView(self.raw)

    def tobytes(self, *a, **k):
        return self.raw

    def edit_in_place(self, raw):
        """model of ``a[...] = ...``: same object, same type and shape,
        other content"""
        assert len(raw) == len(self.raw)
        self.raw = bytes(raw)

    def copy(self):
        return MArr(self.raw, self.dtype.str, self.shape)

    def flatten(self):
        return MArr(self.raw, self.dtype.str, (self.size,))

    def ravel(self):
        return self.flatten()

    def __len__(self):
        return self.shape[0] if self.shape else 0

    def __getitem__(self, k):
        """1-D slicing (also strided): a view in numpy, non-contiguous for
        a step other than 1"""
        if self.ndim != 1 or not isinstance(k, slice):
            raise AnalysisError("indexing of a model array other than 1-D "
                                "slicing is not modelled")
        isz = self.dtype.itemsize
        items = [self.raw[i * isz:(i + 1) * isz] for i in range(self.size)]
        sel = items[k]
        step = k.step if k.step is not None else 1
        return MArr(b"".join(sel), self.dtype.str, (len(sel),),
                    contiguous=(step == 1))

    def __str__(self):
        # numpy abbreviates: lossy on purpose
        return f"[{self.raw[0]} ... {self.raw[-1]}]"

    __repr__ = __str__


def _ascontig(a, *r, **k):
    if isinstance(a, MArr):
        return MArr(a.raw, a.dtype.str, a.shape, True)
    return a


class Fn:
    """a decorated function: counts calls, returns a fresh token.  Without
    `params` its signature is ``(*args, **kwargs)``: every positional /
    keyword spelling is a different computation.  With `params` (and
    `defaults` for the trailing ones) it has that named signature."""

    class _Code:
        def __init__(self, fname, params):
            self.co_filename = fname
            self.co_name = "f"
            self.co_firstlineno = 1
            self.co_posonlyargcount = 0
            self.co_kwonlyargcount = 0
            if params is None:
                self.co_argcount = 0
                self.co_varnames = ("args", "kwargs")
                self.co_flags = 0x0F
                self.co_nlocals = 2
            else:
                self.co_argcount = len(params)
                self.co_varnames = tuple(params)
                self.co_flags = 0x03
                self.co_nlocals = len(params)

    def __init__(self, name, doc, filename, params=None, defaults=()):
        self.__name__ = name
        self.__qualname__ = name
        self.__doc__ = doc
        self.__module__ = filename.replace("/", ".")[:-3]
        self.__code__ = Fn._Code(filename, params)
        self.__defaults__ = tuple(defaults) if params is not None else None
        self.__kwdefaults__ = None
        self.__annotations__ = {}
        self.__wrapped_params__ = params
        self.calls = []

    def __call__(self, *args, **kwargs):
        self.calls.append((args, kwargs))
        return ("result", self.__name__, len(self.calls))


# ----------------------------------------------------------------------
# class-level state: ``Cache._cache`` / ``Cache._keys`` are read, re-bound
# and deleted through the class object.  lib_C04 evaluates class-level
# assignments once (shared object) but has no reads / stores / deletes on
# the class itself; added here as wrappers (process-local, idempotent).

def _install_class_state():
    if getattr(L, "_c17_class_state", False):
        return
    L._c17_class_state = True
    orig_lookup, orig_store = L.lookup_attr, L.store_attr

    def lookup_attr(interp, obj, name, node):
        if isinstance(obj, L.AstClass):
            st = obj.__dict__.setdefault("_cstate", {})
            if name in st:
                if st[name] is _DELETED:
                    raise L.ModelFault("AttributeError", f"class {obj.name} "
                                       f"has no attribute '{name}'", node)
                return st[name]
            try:
                return orig_lookup(interp, obj, name, node)
            except L.ModelFault:
                try:
                    return obj.class_attr(name)
                except KeyError:
                    raise L.ModelFault("AttributeError", f"class {obj.name} "
                                       f"has no attribute '{name}'", node)
        if isinstance(obj, L.AstObject) and name not in obj._attrs:
            st = obj._cls.__dict__.get("_cstate", {})
            if name in st and st[name] is not _DELETED:
                return st[name]
        return orig_lookup(interp, obj, name, node)

    def store_attr(interp, obj, name, value, node):
        if isinstance(obj, L.AstClass):
            obj.__dict__.setdefault("_cstate", {})[name] = value
            return
        return orig_store(interp, obj, name, value, node)
    L.lookup_attr, L.store_attr = lookup_attr, store_attr

    orig_delete = L.Interp.s_Delete

    def s_Delete(self, st, f):
        import ast as _ast
        rest = []
        for t in st.targets:
            if isinstance(t, _ast.Attribute):
                obj = self.eval(t.value, f)
                if isinstance(obj, L.AstClass):
                    L.lookup_attr(self, obj, t.attr, t)   # must exist
                    obj.__dict__.setdefault("_cstate", {})[t.attr] = _DELETED
                    continue
                if isinstance(obj, L.AstObject):
                    if t.attr not in obj._attrs:
                        raise L.ModelFault("AttributeError", t.attr, t)
                    del obj._attrs[t.attr]
                    continue
            rest.append(t)
        if rest:
            st2 = _ast.Delete(targets=rest)
            _ast.copy_location(st2, st)
            return orig_delete(self, st2, f)
    L.Interp.s_Delete = s_Delete


_DELETED = object()


class _T:
    def __init__(self, name):
        self.__name__ = name
        self.__qualname__ = name


def _model_type(o):
    if isinstance(o, MArr):
        return _T("ndarray")
    if isinstance(o, L.AstObject):
        return _T(o._cls.name)
    return type(o)


class Model:
    def __init__(self, repo, max_size=3):
        _install_class_state()
        self.it = L.Interp(repo)
        from .lib_common import extras
        ext = {
            **extras(L),
            "functools": L.namespace(
                "functools", update_wrapper=lambda w, f, *a, **k: w,
                wraps=lambda f: (lambda w: w)),
            "gc": L.namespace("gc", collect=lambda *a: 0),
            "collections": L.namespace(
                "collections", deque=__import__("collections").deque,
                OrderedDict=dict),
            "deque": __import__("collections").deque,
            "hashlib": L.namespace("hashlib", md5=MD5, sha1=MD5,
                                   sha256=MD5),
            "np": L.namespace(
                "np", ndarray=L.ModelType(
                    "ndarray", lambda o: isinstance(o, MArr)),
                ascontiguousarray=_ascontig, asarray=lambda a, *r, **k: a,
                uint8="uint8", ceil=__import__("math").ceil,
                floor=__import__("math").floor,
                sqrt=__import__("math").sqrt),
            "MAX_SIZE": max_size,
            "type": _model_type, "id": id, "map": map, "filter": filter,
            "bytearray": bytearray, "memoryview": lambda b: b,
        }
        self.env = self.it.env(CA, ext)
        self.cls = self.env.lookup("Cache")

    def wrap(self, fn):
        r = L.run(lambda: self.cls(fn))
        if r[0] != "ok":
            raise AnalysisError(f"Cache(func) cannot be evaluated: {r}")
        return r[1]

    def call(self, wrapped, *args, **kwargs):
        return L.run(lambda: self.it.call(wrapped, list(args), kwargs, None))

    def clear(self):
        return L.run(lambda: L.lookup_attr(self.it, self.cls, "clear_cache",
                                           None)())

    def stores(self):
        """(cache dict, key list) of the class, for the bound check"""
        c = L.run(lambda: L.lookup_attr(self.it, self.cls, "_cache", None))
        k = L.run(lambda: L.lookup_attr(self.it, self.cls, "_keys", None))
        import collections
        if c[0] != "ok" or k[0] != "ok" or not isinstance(c[1], dict) \
                or not isinstance(k[1], (list, collections.deque)):
            raise AnalysisError("Cache._cache / Cache._keys not found as "
                                "dict / list in the model")
        return c[1], k[1]


# ----------------------------------------------------------------------
# the file-monitoring cache (util.py) and LazyContourList (contour.py)

UT = "dclab/util.py"
CO = "dclab/features/contour.py"


def _install_nested_decorators():
    """lib_C04 binds a nested ``def`` without applying its decorators;
    ``@self.lru_cache`` on an inner function is the memo of the file cache"""
    if getattr(L.Interp, "_c17_nested_deco", False):
        return
    L.Interp._c17_nested_deco = True

    def s_FunctionDef(self, st, f):
        fn = L.Closure(self, st, f.genv, cell=f)
        for d in reversed(st.decorator_list):
            fn = self.call(self.eval(d, f), [fn], {}, d)
        f.loc[st.name] = fn
    L.Interp.s_FunctionDef = s_FunctionDef


def _install_bare_raise():
    """``raise`` without operand inside a handler re-raises the exception
    being handled (lib_C04 stops with an analysis error)"""
    if getattr(L.Interp, "_c17_bare_raise", False):
        return
    L.Interp._c17_bare_raise = True
    orig_raise = L.Interp.s_Raise

    def s_Try(self, st, f):
        try:
            try:
                self.block(st.body, f)
            except (L.ModelRaise, L.ModelFault) as e:
                for h in st.handlers:
                    if self._handler_matches(h, e, f):
                        if h.name:
                            f.loc[h.name] = e.exc if isinstance(
                                e, L.ModelRaise) else L.ExcValue(
                                    e.kind, (e.msg,))
                        stack = self.__dict__.setdefault("_handling", [])
                        stack.append(e)
                        try:
                            self.block(h.body, f)
                        finally:
                            stack.pop()
                        break
                else:
                    raise
            else:
                self.block(st.orelse, f)
        finally:
            self.block(st.finalbody, f)

    def s_Raise(self, st, f):
        if st.exc is None:
            stack = self.__dict__.get("_handling") or []
            if not stack:
                raise L.ModelFault("RuntimeError", "No active exception to "
                                   "reraise", st)
            raise stack[-1]
        return orig_raise(self, st, f)
    L.Interp.s_Try = s_Try
    L.Interp.s_Raise = s_Raise


class FileModel:
    """`file_monitoring_lru_cache` loaded from its syntax tree; files live
    on the model file system of lib_C10 and carry (content, mtime_ns)"""

    def __init__(self, repo, maxsize=100):
        import functools
        from .lib_C10 import FS, MPath
        from .lib_C03 import _install_walrus
        from .lib_common import extras
        _install_walrus()
        _install_nested_decorators()
        self.it = L.Interp(repo)
        self.fs = FS()
        self.meta = {}              # canonical name -> (content, mtime_ns)
        self.links = set()          # spellings that are symbolic links
        outer = self

        class Stat:
            _strict_attrs = True

            def __init__(self, content, mtime_ns):
                self.st_mtime_ns = mtime_ns
                self.st_mtime = mtime_ns // 10**9 * 1.0   # float seconds
                self.st_ctime_ns = mtime_ns
                self.st_size = len(content)
                self.st_ino = 1
                self.st_mode = 0o100644

            def __iter__(self):
                raise AnalysisError("iteration over os.stat_result is not "
                                    "modelled")

        class P(MPath):
            def stat(s):
                c = outer.fs.canon(s.s)
                if c not in outer.fs.files:
                    raise L.ModelFault("FileNotFoundError", s.s, None)
                return Stat(*outer.meta[c])

            def lstat(s):
                # a symbolic link has its own, unchanging stats
                if s.s in outer.links:
                    return Stat(outer.fs.alias[s.s].encode(), 1)
                return s.stat()

            def resolve(s, strict=False):
                return P(outer.fs, outer.fs.canon(s.s))

            def read_bytes(s):
                return outer.meta[outer.fs.canon(s.s)][0]

        class PF(L.ModelType):
            def __call__(_s, *a):
                return P(outer.fs, a[0])
        self.P = P

        def lru_cache(maxsize=128, typed=False):
            if callable(maxsize):
                return functools.lru_cache(128)(maxsize)
            return functools.lru_cache(maxsize=maxsize, typed=typed)

        def os_stat(p):
            return P(outer.fs, str(p)).stat()
        ext = {
            **extras(L),
            "functools": L.namespace(
                "functools", lru_cache=lru_cache, cache=lru_cache(None),
                wraps=lambda f: (lambda w: w),
                update_wrapper=lambda w, f, *a, **k: w),
            "pathlib": L.namespace("pathlib", Path=PF(
                "Path", lambda o: isinstance(o, MPath))),
            "os": L.namespace("os", stat=os_stat, path=L.namespace(
                "os.path", exists=lambda p: P(outer.fs, str(p)).exists(),
                realpath=lambda p: outer.fs.canon(str(p)),
                getmtime=lambda p: os_stat(p).st_mtime,
                getsize=lambda p: os_stat(p).st_size)),
        }
        self.env = self.it.env(UT, ext)
        cls = self.env.lookup("file_monitoring_lru_cache")
        self.calls = []

        def func(path, *args, **kwargs):
            c = outer.fs.canon(str(path))
            self.calls.append((c, args, tuple(sorted(kwargs.items()))))
            if c not in outer.fs.files:
                raise L.ModelFault("FileNotFoundError", str(path), None)
            return ("digest", outer.meta[c][0], args,
                    tuple(sorted(kwargs.items())))
        r = L.run(lambda: L.lookup_attr(self.it, cls(maxsize=maxsize),
                                        "__call__", None)(func))
        if r[0] != "ok":
            raise AnalysisError("file_monitoring_lru_cache(...)(func) "
                                f"cannot be evaluated: {r}")
        self.wrapped = r[1]

    def write(self, name, content, mtime_ns):
        c = self.fs.canon(name)
        self.fs.files.add(c)
        self.meta[c] = (bytes(content), mtime_ns)

    def remove(self, name):
        c = self.fs.canon(name)
        self.fs.files.discard(c)
        self.meta.pop(c, None)

    def call(self, path, *args, as_path=False, **kwargs):
        p = self.P(self.fs, path) if as_path else path
        return L.run(lambda: self.it.call(self.wrapped, [p] + list(args),
                                          kwargs, None))


class Mask:
    _strict_attrs = True

    def __init__(self, i):
        self.i = i

    def __getitem__(self, k):
        return self

    def tobytes(self):
        return bytes([self.i])


class LazyModel:
    """`LazyContourList` loaded from its syntax tree over model masks; the
    contour of event i is the token ('contour', i)"""

    def __init__(self, repo, n_events, max_events, failing=()):
        import collections
        from .lib_C03 import _install_walrus
        from .lib_common import extras
        _install_walrus()
        _install_bare_raise()
        self.it = L.Interp(repo)
        self.computed = []
        failing = set(failing)

        def get_contour(mask):
            if not isinstance(mask, Mask):
                raise AnalysisError("get_contour called on something that "
                                    "is not an event mask")
            if mask.i in failing:
                raise L.ModelRaise(L.ExcValue("ValueError",
                                              ("no contour",)))
            self.computed.append(mask.i)
            return ("contour", mask.i)

        class Arange(list):
            def __getitem__(s, k):
                r = list.__getitem__(s, k)
                return Arange(r) if isinstance(r, list) else r
        ext = {
            **extras(L),
            "deque": collections.deque,
            "collections": L.namespace("collections",
                                       deque=collections.deque),
            "numbers": L.namespace("numbers", Integral=L.ModelType(
                "Integral", lambda o: isinstance(o, int)
                and not isinstance(o, bool))),
            "np": L.namespace("np", nan=float("nan"),
                              arange=lambda n: Arange(range(n))),
            "get_contour": get_contour,
        }
        self.env = self.it.env(CO, ext)
        cls = self.env.lookup("LazyContourList")
        masks = [Mask(i) for i in range(n_events)]
        kw = {} if max_events == "default" else {"max_events": max_events}
        r = L.run(lambda: cls(masks, **kw))
        if r[0] != "ok":
            raise AnalysisError(f"LazyContourList(...) cannot be evaluated: "
                                f"{r}")
        self.obj = r[1]

    def get(self, idx):
        return L.run(lambda: L.lookup_attr(self.it, self.obj, "__getitem__",
                                           None)(idx))

    def stores(self):
        """all deque-like attributes of the object"""
        import collections
        return {k: v for k, v in self.obj._attrs.items()
                if isinstance(v, (collections.deque, list))
                and k != "masks"}
