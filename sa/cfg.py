"""Statement-level control-flow graph for one function body.

Nodes are simple statements, tests of compound statements (``if``/``while``
test, ``for`` iterator), ``with`` enter/exit markers and except-dispatch
points.  Edges carry a label: ``"n"`` (sequential), ``"T"``/``"F"`` (branch of
a test), ``"x"`` (exception), ``"r"`` (return path), ``"b"``/``"c"`` (break /
continue paths).  ``finally`` bodies and ``with`` exits are *copied* once per
way of leaving the protected region (normal, exception, return, break,
continue), so that every path of the graph is a syntactic path of the
function.  Calls, subscripts, attribute access, arithmetic, ``raise`` and
``assert`` may raise; the exceptional edge leads to the innermost handler (or
to the exceptional exit).

Queries are reachability based:

* ``reach(sources, avoid_node, avoid_edge)`` – forward reachability
* ``must_pass(pred)`` – every entry → normal-exit path visits a node with pred
* ``always_before(target_id, pred)`` – every entry → target path visits pred
"""
from __future__ import annotations

import ast

from .core import AnalysisError, FUNC_TYPES, txt

RAISING = (ast.Call, ast.Subscript, ast.Attribute, ast.BinOp, ast.Raise,
           ast.Assert, ast.Import, ast.ImportFrom, ast.Await, ast.Compare,
           ast.Starred, ast.Delete)


class N:
    __slots__ = ("id", "kind", "ast", "copy", "extra")

    def __init__(self, id, kind, node, copy=0, extra=None):
        self.id = id
        self.kind = kind      # stmt|test|for|with_enter|with_exit|dispatch|
        #                       entry|exit|xexit|handler
        self.ast = node
        self.copy = copy      # >0 for copies inside finally duplicates
        self.extra = extra

    @property
    def line(self):
        return getattr(self.ast, "lineno", 0)

    def __repr__(self):
        t = txt(self.ast).split("\n")[0][:50] if self.ast is not None else ""
        return f"<{self.id}:{self.kind}:{self.line}:{t}>"


def may_raise(node):
    if node is None:
        return False
    for n in ast.walk(node):
        if isinstance(n, RAISING):
            return True
    return False


class _Ctx:
    """Where control goes for each way of leaving the current region"""

    def __init__(self, exc, ret, brk=None, cont=None):
        self.exc = exc      # callable () -> node id  (lazy: finally copies)
        self.ret = ret
        self.brk = brk
        self.cont = cont


class CFG:
    def __init__(self, func):
        self.func = func
        self.nodes = []
        self.succ = {}
        self.pred = {}
        self.entry = self._new("entry", None)
        self.exit = self._new("exit", None)
        self.xexit = self._new("xexit", None)
        self._copy = 0
        body = func.body if not isinstance(func, ast.Lambda) else [
            ast.Return(value=func.body)]
        ctx = _Ctx(exc=lambda: self.xexit, ret=lambda: self.exit)
        first, outs = self._block(body, ctx)
        self._edge(self.entry, first if first is not None else self.exit, "n")
        for o, lab in outs:
            self._edge(o, self.exit, lab)
        self.by_ast = {}
        for n in self.nodes:
            if n.ast is not None:
                self.by_ast.setdefault(id(n.ast), []).append(n.id)

    # -- construction ---------------------------------------------------
    def _new(self, kind, node, extra=None):
        n = N(len(self.nodes), kind, node, getattr(self, "_copy", 0), extra)
        self.nodes.append(n)
        self.succ[n.id] = set()
        self.pred[n.id] = set()
        return n.id

    def _edge(self, a, b, label):
        self.succ[a].add((b, label))
        self.pred[b].add((a, label))

    def _block(self, stmts, ctx):
        """Return (first node id or None, list of (open out node, label))"""
        first = None
        outs = None   # None: not started
        for st in stmts:
            f, o = self._stmt(st, ctx)
            if f is None:
                continue
            if first is None:
                first = f
            else:
                for (a, lab) in outs:
                    self._edge(a, f, lab)
            outs = o
            # code after an unconditional jump is unreachable but we still
            # build it (it gets no predecessor)
        if first is None:
            return None, []
        return first, outs

    def _simple(self, st, ctx, kind="stmt", expr=None):
        n = self._new(kind, st)
        if may_raise(expr if expr is not None else st):
            self._edge(n, ctx.exc(), "x")
        return n

    def _stmt(self, st, ctx):
        if isinstance(st, ast.If):
            t = self._simple(st, ctx, "test", st.test)
            outs = []
            f1, o1 = self._block(st.body, ctx)
            if f1 is None:
                outs.append((t, "T"))
            else:
                self._edge(t, f1, "T")
                outs += o1
            f2, o2 = self._block(st.orelse, ctx)
            if f2 is None:
                outs.append((t, "F"))
            else:
                self._edge(t, f2, "F")
                outs += o2
            return t, outs
        if isinstance(st, (ast.While, ast.For, ast.AsyncFor)):
            if isinstance(st, ast.While):
                t = self._simple(st, ctx, "test", st.test)
            else:
                t = self._simple(st, ctx, "for", st.iter)
            after = []   # (node,label) leaving via break
            brk_nodes = []

            def brk():
                j = self._new("join", None)
                brk_nodes.append(j)
                return j
            inner = _Ctx(ctx.exc, ctx.ret, brk=brk, cont=lambda: t)
            f1, o1 = self._block(st.body, inner)
            if f1 is None:
                self._edge(t, t, "T")
            else:
                self._edge(t, f1, "T")
                for (a, lab) in o1:
                    self._edge(a, t, lab)
            outs = []
            f2, o2 = self._block(st.orelse, ctx)
            if f2 is None:
                outs.append((t, "F"))
            else:
                self._edge(t, f2, "F")
                outs += o2
            for j in brk_nodes:
                outs.append((j, "n"))
            return t, outs
        if isinstance(st, (ast.With, ast.AsyncWith)):
            enter = self._new("with_enter", st)
            self._edge(enter, ctx.exc(), "x")
            marker = st
            return self._protected(enter, st.body, [], None,
                                   ("with", marker), ctx, pre=enter)
        if isinstance(st, ast.Try) or st.__class__.__name__ == "TryStar":
            return self._protected(None, st.body, st.handlers, st.orelse,
                                   ("finally", st) if st.finalbody else None,
                                   ctx)
        if isinstance(st, ast.Return):
            n = self._simple(st, ctx)
            self._edge(n, ctx.ret(), "r")
            return n, []
        if isinstance(st, ast.Raise):
            n = self._new("stmt", st)
            self._edge(n, ctx.exc(), "x")
            return n, []
        if isinstance(st, ast.Break):
            n = self._new("stmt", st)
            if ctx.brk is None:
                raise AnalysisError("break outside loop")
            self._edge(n, ctx.brk(), "b")
            return n, []
        if isinstance(st, ast.Continue):
            n = self._new("stmt", st)
            if ctx.cont is None:
                raise AnalysisError("continue outside loop")
            self._edge(n, ctx.cont(), "c")
            return n, []
        if st.__class__.__name__ == "Match":
            raise AnalysisError("match statement not supported by the CFG")
        if isinstance(st, FUNC_TYPES + (ast.ClassDef,)):
            n = self._new("stmt", st)
            return n, [(n, "n")]
        n = self._simple(st, ctx)
        return n, [(n, "n")]

    def _final_copy(self, final, ctx_outer, cont):
        """Build one copy of a finally body / with-exit and continue at
        `cont()`; returns the first node id of the copy"""
        self._copy += 1
        kind, node = final
        if kind == "with":
            n = self._new("with_exit", node)
            self._edge(n, ctx_outer.exc(), "x")
            self._edge(n, cont(), "n")
            return n
        f, o = self._block(node.finalbody, ctx_outer)
        if f is None:
            return cont()
        c = None
        for (a, lab) in o:
            if c is None:
                c = cont()
            self._edge(a, c, lab)
        return f

    def _protected(self, enter, body, handlers, orelse, final, ctx, pre=None):
        """try/except/else/finally and with"""
        memo = {}

        def via_final(kind, cont):
            if final is None:
                return cont

            def go():
                if kind not in memo:
                    memo[kind] = self._final_copy(final, ctx, cont)
                return memo[kind]
            return go

        # context for handlers and orelse: exceptions go through finally to
        # the outer handler
        outer_exc = via_final("x", ctx.exc)
        hctx = _Ctx(outer_exc,
                    via_final("r", ctx.ret),
                    via_final("b", ctx.brk) if ctx.brk else None,
                    via_final("c", ctx.cont) if ctx.cont else None)
        if handlers:
            dispatch = self._new("dispatch", None)
            catches_all = False
            for h in handlers:
                hn = self._new("handler", h)
                self._edge(dispatch, hn, "x")
                f, o = self._block(h.body, hctx)
                if f is None:
                    h_outs = [(hn, "n")]
                else:
                    self._edge(hn, f, "n")
                    h_outs = o
                memo.setdefault("_houts", []).extend(h_outs)
                if h.type is None or txt(h.type) in ("BaseException",):
                    catches_all = True
            if not catches_all:
                self._edge(dispatch, outer_exc(), "x")
            body_exc = (lambda: dispatch)
        else:
            body_exc = outer_exc
        bctx = _Ctx(body_exc, hctx.ret, hctx.brk, hctx.cont)
        f, o = self._block(body, bctx)
        first = pre
        if f is None:
            o = [(pre, "n")] if pre is not None else []
        else:
            if pre is not None:
                self._edge(pre, f, "n")
            else:
                first = f
        if orelse:
            f2, o2 = self._block(orelse, hctx)
            if f2 is not None:
                for (a, lab) in o:
                    self._edge(a, f2, lab)
                o = o2
        outs = list(o) + memo.get("_houts", [])
        if first is None:
            # empty try body: nothing to protect
            if final is not None and final[0] == "finally":
                return self._block(final[1].finalbody, ctx)
            return None, []
        if final is not None:
            # normal completion runs its own copy of the finally body
            self._copy += 1
            if final[0] == "with":
                n = self._new("with_exit", final[1])
                self._edge(n, ctx.exc(), "x")
                for (a, lab) in outs:
                    self._edge(a, n, lab)
                outs = [(n, "n")]
            else:
                f3, o3 = self._block(final[1].finalbody, ctx)
                if f3 is not None:
                    for (a, lab) in outs:
                        self._edge(a, f3, lab)
                    outs = o3
        return first, outs

    # -- queries --------------------------------------------------------
    def ids_of(self, astnode):
        return self.by_ast.get(id(astnode), [])

    def ids_where(self, pred):
        return [n.id for n in self.nodes if n.ast is not None and pred(n)]

    def reach(self, sources, avoid_node=None, avoid_edge=None,
              include_sources=False):
        """Forward reachability.  `avoid_node(N)`: do not enter such nodes;
        `avoid_edge(N_src, label, N_dst)`: do not follow such edges"""
        seen = set()
        stack = list(sources)
        res = set(sources) if include_sources else set()
        while stack:
            a = stack.pop()
            if a in seen:
                continue
            seen.add(a)
            for (b, lab) in self.succ[a]:
                if avoid_edge is not None and avoid_edge(
                        self.nodes[a], lab, self.nodes[b]):
                    continue
                if avoid_node is not None and avoid_node(self.nodes[b]):
                    continue
                res.add(b)
                if b not in seen:
                    stack.append(b)
        return res

    def reachable(self):
        return self.reach([self.entry], include_sources=True)

    def must_pass(self, pred, dst=None, src=None, avoid_edge=None):
        """Every path src → dst (default entry → normal exit) visits a node
        satisfying `pred`"""
        dst = self.exit if dst is None else dst
        src = self.entry if src is None else src
        if pred(self.nodes[src]):
            return True
        r = self.reach([src], avoid_node=pred, avoid_edge=avoid_edge)
        return dst not in r

    def always_before(self, target, pred, avoid_edge=None):
        """Every entry → target path visits a node satisfying `pred` before
        reaching target (target itself does not count)"""
        r = self.reach([self.entry], avoid_node=pred, avoid_edge=avoid_edge,
                       include_sources=True)
        return target not in r

    def can_follow(self, a, pred, avoid_node=None, avoid_edge=None):
        """Some path starting after node `a` visits a node satisfying pred"""
        r = self.reach([a], avoid_node=avoid_node, avoid_edge=avoid_edge)
        return any(pred(self.nodes[i]) for i in r)

    def normal_edge_only(self):
        return lambda s, lab, d: lab == "x"

    def count_paths_kinds(self):
        """(nodes, edges, exceptional edges)"""
        e = sum(len(v) for v in self.succ.values())
        x = sum(1 for v in self.succ.values() for (_, lab) in v if lab == "x")
        return len(self.nodes), e, x


# ----------------------------------------------------------------------
# facts implied by taking a branch

def branch_facts(test, branch):
    """Yield (expr, truth) pairs guaranteed when `test` evaluates to
    `branch` (True/False)"""
    yield test, branch
    if isinstance(test, ast.UnaryOp) and isinstance(test.op, ast.Not):
        yield from branch_facts(test.operand, not branch)
    elif isinstance(test, ast.BoolOp):
        if isinstance(test.op, ast.And) and branch:
            for v in test.values:
                yield from branch_facts(v, True)
        elif isinstance(test.op, ast.Or) and not branch:
            for v in test.values:
                yield from branch_facts(v, False)


def guarded_by(cfg, target, fact):
    """Every entry → target path takes a branch that guarantees `fact`.

    `fact(expr, truth) -> bool` recognises the guarding condition.  An edge
    out of a test node whose label guarantees the fact "establishes" it; the
    target is guarded when it is unreachable without crossing such an edge.
    (No kill analysis: callers use this for conditions over values that are
    not reassigned in between; they check that separately when needed.)
    """
    def establishes(src, lab, dst):
        if src.kind == "test" and lab in ("T", "F"):
            for e, t in branch_facts(src.ast.test, lab == "T"):
                if fact(e, t):
                    return True
        return False
    r = cfg.reach([cfg.entry], avoid_edge=establishes, include_sources=True)
    return target not in r
