"""Harmless python builtins for the finite-model evaluations of C03, C17 and
C19 (the shared interpreter sa/lib_C04 binds only what its first users
needed).  All of these are pure on the model values they receive."""
EXTRA_BUILTINS = {
    "divmod": divmod, "round": round, "pow": pow, "map": map,
    "filter": filter, "iter": iter, "next": next, "id": id, "slice": slice,
    "ord": ord, "chr": chr, "hex": hex, "bin": bin, "format": format,
    "bytearray": bytearray, "callable": callable, "hash": hash,
    "complex": complex, "NotImplemented": NotImplemented,
    "Ellipsis": Ellipsis, "object": object,
    "RuntimeError": None, "OSError": None, "IOError": None,
    "StopIteration": None, "AssertionError": None, "ZeroDivisionError": None,
    "FileNotFoundError": None, "NameError": None, "ImportError": None,
    "ModuleNotFoundError": None, "UnicodeDecodeError": None,
    "RuntimeWarning": None, "FutureWarning": None,
}


def extras(L):
    """externals dict: extra builtins, exception classes as model classes"""
    out = {}
    for k, v in EXTRA_BUILTINS.items():
        if k == "object":
            continue
        out[k] = L.ExcClass(k) if v is None else v
    return out


# ----------------------------------------------------------------------
# per-instance state (structural; shared by C03 and others)

import ast as _ast

_MUTATORS = ("append", "extend", "insert", "pop", "remove", "clear",
             "update", "add", "discard", "setdefault", "popitem", "sort",
             "reverse", "appendleft", "popleft", "fill", "resize")
_MUTABLE_CTORS = ("list", "dict", "set", "deque", "defaultdict",
                  "OrderedDict", "Counter", "bytearray", "zeros", "ones",
                  "empty", "full", "array")


def _is_self_attr(e):
    return isinstance(e, _ast.Attribute) and isinstance(e.value, _ast.Name) \
        and e.value.id == "self"


def shared_class_state(cls):
    """-> [(attr, class-level node, mutating node)]: attributes of the parsed
    class `cls` that (a) are bound at class level to a mutable object
    (list / dict / set display, comprehension or constructor), (b) are
    mutated *in place through an instance* (``self.a[...] = …``,
    ``self.a += …``, ``self.a.append(…)``, ``del self.a[…]``) by some
    method and (c) are never re-bound through ``self.a = …`` in
    ``__init__`` or a method ``__init__`` calls on ``self``.  Such an
    attribute is one object shared by every instance of the class: what one
    instance records there, every other instance reads.  Access through the
    class name (an intended registry) is not reported."""
    level = {}
    for st in cls.body:
        tg = []
        if isinstance(st, _ast.Assign):
            tg, val = st.targets, st.value
        elif isinstance(st, _ast.AnnAssign) and st.value is not None:
            tg, val = [st.target], st.value
        for t in tg:
            if not isinstance(t, _ast.Name):
                continue
            mutable = isinstance(val, (_ast.List, _ast.Dict, _ast.Set,
                                       _ast.ListComp, _ast.DictComp,
                                       _ast.SetComp)) or (
                isinstance(val, _ast.Call) and (
                    (isinstance(val.func, _ast.Name)
                     and val.func.id in _MUTABLE_CTORS)
                    or (isinstance(val.func, _ast.Attribute)
                        and val.func.attr in _MUTABLE_CTORS)))
            if mutable:
                level[t.id] = st
    if not level:
        return []
    methods = {f.name: f for f in cls.body
               if isinstance(f, (_ast.FunctionDef, _ast.AsyncFunctionDef))}

    def rebinds(fn, seen):
        out = set()
        for n in _ast.walk(fn):
            if isinstance(n, _ast.Assign):
                for t in n.targets:
                    for e in (t.elts if isinstance(t, _ast.Tuple) else [t]):
                        if _is_self_attr(e):
                            out.add(e.attr)
            elif isinstance(n, _ast.AnnAssign) and _is_self_attr(n.target) \
                    and n.value is not None:
                out.add(n.target.attr)
            elif isinstance(n, _ast.Call) and _is_self_attr(n.func) \
                    and n.func.attr in methods \
                    and n.func.attr not in seen:
                out |= rebinds(methods[n.func.attr], seen | {n.func.attr})
        return out
    fresh = rebinds(methods["__init__"], {"__init__"}) \
        if "__init__" in methods else set()
    found = []
    for f in methods.values():
        for n in _ast.walk(f):
            hit = None
            if isinstance(n, (_ast.Assign, _ast.AugAssign, _ast.Delete)):
                tg = n.targets if not isinstance(n, _ast.AugAssign) \
                    else [n.target]
                for t in tg:
                    if isinstance(t, _ast.Subscript) \
                            and _is_self_attr(t.value):
                        hit = t.value.attr
                    elif isinstance(n, _ast.AugAssign) and _is_self_attr(t):
                        hit = t.attr
            elif isinstance(n, _ast.Call) \
                    and isinstance(n.func, _ast.Attribute) \
                    and n.func.attr in _MUTATORS \
                    and _is_self_attr(n.func.value):
                hit = n.func.value.attr
            if hit in level and hit not in fresh:
                found.append((hit, level[hit], n))
    return found
