"""Harmless python builtins for the finite-model evaluations of C03, C17 and
C19 (the shared interpreter sa/lib_C04 binds only what its first users
needed).  All of these are pure on the model values they receive."""
EXTRA_BUILTINS = {
    "divmod": divmod, "round": round, "pow": pow, "map": map,
    "filter": filter, "iter": iter, "next": next, "id": id, "slice": slice,
    "ord": ord, "chr": chr, "hex": hex, "bin": bin, "format": format,
    "bytearray": bytearray, "callable": callable, "hash": hash,
    "complex": complex, "NotImplemented": NotImplemented,
    "Ellipsis": Ellipsis, "object": object,
    "RuntimeError": None, "OSError": None, "IOError": None,
    "StopIteration": None, "AssertionError": None, "ZeroDivisionError": None,
    "FileNotFoundError": None, "NameError": None, "ImportError": None,
    "ModuleNotFoundError": None, "UnicodeDecodeError": None,
    "RuntimeWarning": None, "FutureWarning": None,
}


def extras(L):
    """externals dict: extra builtins, exception classes as model classes"""
    out = {}
    for k, v in EXTRA_BUILTINS.items():
        if k == "object":
            continue
        out[k] = L.ExcClass(k) if v is None else v
    return out
