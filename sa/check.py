#!/venv/bin/python
"""Run the static rules of one property against /repo's working tree.

usage: check.py <ID> [--tier quick|thorough] [--replay FILE]
                     [--overlay REL=FILE ...] [--list]

exit 0  every obligation discharged (known findings are printed as
        ``KNOWN-FINDING: property=<id> ...``)
exit 1  ``VIOLATION property=<id> replay=<path>`` for a finding that
        known_findings.json does not list
exit 2  ``ANALYSIS-ERROR`` – the analyser lost an anchor / cannot fold /
        matched fewer instances than confirmed by hand / self-test failed
"""
from __future__ import annotations

import importlib
import json
import os
import pathlib
import sys
import time
import traceback

HERE = pathlib.Path(__file__).resolve().parent
sys.path.insert(0, str(HERE.parent))

from sa.core import AnalysisError, Repo  # noqa: E402
from sa import engine  # noqa: E402


def run_rules(prop, overlay=None, tier="quick"):
    """-> Ctx with all obligations evaluated (raises AnalysisError)"""
    mod = importlib.import_module(f"sa.rules.{prop}")
    repo = Repo(overlay=overlay)
    ctx = engine.Ctx(prop, repo, tier)
    mod.run(ctx)
    if not ctx.findings():
        # a rule that matches fewer sites than confirmed by hand passes
        # vacuously: analysis error – unless it already reports a violation
        ctx.check_minimums()
    return ctx, mod


def _mutant_job(args):
    prop, name, rel, new_src, expect_rule, twin = args
    try:
        ctx, _ = run_rules(prop, overlay=new_src if isinstance(
            new_src, dict) else {rel: new_src})
        fnd = ctx.findings()
        new, _old = engine.split_findings(prop, fnd)
        return (name, "ok", [(f.rule, f.key, f.msg) for f in new])
    except AnalysisError as e:
        return (name, "analysis-error", str(e))
    except Exception as e:  # pragma: no cover
        return (name, "crash", "".join(traceback.format_exception_only(e)))


def _unclassified(prop):
    """names of campaign diffs on which this property's check is known to
    answer with an analysis error (see campaign/unclassified.json)"""
    import json
    import pathlib
    f = pathlib.Path(__file__).resolve().parent.parent / "campaign" / \
        "unclassified.json"
    try:
        d = json.loads(f.read_text())
    except OSError:
        return set()
    return {"rf:" + x["diff"] for x in d.get(prop, [])}


def selftest(prop, mod, seed):
    """Mutants must be reported (naming the expected rule); twins must stay
    silent.  Returns (summary dict, list of problems)."""
    from sa.mutate import apply_edit, StaleEdit
    repo = Repo()
    jobs = []
    skipped = []
    meta = {}
    for kind, items in (("mutant", getattr(mod, "MUTANTS", [])),
                        ("twin", getattr(mod, "TWINS", []))):
        for it in items:
            name, rel, edit, rule = it[0], it[1], it[2], it[3] if len(
                it) > 3 else None
            try:
                new_src = apply_edit(repo.src(rel), edit)
            except StaleEdit as e:
                skipped.append((name, str(e)))
                continue
            jobs.append((prop, name, rel, new_src, rule, kind == "twin"))
            meta[name] = (kind, rule, rel)
    # campaign artefacts: every behaviour-preserving refactoring produced by
    # the independent agents is a twin of every property; every confirmed
    # seeded breaking change this property's check reported is a mutant
    from sa.mutate import apply_diff
    verif = HERE.parent
    camp_skipped = []
    for diff in sorted(verif.glob("campaign/refactorings*/*/refactor*.diff")):
        name = "rf:" + str(diff.relative_to(verif / "campaign"))
        try:
            ov = apply_diff(diff.read_text(), repo.src)
        except StaleEdit as e:
            camp_skipped.append((name, str(e)))
            continue
        jobs.append((prop, name, ",".join(ov), ov, None, True))
        meta[name] = ("twin", None, ",".join(ov))
    for d in sorted(verif.glob("seeded/*")):
        try:
            m = json.loads((d / "meta.json").read_text())
        except (OSError, ValueError):
            continue
        if prop not in m.get("caught_by", []):
            continue
        name = "seeded:" + d.name
        try:
            ov = apply_diff((d / "patch.diff").read_text(), repo.src)
        except StaleEdit as e:
            camp_skipped.append((name, str(e)))
            continue
        jobs.append((prop, name, ",".join(ov), ov, None, False))
        meta[name] = ("seeded", None, ",".join(ov))
    results = []
    if jobs:
        import multiprocessing as mp
        nproc = min(16, len(jobs), os.cpu_count() or 1)
        if nproc > 1:
            with mp.get_context("fork").Pool(nproc) as pool:
                results = pool.map(_mutant_job, jobs, chunksize=1)
        else:
            results = [_mutant_job(j) for j in jobs]
    problems = []
    killed = 0
    quiet = 0
    unclassified = []
    seeded_rep = 0
    details = []
    for name, status, payload in results:
        kind, rule, rel = meta[name]
        if kind == "mutant":
            if status == "ok" and any(
                    (rule is None or r == rule or r.startswith(rule))
                    for (r, k, m) in payload):
                killed += 1
                hit = [p for p in payload
                       if rule is None or p[0].startswith(rule)][0]
                details.append({"mutant": name, "file": rel,
                                "reported_by": hit[0], "construct": hit[1]})
            elif status == "analysis-error":
                # fail-closed is acceptable for a mutant, but is recorded
                killed += 1
                details.append({"mutant": name, "file": rel,
                                "reported_by": "ANALYSIS-ERROR",
                                "construct": payload[:120]})
            else:
                problems.append(f"mutant survived: {name} ({rel}); "
                                f"expected rule {rule}; got {payload}")
        elif kind == "seeded":
            # stricter than a module mutant: a confirmed breaking change
            # must be reported as a violation, not as an analysis error
            if status == "ok" and payload:
                seeded_rep += 1
                details.append({"mutant": name, "file": rel,
                                "reported_by": payload[0][0],
                                "construct": payload[0][1]})
            else:
                problems.append(f"seeded change no longer reported: {name} "
                                f"({rel}): {status} {payload}")
        else:
            if status == "ok" and not payload:
                quiet += 1
            elif status == "analysis-error" and name in _unclassified(prop):
                # a behaviour-preserving campaign diff this check cannot
                # classify (listed with the reason in
                # campaign/unclassified.json): fail-closed, never an alarm
                unclassified.append(name)
            else:
                problems.append(f"twin not silent: {name} ({rel}): "
                                f"{status} {payload}")
    summary = {"mutants": sum(1 for v in meta.values() if v[0] == "mutant"),
               "mutants_reported": killed,
               "twins": sum(1 for v in meta.values() if v[0] == "twin"),
               "twins_silent": quiet,
               "seeded_changes": sum(1 for v in meta.values()
                                     if v[0] == "seeded"),
               "seeded_changes_reported": seeded_rep,
               "stale_edits_skipped": skipped,
               "campaign_diffs_not_applicable": camp_skipped,
               "campaign_diffs_unclassified": unclassified,
               "mutant_details": details}
    return summary, problems


def main(argv=None):
    argv = list(sys.argv[1:] if argv is None else argv)
    if not argv:
        print(__doc__)
        return 2
    prop = argv.pop(0)
    tier = os.environ.get("VERIF_TIER", "quick")
    replay = None
    overlay = {}
    while argv:
        a = argv.pop(0)
        if a == "--tier":
            tier = argv.pop(0)
        elif a == "--replay":
            replay = argv.pop(0)
        elif a == "--overlay":
            rel, path = argv.pop(0).split("=", 1)
            overlay[rel] = pathlib.Path(path).read_text()
        else:
            print(f"unknown argument {a}")
            return 2
    if tier not in ("quick", "thorough"):
        tier = "quick"
    try:
        seed = int(os.environ.get("VERIF_SEED", "0"))
    except ValueError:
        seed = 0
    t0 = time.time()
    try:
        ctx, mod = run_rules(prop, overlay=overlay or None, tier=tier)
        engine.set_assumptions(prop, getattr(mod, "ASSUMPTIONS", []))
        extra = {}
        problems = []
        if tier == "thorough" and not replay:
            if hasattr(mod, "crossval"):
                extra["model_cross_validation"] = mod.crossval(ctx)
            summary, problems = selftest(prop, mod, seed)
            extra["sensitivity_selftest"] = summary
    except AnalysisError as e:
        print(f"ANALYSIS-ERROR property={prop} {e}")
        return 2
    except Exception:
        print(f"ANALYSIS-ERROR property={prop} internal error:")
        traceback.print_exc()
        return 2

    findings = ctx.findings()
    if replay:
        want = json.loads(pathlib.Path(replay).read_text())
        hit = [o for o in ctx.obs if o.rule == want["rule"]
               and o.key == want["construct"]]
        if not hit:
            print(f"replay: construct {want['construct']} (rule "
                  f"{want['rule']}) no longer exists on this tree")
            return 2
        bad = [o for o in hit if not o.ok]
        for o in hit:
            print(f"replay: {o.rule} {o.key} @ {o.where}: "
                  f"{'VIOLATED' if not o.ok else 'holds'} – {o.msg}")
        if bad:
            print(f"VIOLATION property={prop} replay={replay}")
            return 1
        return 0

    new, old = engine.split_findings(prop, findings)
    for f, k in old:
        print(f"KNOWN-FINDING: property={prop} {k.get('id', '')} {f.rule} "
              f"{f.key} @ {f.where}: {f.msg}")
    outdir = engine.VERIF / "out" / prop
    rc = 0
    if new:
        outdir.mkdir(parents=True, exist_ok=True)
        for i, f in enumerate(new):
            p = outdir / f"{i}.json"
            p.write_text(json.dumps(f.as_dict() | {"property": prop},
                                    indent=1))
            print(f"{f.rule} {f.key} @ {f.where}: {f.msg}")
            print(f"VIOLATION property={prop} replay={p}")
        rc = 1
    wall = time.time() - t0
    if not os.environ.get("VERIF_NO_EVIDENCE"):
        # (seed_eval.py runs the checks against patched scratch trees and
        # must not overwrite the evidence of the real tree)
        engine.write_evidence(prop, tier, ctx, wall, len(new), old,
                              extra=extra, seed=seed)
    c = ctx.counts()
    print(f"{prop} [{tier}] obligations={len(ctx.obs)} "
          f"discharged={sum(1 for o in ctx.obs if o.ok)} new={len(new)} "
          f"known={len(old)} rules={len(c)} files={len(ctx.repo.consulted)} "
          f"wall={wall:.2f}s")
    if problems:
        for p in problems:
            print(f"ANALYSIS-ERROR property={prop} self-test: {p}")
        if rc == 0:
            rc = 2
    return rc


if __name__ == "__main__":
    rc = main()
    sys.stdout.flush()
    os._exit(rc)
