"""C05 – Young's modulus is the scaled linear interpolation of the look-up
table.

R5.1 ownership: every array that get_emodulus mutates in place (``-=``,
     normalize, scale_* with inplace=True, extrapolation) is a fresh
     allocation on every definition that reaches it: ``np.array(..,
     copy=copy)`` with the documented default True, the result of load_lut
     (which copies tuple input and loads files anew, uncached), the result
     of ``scale_feature(.., inplace=False)``, the result of griddata.  A
     conversion without copy (np.asarray) and a helper that can return its
     argument are aliases: they are as fresh as their argument at the call
     site (decided with reaching definitions on the CFG).
R5.2 scale laws as monomials: scale_area_um ~ w_out^2 w_in^-2, scale_volume
     ~ w_out^3 w_in^-3 (exponent = length dimension of the unit declared in
     load_mtext), scale_emodulus ~ Q_out Q_in^-1 eta_out eta_in^-1 w_in^3
     w_out^-3; the guards skip the factor only when it is 1; scale_feature
     dispatches to the law of the feature and forwards data and inplace.
R5.3 the two routes are mutual inverses: the per-event route moves the data
     LUT-wards with the width entries swapped and scales the result back with
     exactly the parameters the global route uses for the LUT.
R5.4 pixelation correction is subtracted from the deformation before any
     scaling, from the unscaled abscissa; the dispatch of
     get_pixelation_delta is sign-symmetric for circ/deform; the pixel-size
     scale has the dimension of the abscissa.
R5.6 no state between calls: no function on the call closure of
     get_emodulus inside dclab/features/emodulus writes a module-level
     container / global; a function whose result depends on module-level
     state that the package mutates (EXTERNAL_LUTS via register_lut),
     directly or through its callees, carries no memoising decorator.
R5.7 per-medium material constants of the viscosity models (the literals
     that differ between the `medium == ..` branches of one model) are
     strictly monotone in the methyl-cellulose concentration, hence pairwise
     distinct; a literal that occurs twice in one branch occurs twice in
     every branch (same quantity).  This is a consistency condition on the
     parameter tables, not a comparison with the cited publications.
R5.8 medium aliases: the module-level construction of SAME_MEDIA /
     ALIAS_MEDIA / KNOWN_MEDIA in viscosity.py is folded by interpretation;
     every listed spelling and its lower-case form resolves to the medium it
     is listed under, no alias maps elsewhere, KNOWN_MEDIA is the set of
     resolvable names, get_viscosity resolves before dispatching.
R5.9 every internal call of the viscosity functions (and get_emodulus'
     call of get_viscosity) passes on all physical parameters (medium,
     channel width, flow rate, temperature) that caller and callee share,
     each from the caller's parameter of the same name (keyword dicts are
     resolved).
R5.5 interpolation: griddata(method='linear') without fill_value/rescale on
     (column 0, column 1) -> column 2; LUT column and data are normalised by
     the same number, the column maximum taken after scaling; extrapolation
     is off by default and only runs when asked for.
"""
from __future__ import annotations

import ast
import re

from ..absval import ratfun
from ..cfg import CFG
from ..normalize import inline_helpers
from ..core import (AnalysisError, call_name, const_str, find_calls, kwarg,
                    last_attr, names_in, short, txt, walk)

ASSUMPTIONS = [
    "NOT decided: numerical agreement with an interpolation oracle; NaN "
    "exactly outside the LUT support (scipy.interpolate.griddata is "
    "trusted); the numerical values of the viscosity models of "
    "viscosity.py (R5.7 only decides that constants which depend on the MC "
    "concentration are strictly monotone in it – two concentrations cannot "
    "share a concentration-dependent rheological constant, consistency K "
    "and flow index n vary monotonically with the polymer concentration, as "
    "both models in the module show for the media they share); the content "
    "of the shipped LUT files.",
    "numpy semantics assumed: np.array(x) copies unless copy=False; "
    "np.loadtxt, griddata and arithmetic return new arrays; `x[:, k]` is a "
    "view of x.",
    "The scaling exponents of the Young's modulus (Q eta / w^3) are a table "
    "in the rule (property statement); those of area and volume are read "
    "from the unit declarations in load_mtext.",
]

EM = "dclab/features/emodulus/__init__.py"
LOAD = "dclab/features/emodulus/load.py"
SCALE = "dclab/features/emodulus/scale_linear.py"
PX = "dclab/features/emodulus/pxcorr.py"

ALLOCATORS = {"np.loadtxt", "np.zeros", "np.ones", "np.empty", "np.full",
              "np.zeros_like", "np.ones_like", "np.empty_like", "np.copy",
              "np.genfromtxt", "spint.griddata", "griddata",
              "scipy.interpolate.griddata", "np.linspace", "np.arange"}
CACHING = ("lru_cache", "cache", "Cache", "cached_property", "memoize")


# ----------------------------------------------------------------------
# freshness

class Fresh:
    """is the array denoted by an expression newly allocated on every
    evaluation?  (interprocedural over the emodulus package)"""

    def __init__(self, repo):
        self.repo = repo
        self.why = []
        self.chain = []     # (rel, func) consulted
        self._cfg = {}
        self.frames = []    # argument bindings of the helpers being read

    def resolve(self, rel, name):
        """(rel, FunctionDef) of a function called by plain name in `rel`"""
        f = self.repo.func(rel, name, missing_ok=True)
        if f is not None:
            return rel, f
        for st in self.repo.tree(rel).body:
            if isinstance(st, ast.ImportFrom) and st.level == 1 and st.module:
                for a in st.names:
                    if (a.asname or a.name) == name:
                        r2 = rel.rsplit("/", 1)[0] + "/" + st.module + ".py"
                        if self.repo.exists(r2):
                            f = self.repo.func(r2, a.name, missing_ok=True)
                            if f is not None:
                                return r2, f
        return None

    @staticmethod
    def boolv(e, env):
        if e is None:
            return None
        if isinstance(e, ast.Constant) and isinstance(e.value, bool):
            return e.value
        if isinstance(e, ast.Name) and e.id in env:
            return env[e.id]
        if isinstance(e, ast.UnaryOp) and isinstance(e.op, ast.Not):
            v = Fresh.boolv(e.operand, env)
            return None if v is None else (not v)
        return None

    def local_env(self, func, env):
        """extend env by single boolean assignments `copy = not inplace`"""
        env = dict(env)
        for n in walk(func):
            if isinstance(n, ast.Assign) and len(n.targets) == 1 \
                    and isinstance(n.targets[0], ast.Name):
                v = self.boolv(n.value, env)
                name = n.targets[0].id
                others = [m for m in walk(func) if isinstance(m, ast.Assign)
                          and m is not n and any(
                              isinstance(t, ast.Name) and t.id == name
                              for t in m.targets)]
                if v is not None and not others:
                    env[name] = v
        return env

    def defs(self, func, name):
        """[(stmt, value expr, tuple index or None)] of all bindings"""
        out = []
        for n in walk(func):
            if isinstance(n, ast.Assign):
                for t in n.targets:
                    if isinstance(t, ast.Name) and t.id == name:
                        out.append((n, n.value, None))
                    elif isinstance(t, (ast.Tuple, ast.List)):
                        for i, x in enumerate(t.elts):
                            if isinstance(x, ast.Name) and x.id == name:
                                out.append((n, n.value, i))
            elif isinstance(n, (ast.For, ast.With, ast.AnnAssign)) and \
                    name in {x.id for x in ast.walk(
                        getattr(n, "target", None) or ast.Pass())
                        if isinstance(x, ast.Name)}:
                out.append((n, None, None))
        return out

    def reaching(self, func, name, site):
        """definitions of `name` that reach the statement `site`;
        the pseudo definition ("entry", ..) stands for the parameter /
        an unbound name"""
        key = id(func)
        if key not in self._cfg:
            self._cfg[key] = CFG(func)
        cfg = self._cfg[key]
        ds = self.defs(func, name)
        dstmts = {id(d[0]) for d in ds}
        target = set(cfg.ids_of(site))
        if not target:
            raise AnalysisError(f"{func.name}: statement not in the CFG")

        def is_def(n):
            # (the statement under examination reads the name before it
            # binds it: it is entered, not avoided)
            return n.ast is not None and id(n.ast) in dstmts and n.kind in (
                "stmt", "for", "with_enter") and n.id not in target
        out = []
        r = cfg.reach([cfg.entry], avoid_node=is_def, include_sources=True)
        if target & r:
            out.append(("entry", None, None))
        for d in ds:
            ids = cfg.ids_of(d[0])
            r = cfg.reach(ids, avoid_node=is_def)
            if target & r:
                out.append(d)
        return out

    def expr(self, rel, func, e, env, idx=None, depth=0, site=None):
        """True if fresh; appends the reason to self.why otherwise"""
        if depth > 12:
            raise AnalysisError("freshness: definition chain too deep")
        if e is None:
            self.why.append("bound by a loop / with statement")
            return False
        if idx is not None:
            if isinstance(e, (ast.Tuple, ast.List)) and idx < len(e.elts):
                return self.expr(rel, func, e.elts[idx], env, None,
                                 depth + 1, site)
            if isinstance(e, ast.Name):
                # a name bound to a tuple (lut_data): elements are caller's
                self.why.append(f"element {idx} of `{e.id}` (existing "
                                "object)")
                return False
            if isinstance(e, ast.Call):
                return self.call(rel, func, e, env, idx, depth + 1)
            self.why.append(f"element {idx} of `{short(e, 30)}`")
            return False
        if isinstance(e, ast.BinOp) or isinstance(e, ast.UnaryOp):
            return True
        if isinstance(e, ast.IfExp):
            v = self.boolv(e.test, env)
            arms = [e.body] if v is True else [e.orelse] if v is False \
                else [e.body, e.orelse]
            return all([self.expr(rel, func, a, env, None, depth + 1, site)
                        for a in arms])
        if isinstance(e, ast.Call):
            return self.call(rel, func, e, env, None, depth + 1)
        if isinstance(e, ast.Name):
            params = [a.arg for a in func.args.args + func.args.kwonlyargs]
            if site is None:
                raise AnalysisError("freshness: no site")
            ds = self.reaching(func, e.id, site)
            if not ds:
                raise AnalysisError(f"{func.name}: no definition of "
                                    f"`{e.id}` reaches `{short(site, 30)}`")
            ok = True
            for st, v, i in ds:
                if st == "entry":
                    if e.id in params and self.frames and e.id in \
                            self.frames[-1] and self.frames[-1][e.id][4] \
                            is not None:
                        fr = self.frames.pop()
                        try:
                            r_, f_, a_, env_, site_ = fr[e.id]
                            n0 = len(self.why)
                            if not self.expr(r_, f_, a_, env_, None,
                                             depth + 1, site_):
                                self.why.insert(
                                    n0, f"{func.name} can return its "
                                    f"argument `{e.id}` = "
                                    f"`{short(a_, 25)}`")
                                ok = False
                        finally:
                            self.frames.append(fr)
                    elif e.id in params:
                        self.why.append(f"`{e.id}` is the caller's argument")
                    else:
                        self.why.append(
                            f"`{e.id}` is not a local of {func.name} "
                            "(module-level object)")
                    ok = False
                elif not self.expr(rel, func, v, env, i, depth + 1, st):
                    ok = False
            return ok
        if isinstance(e, ast.Subscript):
            # a view / element: mutating it mutates the base object
            n0 = len(self.why)
            ok = self.expr(rel, func, e.value, env, None, depth + 1, site)
            if not ok and len(self.why) == n0:
                self.why.append(f"`{short(e, 30)}` is a view / element of "
                                "an existing object")
            return ok
        self.why.append(f"`{short(e, 30)}` is not an allocation")
        return False

    def call(self, rel, func, c, env, idx, depth):
        n = call_name(c) or ""
        site = c
        while site is not None and not isinstance(site, ast.stmt):
            site = getattr(site, "parent", None)
        if n in ("np.array", "numpy.array", "np.asarray",
                 "np.ascontiguousarray", "np.atleast_1d") and idx is None:
            cp = kwarg(c, "copy")
            v = self.boolv(cp, env) if cp is not None else True
            if not n.endswith(".array"):
                v = False
            if v is True:
                return True
            if v is False:
                # no copy: the result may be the argument itself – it is as
                # fresh as the argument
                if not c.args or site is None:
                    self.why.append(f"`{short(c, 40)}` does not copy")
                    return False
                n0 = len(self.why)
                ok = self.expr(rel, func, c.args[0], env, None, depth + 1,
                               site)
                if not ok:
                    self.why.insert(n0, f"`{short(c, 40)}` does not copy")
                return ok
            self.why.append(f"copy flag of `{short(c, 40)}` is not decided")
            return False
        if n in ALLOCATORS and idx is None:
            return True
        if last_attr(c) in ("copy", "astype") and isinstance(
                c.func, ast.Attribute) and idx is None and n != "copy.copy":
            return True
        if n in ("copy.deepcopy", "copy.copy") and idx is None:
            return True
        res = self.resolve(rel, n) if "." not in n else None
        if res is None:
            self.why.append(f"result of `{short(c, 40)}` is not known to be "
                            "a new array")
            return False
        r2, f2 = res
        # caching decorators keep the returned object alive between calls
        for d in f2.decorator_list:
            if any(k in txt(d) for k in CACHING):
                self.why.append(f"{f2.name} is wrapped by `{txt(d)}`: the "
                                "same array object is returned on every "
                                "call and mutated in place")
                return False
        if (r2, f2.name) not in self.chain:
            self.chain.append((r2, f2.name))
        # bind boolean arguments
        params = [a.arg for a in f2.args.args]
        env2 = {}
        defaults = dict(zip(reversed(params), reversed(f2.args.defaults)))
        for p, dv in defaults.items():
            v = self.boolv(dv, {})
            if v is not None:
                env2[p] = v
        for i, a in enumerate(c.args):
            if i < len(params):
                v = self.boolv(a, env)
                if v is not None:
                    env2[params[i]] = v
                else:
                    env2.pop(params[i], None)
        for kw in c.keywords:
            if kw.arg is None:
                # **dict: look the literal up
                if isinstance(kw.value, ast.Name):
                    for k, v in dict_literal(func, kw.value.id).items():
                        bv = self.boolv(v, env)
                        if bv is not None and k in params:
                            env2[k] = bv
                continue
            v = self.boolv(kw.value, env)
            if v is not None:
                env2[kw.arg] = v
            else:
                env2.pop(kw.arg, None)
        env2 = self.local_env(f2, env2)
        rets = [r for r in walk(f2) if isinstance(r, ast.Return)]
        if not rets:
            self.why.append(f"{f2.name} returns nothing")
            return False
        # a helper that can return (an alias of) its argument: the result
        # is as fresh as the argument at the call site
        frame = {}
        for i, a in enumerate(c.args):
            if i < len(params) and not isinstance(a, ast.Starred):
                frame[params[i]] = (rel, func, a, env, site)
        for kw in c.keywords:
            if kw.arg is not None:
                frame[kw.arg] = (rel, func, kw.value, env, site)
        self.frames.append(frame)
        try:
            ok = True
            for r in rets:
                if dead_under(r, f2, env2, self.boolv):
                    continue
                if not self.expr(r2, f2, r.value, env2, idx, depth + 1, r):
                    ok = False
        finally:
            self.frames.pop()
        return ok


def dead_under(node, func, env, boolv):
    """the statement sits in a branch that the boolean env excludes"""
    n = node
    while n is not func:
        p = n.parent
        if isinstance(p, ast.If):
            v = boolv(p.test, env)
            if v is True and any(n is s for s in p.orelse):
                return True
            if v is False and any(n is s for s in p.body):
                return True
        n = p
    return False


def dict_literal(func, name):
    """{key: value node} of the dict literal(s) bound to name; several
    bindings must sit in different branches – the caller passes the branch"""
    out = {}
    for n in walk(func):
        if isinstance(n, ast.Assign) and len(n.targets) == 1 and isinstance(
                n.targets[0], ast.Name) and n.targets[0].id == name \
                and isinstance(n.value, ast.Dict):
            for k, v in zip(n.value.keys, n.value.values):
                if const_str(k) is not None:
                    out.setdefault(const_str(k), v)
    return out


def dict_in(stmts, name):
    """dict literal bound to `name` among the given statements"""
    for s in stmts:
        if isinstance(s, ast.Assign) and len(s.targets) == 1 and isinstance(
                s.targets[0], ast.Name) and s.targets[0].id == name \
                and isinstance(s.value, ast.Dict):
            d = {}
            for k, v in zip(s.value.keys, s.value.values):
                if const_str(k) is None:
                    raise AnalysisError(f"{name}: non-literal key")
                d[const_str(k)] = v
            return d, s
    return None, None


def single_def(func, name):
    """the only binding `name = value` of a local within a function or a
    list of statements (else None)"""
    found = []
    nodes = walk(func) if not isinstance(func, list) else (
        n for st in func for n in walk(st))
    for n in nodes:
        if isinstance(n, ast.Assign):
            for t in n.targets:
                if isinstance(t, ast.Name) and t.id == name:
                    found.append(n if len(n.targets) == 1 else None)
                elif name in names_in(t) and not isinstance(
                        t, (ast.Subscript, ast.Attribute)):
                    found.append(None)
        elif isinstance(n, (ast.AugAssign, ast.AnnAssign, ast.For)) \
                and isinstance(n.target, ast.Name) and n.target.id == name:
            found.append(None)
    if not isinstance(func, list) and name in [
            a.arg for a in func.args.args]:
        found.append(None)
    return found[0] if len(found) == 1 else None


class _AliasExpand(ast.NodeTransformer):
    """replace locals that are bound once to a name or a view of another
    object (``col = lut[:, 0]``) by that expression"""

    def __init__(self, func, depth=4):
        self.func, self.depth = func, depth

    def visit_Name(self, node):
        if isinstance(node.ctx, ast.Load) and self.depth > 0:
            d = single_def(self.func, node.id)
            if d is not None and isinstance(
                    d.value, (ast.Name, ast.Subscript)) \
                    and node.id not in names_in(d.value):
                return _AliasExpand(self.func, self.depth - 1).visit(
                    _fresh(d.value))
        return node


def _fresh(e):
    """parent-less copy of an expression (a deepcopy would follow the
    .parent links and copy the whole module)"""
    t = e if isinstance(e, str) else txt(e)
    try:
        return ast.parse(t, mode="eval").body
    except SyntaxError:
        return ast.parse(f"_[{t}]", mode="eval").body.slice


def alias_txt(func, e):
    return txt(_AliasExpand(func).visit(_fresh(e)))


def root_def(func, e):
    """follow `a = b` chains: (root name, its only definition or None)"""
    seen = 0
    while isinstance(e, ast.Name) and seen < 6:
        d = single_def(func, e.id)
        if d is not None and isinstance(d.value, ast.Name):
            e = d.value
            seen += 1
            continue
        return e.id, d
    return None, None


def dispatch_branches(func, what):
    """[(test, body)] of a feature dispatch written as an if/elif chain or
    as consecutive guard clauses (each ending in return/raise); the trailing
    else / fall-through statements are returned separately"""
    out = []
    body = [s for s in func.body if not (
        isinstance(s, ast.Expr) and isinstance(s.value, ast.Constant))]
    i = 0
    rest = []
    while i < len(body) and not out and isinstance(
            body[i], (ast.Assign, ast.AnnAssign)):
        i += 1          # preparation before the dispatch
    while i < len(body):
        st = body[i]
        if not isinstance(st, ast.If):
            rest = body[i:]
            break
        node = st
        chain_elif = False
        while True:
            out.append((node.test, node.body))
            if len(node.orelse) == 1 and isinstance(node.orelse[0], ast.If):
                node = node.orelse[0]
                chain_elif = True
                continue
            break
        if node.orelse:
            rest = node.orelse + body[i + 1:]
            break
        # consecutive guard clauses: every branch so far must leave
        if i + 1 < len(body) and isinstance(body[i + 1], ast.If):
            for t, b in out:
                if not isinstance(b[-1], (ast.Return, ast.Raise)):
                    raise AnalysisError(
                        f"{what}: consecutive `if` statements whose "
                        "branches fall through")
        i += 1
        del chain_elif
    if not out:
        raise AnalysisError(f"{what}: dispatch not found")
    return out, rest


def seval(e, env, what):
    """evaluate a dispatch test over string-valued names"""
    if isinstance(e, ast.Constant):
        return e.value
    if isinstance(e, ast.Name):
        if e.id in env:
            return env[e.id]
        raise AnalysisError(f"{what}: test mentions `{e.id}`")
    if isinstance(e, (ast.List, ast.Tuple, ast.Set)):
        return [seval(x, env, what) for x in e.elts]
    if isinstance(e, ast.BoolOp):
        vals = [seval(v, env, what) for v in e.values]
        return all(vals) if isinstance(e.op, ast.And) else any(vals)
    if isinstance(e, ast.UnaryOp) and isinstance(e.op, ast.Not):
        return not seval(e.operand, env, what)
    if isinstance(e, ast.Compare) and len(e.ops) == 1:
        a = seval(e.left, env, what)
        b = seval(e.comparators[0], env, what)
        op = e.ops[0]
        if isinstance(op, ast.Eq):
            return a == b
        if isinstance(op, ast.NotEq):
            return a != b
        if isinstance(op, ast.In):
            return a in b
        if isinstance(op, ast.NotIn):
            return a not in b
    raise AnalysisError(f"{what}: test `{short(e, 40)}` not understood")


def first_branch(branches, env, what):
    for t, b in branches:
        if seval(t, env, what):
            return t, b
    return None


def branch_value(body, result_name, what):
    """value a dispatch branch yields: `return v` or `<result> = v`
    (None for a raising branch); also the statement"""
    stmts = [s for s in body if not isinstance(s, ast.Pass)]
    if len(stmts) == 1 and isinstance(stmts[0], ast.Raise):
        return None, stmts[0]
    if len(stmts) == 1 and isinstance(stmts[0], ast.Return) \
            and stmts[0].value is not None:
        return stmts[0].value, stmts[0]
    if len(stmts) == 1 and isinstance(stmts[0], ast.Assign) and len(
            stmts[0].targets) == 1 and isinstance(
            stmts[0].targets[0], ast.Name) and (
            result_name is None or stmts[0].targets[0].id == result_name):
        return stmts[0].value, stmts[0]
    if len(stmts) == 2 and isinstance(stmts[0], ast.Assign) and isinstance(
            stmts[1], ast.Return) and isinstance(
            stmts[1].value, ast.Name) and txt(
            stmts[0].targets[0]) == stmts[1].value.id:
        return stmts[0].value, stmts[0]
    raise AnalysisError(f"{what}: branch `{short(body[0], 40)}` not "
                        "understood")


def base_name(e):
    while isinstance(e, (ast.Subscript, ast.Attribute)):
        e = e.value
    return e.id if isinstance(e, ast.Name) else None


def inplace_params(func):
    """parameters a helper mutates in place (aug-assign / subscript store)"""
    params = [a.arg for a in func.args.args]
    out = set()
    for n in walk(func):
        if isinstance(n, ast.AugAssign):
            b = base_name(n.target)
            if b in params:
                out.add(b)
        elif isinstance(n, ast.Assign):
            for t in n.targets:
                if isinstance(t, ast.Subscript) and base_name(t) in params:
                    out.add(base_name(t))
    return out


# ----------------------------------------------------------------------

class Model:
    """shape of get_emodulus"""

    def __init__(self, repo):
        self.repo = repo
        # extracted private helpers (e.g. a per-axis normalisation helper)
        # are read as part of the function
        f = self.f = inline_helpers(repo, EM, repo.func(EM, "get_emodulus"))
        self.params = [a.arg for a in f.args.args]
        self.defaults = dict(zip(reversed(self.params),
                                 reversed(f.args.defaults)))
        # the route split
        routes = [s for s in f.body if isinstance(s, ast.If) and isinstance(
            s.test, ast.Call) and call_name(s.test) == "isinstance"
            and "ndarray" in txt(s.test) and find_calls(s, attr="griddata")]
        if len(routes) != 1 or not routes[0].orelse:
            raise AnalysisError("get_emodulus: route split on the viscosity "
                                "type not found")
        self.split = routes[0]
        self.visco = txt(self.split.test.args[0])
        self.routeA = self.split.body      # per-event viscosity
        self.routeB = self.split.orelse    # global viscosity
        # lut / meta
        ll = [s for s in f.body if isinstance(s, ast.Assign) and isinstance(
            s.value, ast.Call) and call_name(s.value) == "load_lut"]
        if len(ll) != 1 or not isinstance(ll[0].targets[0], ast.Tuple):
            raise AnalysisError("get_emodulus: load_lut call lost")
        self.lut, self.meta = [txt(x) for x in ll[0].targets[0].elts]
        self.load_stmt = ll[0]
        # featx, featy
        cf = [s for s in f.body if isinstance(s, ast.Assign) and isinstance(
            s.targets[0], ast.Tuple) and "column features" in txt(s.value)]
        if len(cf) != 1:
            raise AnalysisError("get_emodulus: column features unpacking")
        self.featx, self.featy = [txt(x) for x in cf[0].targets[0].elts[:2]]
        # pixelation statement
        px = [s for s in f.body if isinstance(s, ast.If) and find_calls(
            s, name="get_pixelation_delta")]
        if len(px) != 1:
            raise AnalysisError("get_emodulus: pixelation correction lost")
        self.px_if = px[0]

    def route_of(self, node):
        n = node
        while n is not self.f:
            if any(n is s for s in self.routeA):
                return "A"
            if any(n is s for s in self.routeB):
                return "B"
            n = n.parent
        return None

    def route_stmts(self, which):
        return self.routeA if which == "A" else self.routeB


def func_here_or_imported(repo, rel, name):
    """the function `name` of module rel, also when it is defined in another
    module of the repository and imported by `from .x import name`"""
    f = repo.func(rel, name, missing_ok=True)
    if f is not None:
        return f
    from ..normalize import resolve_from_import
    r = resolve_from_import(repo, rel, name)
    if r is not None:
        f = repo.func(r[0], r[1], missing_ok=True)
        if f is not None:
            return f
    raise AnalysisError(f"anchor vanished: {rel}::{name}")


def inplace_sites(repo, m):
    """[(node, base array name, description)]"""
    f = m.f
    sites = []
    norm = func_here_or_imported(repo, EM, "normalize")
    norm_ip = inplace_params(norm)
    norm_params = [a.arg for a in norm.args.args]
    extra = func_here_or_imported(repo, EM, "extrapolate_emodulus")
    for n in walk(f):
        if isinstance(n, ast.AugAssign):
            b = base_name(n.target)
            if b is None:
                raise AnalysisError("get_emodulus: in-place target "
                                    f"`{short(n.target, 30)}`")
            sites.append((n, b, f"`{short(n, 40)}`"))
        elif isinstance(n, ast.Assign):
            for t in n.targets:
                if isinstance(t, ast.Subscript):
                    b = base_name(t)
                    if b:
                        sites.append((n, b, f"`{short(n, 40)}`"))
        elif isinstance(n, ast.Call):
            cn = call_name(n) or ""
            if cn == "normalize":
                for i, a in enumerate(n.args):
                    if i < len(norm_params) and norm_params[i] in norm_ip:
                        sites.append((n, base_name(a),
                                      f"normalize({short(a, 20)}, ..)"))
                for kw in n.keywords:
                    if kw.arg in norm_ip:
                        sites.append((n, base_name(kw.value),
                                      f"normalize({short(kw.value, 20)})"))
            elif cn in ("scale_feature", "scale_emodulus", "scale_area_um",
                        "scale_volume"):
                ip = kwarg(n, "inplace")
                if ip is None:
                    for kw in n.keywords:
                        if kw.arg is None and isinstance(kw.value, ast.Name):
                            blk = m.route_stmts(m.route_of(n) or "B")
                            d, _ = dict_in(blk, kw.value.id)
                            if d is None:
                                raise AnalysisError(
                                    "get_emodulus: **" + kw.value.id)
                            ip = d.get("inplace")
                v = Fresh.boolv(ip, {}) if ip is not None else False
                if v is None:
                    raise AnalysisError("get_emodulus: inplace flag of "
                                        f"`{short(n, 40)}` not literal")
                if v:
                    data = kwarg(n, "data") or kwarg(
                        n, {"scale_emodulus": "emodulus",
                            "scale_area_um": "area_um",
                            "scale_volume": "volume"}.get(cn, "data"),
                        1 if cn == "scale_feature" else 0)
                    if data is None:
                        raise AnalysisError("get_emodulus: data argument of "
                                            f"`{short(n, 40)}`")
                    sites.append((n, base_name(data),
                                  f"{cn}({short(data, 20)}, inplace=True)"))
            elif cn == "extrapolate_emodulus":
                ip = kwarg(n, "inplace")
                dv = dict(zip(reversed([a.arg for a in extra.args.args]),
                              reversed(extra.args.defaults))).get("inplace")
                v = Fresh.boolv(ip if ip is not None else dv, {})
                if v is not False:
                    e = kwarg(n, "emod", 3)
                    sites.append((n, base_name(e),
                                  f"extrapolate_emodulus(emod="
                                  f"{short(e, 20)}, inplace=True)"))
    return sites


def r51(ctx, repo, m):
    f = m.f
    # documented default of `copy`
    dv = m.defaults.get("copy")
    ok = isinstance(dv, ast.Constant) and dv.value is True
    ctx.ob("R5.1", ok, "get_emodulus(copy=True) by default: input arrays "
           "are copied unless the caller opts out" if ok else
           f"default of `copy` is {txt(dv)}: the caller's arrays are "
           "overwritten by default", node=f, label="copy default")
    env = {"copy": True} if ok else {}
    sites = inplace_sites(repo, m)
    if len(sites) < 10:
        raise AnalysisError(f"get_emodulus: only {len(sites)} in-place "
                            "operations found")
    fr = Fresh(repo)
    seen = {}
    for node, b, what in sites:
        if b is None:
            raise AnalysisError(f"get_emodulus: target of {what}")
        route = m.route_of(node) or "-"
        key = (b, route, what)
        if key in seen:
            continue
        seen[key] = True
        fr.why = []
        st = node
        while not isinstance(st, ast.stmt):
            st = st.parent
        ok = fr.expr(EM, f, ast.Name(id=b, ctx=ast.Load()), env, site=st)
        ctx.ob("R5.1", ok,
               f"{what} acts on `{b}`, a fresh allocation on every "
               "definition" if ok else
               f"{what} mutates `{b}` in place, which is not a fresh "
               f"allocation: {'; '.join(dict.fromkeys(fr.why))}",
               node=node,
               key=f"{EM}::get_emodulus::[{route}] in-place {what} on {b}")
    ctx.stat("R5.1 in-place sites", len(seen))
    ctx.stat("R5.1 functions on the allocation chain",
             [f"{r}::{n}" for r, n in fr.chain])
    # meta is never written
    wr = [n for n in walk(f) if isinstance(n, (ast.Assign, ast.AugAssign))
          and any(base_name(t) == m.meta and not isinstance(t, ast.Name)
                  for t in (n.targets if isinstance(n, ast.Assign)
                            else [n.target]))]
    ctx.ob("R5.1", not wr, "the LUT metadata are only read" if not wr else
           f"`{short(wr[0], 40)}` writes into the LUT metadata", node=wr[0]
           if wr else f, label="meta read-only", nontrivial=False)
    # load_lut: tuple input copied, registry only read
    ll = repo.func(LOAD, "load_lut")
    stores = [n for n in walk(ll) if isinstance(n, (ast.Assign,
                                                    ast.AugAssign))
              and any(base_name(t) == "EXTERNAL_LUTS" for t in (
                  n.targets if isinstance(n, ast.Assign) else [n.target]))]
    ctx.ob("R5.1", not stores, "load_lut does not modify the registry of "
           "external tables" if not stores else "load_lut writes the "
           "registry", node=ll, label="registry read-only",
           nontrivial=False)


# ----------------------------------------------------------------------
# R5.2

E_LAW = {"flow_rate_out": 1, "flow_rate_in": -1, "viscosity_out": 1,
         "viscosity_in": -1, "channel_width_in": 3, "channel_width_out": -3}


def unit_dimensions(repo):
    """{feature: length exponent} from the unit sanity checks of load_mtext
    (if/elif chain of assertions or a module-level {feature: unit} table
    that the function consults)"""
    f = repo.func(LOAD, "load_mtext")
    scope, todo = [], [f]
    while todo:
        g = todo.pop()
        if g in scope or len(scope) > 6:
            continue
        scope.append(g)
        for c in walk(g):
            if isinstance(c, ast.Call) and isinstance(c.func, ast.Name):
                h = repo.func(LOAD, c.func.id, missing_ok=True)
                if h is not None:
                    todo.append(h)
    units = {}
    for n in [x for g in scope for x in walk(g)]:
        if isinstance(n, ast.If) and isinstance(n.test, ast.Compare) \
                and len(n.test.comparators) == 1 and isinstance(
                    n.test.ops[0], ast.Eq):
            feat = const_str(n.test.comparators[0]) or const_str(n.test.left)
            if feat is None:
                continue
            for s in n.body:
                if isinstance(s, ast.Assert) and isinstance(
                        s.test, ast.Compare) and isinstance(
                        s.test.ops[0], ast.Eq):
                    u = const_str(s.test.comparators[0])
                    if u is None:
                        u = const_str(s.test.left)
                    if u is not None:
                        units[feat] = u
    if not units:
        # table form: assert un == TABLE[ft]
        for n in walk(f):
            if isinstance(n, ast.Name) and isinstance(n.ctx, ast.Load):
                tab = repo.module_assign(LOAD, n.id, missing_ok=True)
                if isinstance(tab, ast.Dict) and all(
                        const_str(k) is not None and const_str(v) is not None
                        for k, v in zip(tab.keys, tab.values)) and tab.keys:
                    cand = {const_str(k): const_str(v)
                            for k, v in zip(tab.keys, tab.values)}
                    used = any(
                        isinstance(a_, ast.Assert) and n.id in names_in(a_)
                        and isinstance(a_.test, ast.Compare) and isinstance(
                            a_.test.ops[0], ast.Eq)
                        and any(isinstance(x, ast.Subscript) and txt(
                            x.value) == n.id for x in ast.walk(a_.test))
                        for a_ in walk(f))
                    if used and {"area_um", "volume"} <= set(cand):
                        units = cand
    out = {}
    for feat, u in units.items():
        mm = re.fullmatch(r"um\^(\d)", u)
        if mm:
            out[feat] = int(mm.group(1))
        elif u == "":
            out[feat] = 0
    return out


def mini(e, env):
    """evaluate guards: names -> numbers, `x is None` -> False,
    isinstance(..) -> False"""
    if isinstance(e, ast.Constant):
        return e.value
    if isinstance(e, ast.Name):
        if e.id in env:
            return env[e.id]
        raise AnalysisError(f"guard mentions unknown name {e.id}")
    if isinstance(e, ast.BoolOp):
        vals = [mini(v, env) for v in e.values]
        return all(vals) if isinstance(e.op, ast.And) else any(vals)
    if isinstance(e, ast.UnaryOp) and isinstance(e.op, ast.Not):
        return not mini(e.operand, env)
    if isinstance(e, ast.Call) and call_name(e) == "isinstance":
        return False
    if isinstance(e, (ast.Tuple, ast.List)):
        return [mini(x, env) for x in e.elts]
    if isinstance(e, ast.Call) and call_name(e) in ("any", "all") and len(
            e.args) == 1 and not e.keywords:
        arg = e.args[0]
        if isinstance(arg, (ast.GeneratorExp, ast.ListComp)) and len(
                arg.generators) == 1 and isinstance(
                arg.generators[0].target, ast.Name):
            g = arg.generators[0]
            seq = mini(g.iter, env)
            if not isinstance(seq, list):
                raise AnalysisError(f"guard `{short(e, 40)}`: iterable")
            vals = []
            for item in seq:
                env2 = dict(env)
                env2[g.target.id] = item
                if all(mini(c, env2) for c in g.ifs):
                    vals.append(mini(arg.elt, env2))
        else:
            vals = mini(arg, env)
            if not isinstance(vals, list):
                raise AnalysisError(f"guard `{short(e, 40)}`: argument")
        return any(vals) if call_name(e) == "any" else all(vals)
    if isinstance(e, ast.Compare) and len(e.ops) == 1:
        a = mini(e.left, env)
        b = mini(e.comparators[0], env)
        op = e.ops[0]
        if isinstance(op, ast.Is):
            return a is b
        if isinstance(op, ast.IsNot):
            return a is not b
        if isinstance(op, ast.NotEq):
            return a != b
        if isinstance(op, ast.Eq):
            return a == b
    raise AnalysisError(f"guard `{short(e, 40)}` not understood")


def inline_names(e, func, depth=0):
    """replace names that have a single boolean-expression / literal
    tuple definition"""
    class T(ast.NodeTransformer):
        def visit_Name(self, node):
            if isinstance(node.ctx, ast.Load):
                ds = [n for n in walk(func) if isinstance(n, ast.Assign)
                      and len(n.targets) == 1 and isinstance(
                          n.targets[0], ast.Name)
                      and n.targets[0].id == node.id]
                if len(ds) == 1 and depth < 4 and (isinstance(
                        ds[0].value, (ast.BoolOp, ast.Compare, ast.Tuple,
                                      ast.List)) or (
                        isinstance(ds[0].value, ast.UnaryOp) and isinstance(
                            ds[0].value.op, ast.Not)) or (
                        isinstance(ds[0].value, ast.Call) and call_name(
                            ds[0].value) in ("any", "all"))):
                    return inline_names(_fresh(ds[0].value), func,
                                        depth + 1)
            return node
    return T().visit(_fresh(e))


def law_of(ctx, repo, fname, first_param_feature, want):
    # (a shared private helper that carries the law is read in place)
    f = inline_helpers(repo, SCALE, repo.func(SCALE, fname))
    params = [a.arg for a in f.args.args]
    rets = [r for r in walk(f) if isinstance(r, ast.Return)]
    augs = {txt(n.target) for n in walk(f) if isinstance(n, ast.AugAssign)}
    main = [r for r in rets if r is f.body[-1] and isinstance(
        r.value, ast.Name) and r.value.id in augs]
    if len(main) != 1:
        raise AnalysisError(f"{fname}: return shape")
    # other returns are early exits (a factor of one): where they may be
    # taken is decided with the guard below, what they return by R5.1
    early = [r for r in rets if r is not main[0]]
    rv = main[0].value.id
    muls = [n for n in walk(f) if isinstance(n, ast.AugAssign)
            and txt(n.target) == rv]
    if len(muls) != 1 or not isinstance(muls[0].op, (ast.Mult, ast.Div)):
        raise AnalysisError(f"{fname}: expected one multiplicative update "
                            f"of `{rv}`")
    mul = muls[0]

    def res(node, depth=0):
        if isinstance(node, ast.Name):
            if node.id in params:
                return node.id
            d = single_def(f, node.id)
            if d is None or depth > 6:
                raise AnalysisError(f"{fname}: factor mentions `{node.id}` "
                                    "which is not a parameter or a local "
                                    "bound once")
            return ratfun(d.value, lambda n_: res(n_, depth + 1))
        return None
    consts = {}
    for n_ in walk(f):
        if isinstance(n_, ast.Assign) and len(n_.targets) == 1 \
                and isinstance(n_.targets[0], ast.Name) and isinstance(
                    n_.value, ast.Constant) and isinstance(
                    n_.value.value, (int, float)):
            d_ = single_def(f, n_.targets[0].id)
            if d_ is n_:
                consts[n_.targets[0].id] = n_.value
    factor = _Subst(consts).visit(_fresh(mul.value)) if consts \
        else mul.value
    r = ratfun(factor, res)
    if isinstance(mul.op, ast.Div):
        r = r ** -1
    mono = r.monomial()
    ok = mono is not None and mono[0] == want and mono[1] == 1
    pretty = " ".join(f"{k}^{v}" for k, v in sorted(want.items()))
    ctx.ob("R5.2", ok,
           f"{fname} multiplies by {pretty}" if ok else
           f"{fname} multiplies by `{short(mul.value, 60)}` = "
           f"{_mono_txt(mono)}, expected {pretty}",
           node=mul, label=f"{fname} law")
    # result variable is a copy-or-alias of the data according to inplace
    ds = [n for n in walk(f) if isinstance(n, ast.Assign)
          and txt(n.targets[0]) == rv]
    ok = len(ds) == 1 and isinstance(ds[0].value, ast.Call) and call_name(
        ds[0].value) == "np.array" and txt(ds[0].value.args[0]) == params[0]
    ctx.ob("R5.2", ok, f"{fname} scales (a copy of) its first argument "
           f"`{params[0]}` and returns it" if ok else
           f"{fname}: `{rv}` is not np.array({params[0]}, copy=..)",
           node=ds[0] if ds else f, label=f"{fname} operand",
           nontrivial=False)
    # with inplace=True the very object that was passed is scaled: callers
    # (get_emodulus on the LUT columns) discard the return value
    why = None
    if ok:
        c_ = ds[0].value
        fr = Fresh(repo)
        cp = kwarg(c_, "copy")
        v_t = fr.boolv(cp, fr.local_env(f, {"inplace": True})) \
            if cp is not None else True
        v_f = fr.boolv(cp, fr.local_env(f, {"inplace": False})) \
            if cp is not None else True
        extra = [kw.arg for kw in c_.keywords if kw.arg != "copy"] + (
            ["positional"] if len(c_.args) > 1 else [])
        rebind = [n for n in walk(f) if isinstance(
            n, (ast.Assign, ast.AugAssign, ast.AnnAssign)) and any(
            isinstance(t, ast.Name) and t.id == params[0]
            for t in (n.targets if isinstance(n, ast.Assign)
                      else [n.target]))]
        if v_t is not False or v_f is not True:
            why = (f"`{short(c_, 40)}` does not copy exactly when inplace "
                   "is False")
        elif extra:
            why = (f"`{short(c_, 40)}` converts ({', '.join(extra)}): for "
                   "input of another dtype a new array is scaled and the "
                   "object passed with inplace=True stays unscaled")
        elif rebind:
            why = (f"`{short(rebind[0], 40)}` re-binds `{params[0]}` before "
                   "the in-place scaling: when the conversion copies (other "
                   "dtype, e.g. a float32 LUT) the object passed with "
                   "inplace=True stays unscaled – get_emodulus discards the "
                   "return value")
    ctx.ob("R5.2", ok and why is None,
           f"{fname}(inplace=True) scales the very object it was given "
           "(no conversion or re-binding in between)" if ok and why is None
           else f"{fname}: {why or 'operand not understood'}",
           node=ds[0] if ds else f, label=f"{fname} in-place identity")
    # guard: skipped only when the factor is 1 – path condition of the
    # update: enclosing tests (with polarity) and the negation of every
    # earlier test whose branch returns
    conds = []
    n = mul
    while n is not f:
        p = n.parent
        if isinstance(p, ast.If):
            conds.append((p.test, not any(n is s for s in p.orelse)))
        elif not isinstance(p, ast.FunctionDef):
            raise AnalysisError(f"{fname}: factor inside a {type(p).__name__}")
        n = p
    for r in early:
        q = r.parent
        if not (isinstance(q, ast.If) and any(r is s for s in q.body)
                and q.parent is f and not q.orelse
                and q.lineno < mul.lineno):
            raise AnalysisError(f"{fname}: early return shape")
        conds.append((q.test, False))
    bad = None
    if conds:
        pairs = sorted({k.rsplit("_", 1)[0] for k in want})
        base = {p: 1.0 for p in params}
        base["np"] = None
        for pr in pairs:
            env = dict(base)
            env[pr + "_out"] = 2.0
            for test, pol in conds:
                if bool(mini(inline_names(test, f), env)) != pol:
                    bad = (f"a change of {pr} alone does not reach the "
                           f"factor (`{short(test, 40)}`): it is skipped")
    ctx.ob("R5.2", bad is None,
           f"{fname}: the factor is applied whenever one of its ratios "
           "differs from 1" if bad is None else f"{fname}: {bad}",
           node=mul, label=f"{fname} guard")
    return f


def _mono_txt(m):
    if m is None:
        return "not a monomial"
    return " ".join(f"{k}^{v}" for k, v in sorted(m[0].items())) + (
        f" (coefficient {m[1]})" if m[1] != 1 else "")


def r52(ctx, repo):
    dims = unit_dimensions(repo)
    for feat in ("area_um", "volume"):
        if feat not in dims:
            raise AnalysisError(f"load_mtext: unit declaration of {feat}")
    ctx.stat("R5.2 length dimensions from load_mtext", dims)
    law_of(ctx, repo, "scale_area_um", "area_um",
           {"channel_width_out": dims["area_um"],
            "channel_width_in": -dims["area_um"]})
    law_of(ctx, repo, "scale_volume", "volume",
           {"channel_width_out": dims["volume"],
            "channel_width_in": -dims["volume"]})
    law_of(ctx, repo, "scale_emodulus", "emodulus", dict(E_LAW))
    # dispatch
    sf = repo.func(SCALE, "scale_feature")
    sp = [a.arg for a in sf.args.args]
    if sp[:3] != ["feat", "data", "inplace"] or sf.args.kwarg is None:
        raise AnalysisError("scale_feature: signature changed")
    kwname = sf.args.kwarg.arg
    seen = set()
    sbranches, srest = dispatch_branches(sf, "scale_feature")
    for ft in ("area_um", "circ", "deform", "emodulus", "volume"):
        hit = first_branch(sbranches, {"feat": ft}, "scale_feature")
        if hit is None:
            continue
        feats = [ft]
        sbody = hit[1]
        c, _st = branch_value(sbody, None, "scale_feature")
        if c is None:
            continue        # this feature is rejected
        if not isinstance(c, ast.Call):
            raise AnalysisError("scale_feature: branch shape")
        for ft in feats:
            seen.add(ft)
            if dims.get(ft, None) == 0 or ft in ("circ", "deform"):
                ok = call_name(c) == "np.array" and txt(c.args[0]) == "data" \
                    and txt(kwarg(c, "copy")) == "not inplace"
                ctx.ob("R5.2", ok,
                       f"'{ft}' has no unit and is returned unscaled (copy "
                       "unless inplace)" if ok else
                       f"'{ft}' is dimensionless but `{short(c, 40)}` is "
                       "returned", node=c,
                       key=f"{SCALE}::scale_feature::dispatch {ft}")
                continue
            want_fn = "scale_" + ft
            first = [a.arg for a in repo.func(
                SCALE, want_fn).args.args][0] if repo.func(
                SCALE, want_fn, missing_ok=True) else None
            ok = call_name(c) == want_fn
            fw = ok and (txt(kwarg(c, first, 0)) == "data") and txt(
                kwarg(c, "inplace")) == "inplace" and any(
                kw.arg is None and txt(kw.value) == kwname
                for kw in c.keywords)
            ctx.ob("R5.2", bool(ok and fw),
                   f"'{ft}' is scaled by {want_fn}(data, inplace=inplace, "
                   f"**{kwname})" if ok and fw else
                   (f"'{ft}' is dispatched to `{call_name(c)}`, expected "
                    f"{want_fn}" if not ok else
                    f"`{short(c, 60)}` does not forward data, inplace and "
                    f"**{kwname} – an in-place request is silently ignored "
                    "or the scale parameters are lost"), node=c,
                   key=f"{SCALE}::scale_feature::dispatch {ft}")
    for ft in ("area_um", "volume", "emodulus", "deform"):
        if ft not in seen:
            raise AnalysisError(f"scale_feature: no branch for '{ft}'")
    reb = [n for n in walk(sf) if isinstance(n, (ast.Assign, ast.AugAssign))
           and any(isinstance(t, ast.Name) and t.id == "data"
                   for t in (n.targets if isinstance(n, ast.Assign)
                             else [n.target]))]
    ctx.ob("R5.2", not reb, "scale_feature passes the object it was given "
           "(no conversion before the dispatch)" if not reb else
           f"scale_feature: `{short(reb[0], 40)}` re-binds `data` before "
           "the dispatch: an in-place request may act on a converted copy",
           node=reb[0] if reb else sf,
           key=f"{SCALE}::scale_feature::in-place identity")


# ----------------------------------------------------------------------
# R5.3

META_KEYS = {"channel_width": "channel_width", "flow_rate": "flow_rate",
             "viscosity": "fluid_viscosity"}


def r53(ctx, repo, m):
    f = m.f
    actual = {"channel_width": "channel_width", "flow_rate": "flow_rate",
              "viscosity": m.visco}
    # route B
    skB, sB = dict_in(m.routeB, "scale_kw")
    if skB is None:
        raise AnalysisError("get_emodulus: scale_kw of the global route")
    bad = []
    for q, mk in META_KEYS.items():
        vin, vout = skB.get(q + "_in"), skB.get(q + "_out")
        if vin is None or vout is None:
            bad.append(f"{q}_in/_out missing")
            continue
        if txt(vin) != f"{m.meta}['{mk}']":
            bad.append(f"{q}_in is `{txt(vin)}`, expected the LUT's "
                       f"{m.meta}['{mk}']")
        if txt(vout) != actual[q]:
            bad.append(f"{q}_out is `{txt(vout)}`, expected the "
                       f"experiment's `{actual[q]}`")
    ctx.ob("R5.3", not bad,
           "global route: the LUT is scaled from its own (width, flow rate, "
           "viscosity) to the experiment's" if not bad else
           "global route: " + "; ".join(bad), node=sB,
           label="route B direction")
    # applications in route B
    apps = {}
    for s in m.routeB:
        for c in find_calls(s, name="scale_feature") + find_calls(
                s, name="scale_emodulus"):
            star = [kw for kw in c.keywords if kw.arg is None]
            data = kwarg(c, "data") if call_name(c) == "scale_feature" \
                else kwarg(c, "emodulus", 0)
            if data is None:
                raise AnalysisError("get_emodulus: data argument of "
                                    f"`{short(c, 40)}`")
            apps[alias_txt(m.routeB, data)] = (
                c, txt(star[0].value) if star else None,
                               txt(kwarg(c, "feat")) if call_name(c) ==
                               "scale_feature" else "emodulus")
    want = {f"{m.lut}[:, 0]": ("scale_kw", m.featx),
            f"{m.lut}[:, 2]": ("scale_kw", "emodulus")}
    have = {k: (v[1], v[2]) for k, v in apps.items()}
    ok = have == want
    ctx.ob("R5.3", ok,
           f"global route: column 0 is scaled as `{m.featx}` and column 2 "
           "as emodulus with scale_kw; the deformation column is not scaled"
           if ok else f"global route scales {have}, expected {want}",
           node=sB, label="route B applications")
    # route A
    skA, sA = dict_in(m.routeA, "scale_kw")
    bkA, sbA = dict_in(m.routeA, "backscale_kw")
    if skA is None or bkA is None:
        raise AnalysisError("get_emodulus: scale_kw / backscale_kw of the "
                            "per-event route")
    ok = set(skA) - {"inplace"} == {"channel_width_in", "channel_width_out"} \
        and txt(skA["channel_width_in"]) == txt(
            skB.get("channel_width_out")) and txt(
            skA["channel_width_out"]) == txt(skB.get("channel_width_in"))
    ctx.ob("R5.3", ok,
           "per-event route: the data are moved to the LUT's channel width "
           "(width entries of the global route swapped)" if ok else
           "per-event route: the forward scaling of the data is not the "
           f"inverse of the global route's width scaling: "
           f"{ {k: txt(v) for k, v in skA.items()} }", node=sA,
           label="route A forward is inverse")
    diff = [k for k in sorted(set(skB) | set(bkA))
            if txt(skB.get(k)) != txt(bkA.get(k))]
    ctx.ob("R5.3", not diff,
           "per-event route: the result is scaled back with exactly the "
           "parameters the global route applies to the LUT" if not diff else
           f"per-event route: backscale_kw differs from the global route's "
           f"scale_kw in {diff} – the two routes give different moduli for "
           "the same event", node=sbA, label="route A back-scaling equals B")
    # applications in route A
    fw = [c for s in m.routeA for c in find_calls(s, name="scale_feature")
          if any(kw.arg is None and txt(kw.value) == "scale_kw"
                 for kw in c.keywords)]
    ok = len(fw) == 1 and txt(kwarg(fw[0], "feat")) == m.featx and isinstance(
        fw[0].parent, ast.Assign)
    xdata = txt(kwarg(fw[0], "data")) if fw else "?"
    x4 = txt(fw[0].parent.targets[0]) if ok else "?"
    ctx.ob("R5.3", ok,
           f"per-event route: `{xdata}` is scaled as `{m.featx}` into "
           f"`{x4}`" if ok else "per-event route: forward scaling of the "
           "abscissa lost", node=fw[0] if fw else sA,
           label="route A forward application")
    em = [c for s in m.routeA for c in find_calls(s, name="scale_emodulus")]
    gd = [c for s in m.routeA for c in find_calls(s, attr="griddata")]
    if len(em) != 1 or len(gd) != 1 or not isinstance(
            gd[0].parent, ast.Assign):
        raise AnalysisError("get_emodulus: per-event route: interpolation / "
                            "back-scaling calls not found")

    def pos_a(n_):
        while not any(n_ is s_ for s_ in m.routeA):
            n_ = n_.parent
        return [i for i, s_ in enumerate(m.routeA) if s_ is n_][0]
    earg = kwarg(em[0], "emodulus", 0)
    ename = root_def(m.routeA, earg)[0] if isinstance(earg, ast.Name) \
        else None
    ok = ename is not None and ename == txt(gd[0].parent.targets[0]) and any(
        kw.arg is None and txt(kw.value) == "backscale_kw"
        for kw in em[0].keywords) and pos_a(em[0]) > pos_a(gd[0])
    ctx.ob("R5.3", ok,
           "per-event route: the interpolated modulus is scaled back with "
           "backscale_kw after the interpolation" if ok else
           "per-event route: back-scaling of the interpolated modulus lost "
           "or misplaced", node=em[0] if em else sbA,
           label="route A back application")
    return x4


# ----------------------------------------------------------------------
# R5.4

def r54(ctx, repo, m):
    f = m.f
    px = m.px_if
    body_idx = {id(s): i for i, s in enumerate(f.body)}
    aug = [n for n in walk(px) if isinstance(n, ast.AugAssign)]
    if len(aug) != 1 or not isinstance(aug[0].value, ast.Call):
        raise AnalysisError("get_emodulus: pixelation statement shape")
    a = aug[0]
    c = a.value
    ok = isinstance(a.op, ast.Sub) and txt(a.target) == "deform"
    ctx.ob("R5.4", ok, "the pixelation offset is subtracted from the "
           "deformation" if ok else
           f"`{short(a, 50)}` does not subtract the offset from the "
           "deformation", node=a, label="offset subtracted")
    # abscissa data: the variable handed to the correction must originate
    # from the input named like the LUT's first column feature (executed
    # symbolically for both kinds of LUT)
    da = kwarg(c, "data_absc", 2)
    if not isinstance(da, ast.Name):
        raise AnalysisError("get_emodulus: abscissa data variable")
    xv = da.id
    m.xv = xv
    origins = abscissa_origin(m, px, xv)
    for want in ("area_um", "volume"):
        env = origins[want]
        if env is None:
            raise AnalysisError(f"get_emodulus: a LUT over '{want}' is "
                                "rejected")
        got = env.get(xv)
        ok = got == ("input", want)
        ctx.ob("R5.4", ok,
               f"a LUT over '{want}' interpolates at the `{want}` input"
               if ok else f"for a LUT over '{want}' the abscissa `{xv}` is "
               f"taken from {got}", node=c,
               label=f"abscissa input {want}")
    xdefs = [s_ for s_ in walk(f) if isinstance(s_, ast.Assign) and any(
        isinstance(t, ast.Name) and t.id == xv for t in s_.targets)]
    if not xdefs:
        raise AnalysisError("get_emodulus: abscissa data variable")
    kws = {kw.arg: txt(kw.value) for kw in c.keywords}
    want = {"feat_corr": m.featy, "feat_absc": m.featx, "data_absc": xv,
            "px_um": "px_um"}
    ok = kws == want and not c.args
    ctx.ob("R5.4", ok,
           f"the offset of `{m.featy}` is computed from the abscissa "
           f"`{xv}` of feature `{m.featx}` and the pixel size" if ok else
           f"get_pixelation_delta receives {kws}, expected {want}",
           node=c, label="offset arguments")
    ok = txt(px.test) in ("px_um", "px_um != 0", "px_um > 0") \
        and not px.orelse
    ctx.ob("R5.4", ok, "a pixel size of zero disables the correction" if ok
           else f"correction guarded by `{txt(px.test)}`", node=px,
           label="zero disables", nontrivial=False)
    # order: before the route split, no in-place op on the abscissa earlier
    early = []
    for s in f.body[:body_idx[id(px)]]:
        for n in walk(s):
            if isinstance(n, ast.Call) and call_name(n) in (
                    "normalize", "scale_feature", "scale_area_um",
                    "scale_volume") or isinstance(n, ast.AugAssign):
                early.append(n)
    def top_idx(n):
        while id(n) not in body_idx:
            n = n.parent
        return body_idx[id(n)]
    xin = [s for s in xdefs if top_idx(s) < body_idx[id(m.split)]]
    if not xin:
        raise AnalysisError("get_emodulus: the abscissa is not bound before "
                            "the route split")
    ok = body_idx[id(px)] < body_idx[id(m.split)] and not early and all(
        top_idx(s) < body_idx[id(px)] for s in xin)
    ctx.ob("R5.4", ok,
           "the correction uses the unscaled abscissa: it runs after the "
           "inputs are copied and before the route split where all scaling "
           "and normalisation happens" if ok else
           "the pixelation correction does not precede the scaling / "
           "normalisation of the abscissa", node=px,
           label="correction before scaling")
    # dispatch of get_pixelation_delta
    g = repo.func(PX, "get_pixelation_delta")
    table = {}
    gbranches, grest = dispatch_branches(g, "get_pixelation_delta")
    # name of the result variable when branches assign instead of return
    gret = [r for r in grest if isinstance(r, ast.Return)]
    gname = gret[0].value.id if gret and isinstance(
        gret[0].value, ast.Name) else None
    for corr in ("deform", "circ"):
        for absc in ("area_um", "volume"):
            hit = first_branch(gbranches, {"feat_corr": corr,
                                           "feat_absc": absc},
                               "get_pixelation_delta")
            if hit is None:
                continue
            v, vst = branch_value(hit[1], gname, "get_pixelation_delta")
            if v is None:
                continue
            if isinstance(vst, ast.Assign) and gname is None:
                raise AnalysisError("get_pixelation_delta: assigned result "
                                    "is not returned")
            sign = 1
            if isinstance(v, ast.UnaryOp) and isinstance(v.op, ast.USub):
                sign, v = -1, v.operand
            elif isinstance(v, ast.BinOp) and isinstance(
                    v.op, ast.Mult) and txt(v.left) in ("-1", "(-1)"):
                sign, v = -1, v.right
            if not isinstance(v, ast.Call):
                raise AnalysisError("get_pixelation_delta: branch value "
                                    f"`{short(v, 40)}`")
            table[(corr, absc)] = (
                sign, call_name(v), txt(v.args[0]) if v.args else None,
                txt(kwarg(v, "px_um", 1)), vst)
    dims = unit_dimensions(repo)
    for absc in ("area_um", "volume"):
        d = table.get(("deform", absc))
        cc = table.get(("circ", absc))
        if d is None or cc is None:
            raise AnalysisError("get_pixelation_delta: branches for "
                                f"abscissa {absc} lost")
        fn = "corr_deform_with_" + absc
        ok = d[0] == 1 and d[1] == fn and d[2] == "data_absc" \
            and d[3] == "px_um"
        ctx.ob("R5.4", ok,
               f"deform over {absc}: +{fn}(data_absc, px_um)" if ok else
               f"deform over {absc}: {'+' if d[0] > 0 else '-'}{d[1]}"
               f"({d[2]}, px_um={d[3]}), expected +{fn}(data_absc, px_um)",
               node=d[4], label=f"delta deform/{absc}")
        ok = cc[0] == -d[0] and cc[1:4] == d[1:4]
        ctx.ob("R5.4", ok,
               f"circ over {absc}: the negative of the deform offset "
               "(circ = 1 - deform)" if ok else
               f"circ over {absc}: {'+' if cc[0] > 0 else '-'}{cc[1]}"
               f"({cc[2]}) is not the negative of the deform offset",
               node=cc[4], label=f"delta circ/{absc}")
        # pixel-size scale has the dimension of the abscissa
        cf = repo.func(PX, fn)
        p = [x.arg for x in cf.args.args]
        mut = sorted(inplace_params(cf))
        ctx.ob("R5.4", not mut,
               f"{fn} does not modify its arguments" if not mut else
               f"{fn} modifies its argument `{mut[0]}` in place: the "
               "abscissa that get_emodulus hands over (its private copy, or "
               "the caller's array with copy=False) is rescaled before the "
               "interpolation", node=cf, label=f"{fn} arguments untouched")
        if mut:
            continue
        sc = [n for n in walk(cf) if isinstance(n, ast.Assign)
              and isinstance(n.targets[0], ast.Name)
              and "px_um" in names_in(n.value)]
        if len(sc) != 1:
            raise AnalysisError(f"{fn}: pixel scale definition")
        scn = sc[0].targets[0].id

        def res(node):
            if isinstance(node, ast.Name):
                return node.id
            return None
        mono = ratfun(sc[0].value, res).monomial()
        ok = mono is not None and mono[0] == {"px_um": -dims[absc]}
        ctx.ob("R5.4", ok,
               f"{fn}: the reference-pixel scale is (ref/px_um)^"
               f"{dims[absc]}, the length dimension of {absc}" if ok else
               f"{fn}: pixel scale `{short(sc[0].value, 30)}` does not have "
               f"the dimension px_um^-{dims[absc]} of {absc}",
               node=sc[0], label=f"{fn} pixel scale")
        cfu = unroll_tables(repo, PX, cf)
        exps = [c2 for c2 in find_calls(cfu, name="np.exp")]
        bad = None
        for e in exps:
            def res2(node, depth=0):
                if isinstance(node, ast.Name):
                    if node.id in (p[0], scn):
                        return node.id
                    d_ = single_def(cfu, node.id)
                    if d_ is None or depth > 6:
                        raise AnalysisError(
                            f"{fn}: `{node.id}` in `{short(e, 40)}` is not "
                            "the abscissa, the pixel scale or a local bound "
                            "once")
                    return ratfun(d_.value,
                                  lambda n_: res2(n_, depth + 1))
                return None
            mo = ratfun(e.args[0], res2).monomial()
            if mo is None or mo[0] != {p[0]: 1, scn: 1} or mo[1] >= 0:
                bad = e
        ok = len(exps) >= 1 and bad is None
        ctx.ob("R5.4", ok,
               f"{fn}: every exponential decays in {p[0]} * {scn}" if ok
               else f"{fn}: `{short(bad or cf, 40)}` is not a decay in "
               f"{p[0]} * {scn}", node=cf,
               label=f"{fn} decays")
        rets = [r for r in walk(cf) if isinstance(r, ast.Return)]
        total = straight_line_value(cfu, fn)
        terms = []

        def flat(x):
            if isinstance(x, ast.BinOp) and isinstance(x.op, ast.Add):
                flat(x.left)
                flat(x.right)
            else:
                terms.append(x)
        flat(total)
        consts = [t for t in terms if not find_calls(t, name="np.exp")]
        decays = [t for t in terms if find_calls(t, name="np.exp")]
        for t in consts:
            if not (isinstance(t, ast.Constant) and isinstance(
                    t.value, (int, float))):
                raise AnalysisError(f"{fn}: term `{short(t, 30)}` of the "
                                    "offset not understood")
        for t in decays:
            if not (isinstance(t, ast.BinOp) and isinstance(
                    t.op, ast.Mult) and len(find_calls(
                        t, name="np.exp")) == 1):
                raise AnalysisError(f"{fn}: term `{short(t, 40)}` of the "
                                    "offset not understood")
        ok = len(consts) == 1 and len(decays) == len(exps) and len(
            {txt(t) for t in decays}) == len(decays)
        ctx.ob("R5.4", ok, f"{fn}: the offset is the sum of the constant "
               f"and all {len(exps)} exponential terms" if ok else
               f"{fn}: the returned offset sums {len(consts)} constant(s) "
               f"and {len(decays)} exponential term(s), the function "
               f"computes {len(exps)} exponentials – a term is dropped or "
               "counted twice", node=rets[0] if rets else cf,
               label=f"{fn} sum")


# ----------------------------------------------------------------------
class _Subst(ast.NodeTransformer):
    def __init__(self, env):
        self.env = env

    def visit_Name(self, node):
        if isinstance(node.ctx, ast.Load) and node.id in self.env:
            return _fresh(self.env[node.id])
        return node


def _literal_table(repo, rel, e):
    """rows of a literal tuple/list table (given directly or as a
    module-level constant), else None"""
    if isinstance(e, ast.Name):
        e = repo.module_assign(rel, e.id, missing_ok=True)
    if isinstance(e, (ast.Tuple, ast.List)) and e.elts and all(
            isinstance(r, (ast.Tuple, ast.List, ast.Constant, ast.UnaryOp))
            for r in e.elts):
        return list(e.elts)
    return None


def _bind_row(target, row, what):
    if isinstance(target, ast.Name):
        return {target.id: row}
    if isinstance(target, (ast.Tuple, ast.List)) and isinstance(
            row, (ast.Tuple, ast.List)) and len(target.elts) == len(
            row.elts) and all(isinstance(t, ast.Name) for t in target.elts):
        return {t.id: v for t, v in zip(target.elts, row.elts)}
    raise AnalysisError(f"{what}: loop target does not match the table rows")


def unroll_tables(repo, rel, func):
    """copy of func in which `for .. in <literal table>` loops and
    `sum(<comprehension over a literal table>)` are written out"""
    new = ast.parse(txt(func)).body[0]
    what = func.name
    # local closures with a single return expression are written out at
    # their call sites (free variables stay names of the enclosing scope)
    clos = {}
    for st in list(new.body):
        if isinstance(st, ast.FunctionDef):
            body = [x for x in st.body if not (isinstance(x, ast.Expr)
                                               and isinstance(
                                                   x.value, ast.Constant))]
            a_ = st.args
            if len(body) == 1 and isinstance(body[0], ast.Return) \
                    and body[0].value is not None and not (
                    a_.vararg or a_.kwarg or a_.kwonlyargs or a_.defaults
                    or st.decorator_list):
                clos[st.name] = ([x.arg for x in a_.args], body[0].value)
                new.body.remove(st)

    class C(ast.NodeTransformer):
        def visit_Call(self, node):
            self.generic_visit(node)
            if isinstance(node.func, ast.Name) and node.func.id in clos:
                pars, expr = clos[node.func.id]
                bind = {}
                for p_, a in zip(pars, node.args):
                    bind[p_] = a
                for kw in node.keywords:
                    if kw.arg in pars:
                        bind[kw.arg] = kw.value
                if set(bind) != set(pars):
                    raise AnalysisError(f"{what}: call of the local "
                                        f"function `{node.func.id}`")
                return _Subst(bind).visit(_fresh(expr))
            return node
    if clos:
        new = ast.parse(txt(ast.fix_missing_locations(
            C().visit(new)))).body[0]

    class U(ast.NodeTransformer):
        def visit_For(self, node):
            self.generic_visit(node)
            rows = _literal_table(repo, rel, node.iter)
            if rows is None or node.orelse:
                return node
            out = []
            for r in rows:
                env = _bind_row(node.target, r, what)
                for st in node.body:
                    out.append(_Subst(env).visit(
                        ast.parse(txt(st)).body[0]))
            return out

        def visit_Call(self, node):
            self.generic_visit(node)
            if call_name(node) in ("sum", "np.sum") and node.args and \
                    isinstance(node.args[0], (ast.GeneratorExp,
                                              ast.ListComp)) \
                    and len(node.args[0].generators) == 1 \
                    and not node.args[0].generators[0].ifs:
                g = node.args[0].generators[0]
                rows = _literal_table(repo, rel, g.iter)
                if rows is None:
                    return node
                terms = [_Subst(_bind_row(g.target, r, what)).visit(
                    _fresh(node.args[0].elt)) for r in rows]
                if len(node.args) > 1:
                    terms.insert(0, node.args[1])
                acc = terms[0]
                for t in terms[1:]:
                    acc = ast.BinOp(left=acc, op=ast.Add(), right=t)
                return acc
            return node
    new = ast.fix_missing_locations(U().visit(new))
    new = ast.parse(txt(new)).body[0]
    from ..core import link
    link(new)
    return new


def straight_line_value(func, what):
    """expression returned by a function made of plain assignments, with
    every local substituted"""
    env = {}
    body = [s for s in func.body if not (
        isinstance(s, ast.Expr) and isinstance(s.value, ast.Constant))]
    for st in body:
        if isinstance(st, ast.Assign) and len(st.targets) == 1 \
                and isinstance(st.targets[0], ast.Name):
            env[st.targets[0].id] = _Subst(env).visit(_fresh(st.value))
        elif isinstance(st, ast.AugAssign) and isinstance(
                st.target, ast.Name) and st.target.id in env:
            env[st.target.id] = ast.BinOp(
                left=env[st.target.id], op=st.op,
                right=_Subst(env).visit(_fresh(st.value)))
        elif isinstance(st, ast.Return) and st.value is not None \
                and st is body[-1]:
            return _Subst(env).visit(_fresh(st.value))
        else:
            raise AnalysisError(f"{what}: statement `{short(st, 40)}` not "
                                "understood")
    raise AnalysisError(f"{what}: no final return")


def abscissa_origin(m, upto, xv_name):
    """for each abscissa feature of a LUT: which input of get_emodulus
    reaches the variable handed to the pixelation correction – by executing
    the statements before the correction on symbolic inputs"""
    f = m.f
    start = [i for i, s in enumerate(f.body) if isinstance(s, ast.Assign)
             and isinstance(s.targets[0], ast.Tuple)
             and "column features" in txt(s.value)]
    stop = [i for i, s in enumerate(f.body) if s is upto]
    split = [i for i, s in enumerate(f.body) if s is m.split]
    if len(start) != 1 or len(stop) != 1 or len(split) != 1:
        raise AnalysisError("get_emodulus: feature selection block")
    # (the inputs are selected before the route split; a correction that
    # was moved behind it is reported by the ordering obligation)
    stop = [min(stop[0], split[0])]
    stmts = f.body[start[0] + 1:stop[0]]
    PASS = {"np.array", "np.asarray", "np.atleast_1d", "np.ascontiguousarray",
            "numpy.array", "np.copy"}

    class Raises(Exception):
        pass

    def val(e, env):
        if isinstance(e, ast.Constant):
            return e.value
        if isinstance(e, ast.Name):
            return env.get(e.id, ("opaque", e.id))
        if isinstance(e, (ast.Tuple, ast.List)):
            return tuple(val(x, env) for x in e.elts)
        if isinstance(e, ast.IfExp):
            try:
                return val(e.body if test(e.test, env) else e.orelse, env)
            except AnalysisError:
                a_, b_ = val(e.body, env), val(e.orelse, env)
                return a_ if a_ == b_ else ("opaque", short(e, 30))
        if isinstance(e, ast.Call) and call_name(e) in PASS and e.args:
            return val(e.args[0], env)
        if isinstance(e, ast.Call) and last_attr(e) in (
                "copy", "astype") and isinstance(e.func, ast.Attribute):
            return val(e.func.value, env)
        if isinstance(e, ast.Subscript) and isinstance(
                e.slice, ast.Constant) and isinstance(
                val(e.value, env), tuple):
            return val(e.value, env)[e.slice.value]
        return ("opaque", short(e, 30))

    def test(e, env):
        senv = {k: v for k, v in env.items() if isinstance(v, str)}
        return seval(e, senv, "get_emodulus (feature selection)")

    def run(body, env):
        for st in body:
            if isinstance(st, ast.If):
                try:
                    t_ = test(st.test, env)
                except AnalysisError:
                    if names_in(st) & {xv_name}:
                        raise
                    continue
                run(st.body if t_ else st.orelse, env)
            elif isinstance(st, ast.Raise):
                raise Raises()
            elif isinstance(st, ast.Assign) and len(st.targets) == 1:
                t = st.targets[0]
                v = val(st.value, env)
                if isinstance(t, ast.Name):
                    env[t.id] = v
                elif isinstance(t, (ast.Tuple, ast.List)) and isinstance(
                        v, tuple) and len(v) == len(t.elts):
                    for x, y in zip(t.elts, v):
                        if isinstance(x, ast.Name):
                            env[x.id] = y
                elif isinstance(t, (ast.Tuple, ast.List)):
                    for x in t.elts:
                        if isinstance(x, ast.Name):
                            env[x.id] = ("opaque", x.id)
            elif isinstance(st, (ast.Assert, ast.Expr, ast.Pass,
                                 ast.AugAssign)):
                continue
            else:
                raise AnalysisError("get_emodulus: statement "
                                    f"`{short(st, 40)}` in the feature "
                                    "selection not understood")
    out = {}
    for feat in ("area_um", "volume"):
        env = {m.featx: feat, m.featy: "deform",
               "area_um": ("input", "area_um"), "volume": ("input",
                                                            "volume"),
               "deform": ("input", "deform")}
        try:
            run(stmts, env)
        except Raises:
            out[feat] = None
            continue
        out[feat] = env
    return out


# ----------------------------------------------------------------------
# R5.5

def r55(ctx, repo, m, x4):
    f = m.f
    for which, stmts in (("A", m.routeA), ("B", m.routeB)):
        gd = [c for s in stmts for c in find_calls(s, attr="griddata")]
        if len(gd) != 1:
            raise AnalysisError(f"route {which}: griddata call")
        g = gd[0]
        meth = kwarg(g, "method", 3)
        ok = const_str(meth) == "linear"
        ctx.ob("R5.5", ok, "piecewise-linear interpolation" if ok else
               f"interpolation method is {txt(meth)}", node=g,
               label=f"[{which}] method linear")
        extra = [kw.arg for kw in g.keywords
                 if kw.arg in ("fill_value", "rescale")] + (
            ["positional"] if len(g.args) > 4 else [])
        ctx.ob("R5.5", not extra, "no fill value (NaN outside the support) "
               "and no rescaling" if not extra else
               f"griddata is called with {extra}: events outside the LUT "
               "get a number / the triangulation changes", node=g,
               label=f"[{which}] no fill_value/rescale")
        pts, vals, xi = kwarg(g, "points", 0), kwarg(g, "values", 1), kwarg(
            g, "xi", 2)
        if not (isinstance(pts, ast.Tuple) and isinstance(xi, ast.Tuple)
                and len(pts.elts) == 2 and len(xi.elts) == 2):
            raise AnalysisError(f"route {which}: griddata arguments")
        ok = [alias_txt(stmts, e) for e in pts.elts] == [
            f"{m.lut}[:, 0]", f"{m.lut}[:, 1]"] \
            and alias_txt(stmts, vals) == f"{m.lut}[:, 2]"
        ctx.ob("R5.5", ok, "points are LUT columns (0, 1), values column 2"
               if ok else f"griddata interpolates {txt(vals)} over "
               f"{txt(pts)}", node=g, label=f"[{which}] LUT columns")
        xd, yd = [txt(e) for e in xi.elts]
        # data roles
        if which == "B":
            okx = xd == getattr(m, "xv", None) and yd == "deform"
        else:
            ydef = [s for s in m.routeA if isinstance(s, ast.Assign)
                    and txt(s.targets[0]) == yd]
            okx = xd == x4 and len(ydef) == 1 and "deform" in names_in(
                ydef[0].value) and not names_in(ydef[0].value) & {
                    "area_um", "volume", getattr(m, "xv", None), x4}
        ctx.ob("R5.5", okx,
               f"the query points are (abscissa `{xd}`, corrected "
               f"deformation `{yd}`)" if okx else
               f"query points ({xd}, {yd}) are not (abscissa, deformation)",
               node=g, label=f"[{which}] query roles")
        # normalisation: per axis, same divisor for LUT column and data,
        # divisor = column maximum taken after scaling
        pos = {id(s): i for i, s in enumerate(stmts)}

        def top(n):
            while not any(n is s for s in stmts):
                n = n.parent
            return pos[id(n)]
        norms = [c for s in stmts for c in find_calls(s, name="normalize")]
        scales = [c for s in stmts for c in find_calls(s, name="scale_feature")
                  + find_calls(s, name="scale_emodulus")
                  if top(c) < top(g)]
        for k, dnode in ((0, xi.elts[0]), (1, xi.elts[1])):
            col = f"{m.lut}[:, {k}]"
            data = txt(dnode)
            nl = [c for c in norms if c.args and alias_txt(
                stmts, c.args[0]) == col]
            nd = [c for c in norms if c.args and alias_txt(
                stmts, c.args[0]) == alias_txt(stmts, dnode)]
            lab = f"[{which}] normalisation axis {k}"
            if len(nl) != 1 or len(nd) != 1:
                ctx.ob("R5.5", False,
                       f"axis {k}: LUT column and data are not both "
                       f"normalised exactly once ({len(nl)}/{len(nd)})",
                       node=g, label=lab)
                continue
            if len(nl[0].args) != 2 or len(nd[0].args) != 2:
                raise AnalysisError("get_emodulus: normalize() arguments")
            why = None
            rl, ddef = root_def(stmts, nl[0].args[1])
            rd, _ = root_def(stmts, nd[0].args[1])
            dv = rl or txt(nl[0].args[1])
            if rl is None or rd is None:
                why = (f"the divisor `{short(nl[0].args[1], 30)}` / "
                       f"`{short(nd[0].args[1], 30)}` is not a value "
                       "computed once and shared by LUT column and data")
            elif rl != rd:
                why = (f"LUT column {k} is divided by `{rl}` but the data "
                       f"`{data}` by `{rd}`")
            elif ddef is None:
                raise AnalysisError(f"get_emodulus: divisor `{rl}` has no "
                                    "single definition in its route")
            elif alias_txt(stmts, ddef.value) not in (
                    f"{col}.max()", f"np.max({col})", f"np.amax({col})",
                    f"max({col})", f"np.nanmax({col})"):
                why = (f"the divisor `{dv}` = "
                       f"`{short(ddef.value, 30)}` is not the maximum of "
                       f"LUT column {k}")
            if why is None:
                d_at = top(ddef)
                if not (d_at < top(nl[0]) and d_at < top(nd[0])
                        and top(nl[0]) < top(g) and top(nd[0]) < top(g)):
                    why = ("the maximum is not taken before, or the "
                           "normalisation not done before, the "
                           "interpolation")
                late = [c for c in scales if alias_txt(stmts, kwarg(
                    c, "data") or kwarg(c, "emodulus", 0)).split(
                    "[")[0] == m.lut and top(c) > d_at]
                if why is None and late:
                    why = (f"`{short(late[0], 40)}` scales the LUT after "
                           f"its maximum `{dv}` was taken: LUT and data are "
                           "normalised inconsistently between the routes")
            ctx.ob("R5.5", why is None,
                   f"axis {k}: LUT column and `{data}` are divided by the "
                   "column maximum taken after scaling, before interpolating"
                   if why is None else f"axis {k}: {why}", node=nl[0],
                   label=lab)
        # extrapolation only on request
        ex = [c for s in stmts for c in find_calls(
            s, name="extrapolate_emodulus")]
        ok = all(isinstance(c.parent.parent, ast.If) and txt(
            c.parent.parent.test) == "extrapolate" and any(
            c.parent is s for s in c.parent.parent.body) for c in ex)
        ctx.ob("R5.5", ok, "extrapolation runs only when `extrapolate` is "
               "set" if ok else "extrapolation is not guarded by "
               "`extrapolate`", node=ex[0] if ex else g,
               label=f"[{which}] extrapolation on request")
    dv = m.defaults.get("extrapolate")
    val = dv
    if isinstance(dv, ast.Name):
        val = repo.module_assign(EM, dv.id)
    ok = isinstance(val, ast.Constant) and val.value is False
    ctx.ob("R5.5", ok, "extrapolation is off by default" if ok else
           f"default of `extrapolate` evaluates to {txt(val)}", node=val
           if val is not None else f, key=f"{EM}::get_emodulus::"
           "extrapolate default")
    # the result of the interpolation is what is returned
    rets = [r for r in walk(f) if isinstance(r, ast.Return)]
    if len(rets) != 1 or not isinstance(rets[0].value, ast.Name):
        raise AnalysisError("get_emodulus: return value not understood")
    ok = True
    for stmts in (m.routeA, m.routeB):
        gd = [c for s_ in stmts for c in find_calls(s_, attr="griddata")]
        tgt = txt(gd[0].parent.targets[0]) if len(gd) == 1 and isinstance(
            gd[0].parent, ast.Assign) else None
        if tgt is None:
            raise AnalysisError("get_emodulus: interpolation result not "
                                "bound to a name")
        if root_def(stmts, rets[0].value)[0] != tgt:
            ok = False
    ctx.ob("R5.5", ok, "the interpolated array is returned" if ok else
           "the returned value is not the interpolation result",
           node=rets[0] if rets else f, label="returns interpolation",
           nontrivial=False)


# ----------------------------------------------------------------------
# R5.6 – nothing on the call closure of get_emodulus keeps state

PKG = "dclab/features/emodulus/"
VISC = "dclab/features/emodulus/viscosity.py"
MUTATORS = {"update", "append", "pop", "clear", "setdefault", "add",
            "extend", "remove", "insert", "popitem", "discard",
            "appendleft"}
CONTAINER_CALLS = {"dict", "list", "set", "OrderedDict", "defaultdict",
                   "collections.OrderedDict", "collections.defaultdict",
                   "deque", "collections.deque"}


def module_containers(repo, rel):
    """module-level names bound to a mutable container"""
    out = set()
    for st in repo.tree(rel).body:
        tg, v = [], None
        if isinstance(st, ast.Assign):
            tg, v = st.targets, st.value
        elif isinstance(st, ast.AnnAssign) and st.value is not None:
            tg, v = [st.target], st.value
        if v is None:
            continue
        if isinstance(v, (ast.Dict, ast.List, ast.Set, ast.DictComp,
                          ast.ListComp, ast.SetComp)) or (
                isinstance(v, ast.Call) and call_name(v) in CONTAINER_CALLS):
            out |= {t.id for t in tg if isinstance(t, ast.Name)}
    return out


def state_writes(func, containers):
    """statements of func that modify a module-level container or re-bind a
    global"""
    out = []
    local = {a.arg for a in func.args.args + func.args.kwonlyargs}
    for n in walk(func):
        if isinstance(n, ast.Assign):
            for t in n.targets:
                if isinstance(t, ast.Name):
                    local.add(t.id)
    glob = set()
    for n in walk(func):
        if isinstance(n, (ast.Global, ast.Nonlocal)):
            glob |= set(n.names)
    cont = (containers - (local - glob))
    for n in walk(func):
        tg = []
        if isinstance(n, ast.Assign):
            tg = n.targets
        elif isinstance(n, (ast.AugAssign, ast.AnnAssign)):
            tg = [n.target]
        elif isinstance(n, ast.Delete):
            tg = n.targets
        for t in tg:
            if isinstance(t, ast.Name) and t.id in glob:
                out.append(n)
            elif isinstance(t, (ast.Subscript, ast.Attribute)) \
                    and base_name(t) in cont:
                out.append(n)
        if isinstance(n, ast.Call) and isinstance(n.func, ast.Attribute) \
                and n.func.attr in MUTATORS and isinstance(
                    n.func.value, ast.Name) and n.func.value.id in cont:
            out.append(n)
    return out


def r56(ctx, repo):
    files = [r for r in repo.files(PKG)]
    fresh = Fresh(repo)
    funcs = {}
    for rel in files:
        for q, f in repo.all_functions(rel):
            if "." not in q:
                funcs[(rel, q)] = f
    containers = {rel: module_containers(repo, rel) for rel in files}
    # containers that some function of the package modifies = mutable state
    mutated = {rel: set() for rel in files}
    for (rel, q), f in funcs.items():
        for w in state_writes(f, containers[rel]):
            tg = []
            if isinstance(w, ast.Assign):
                tg = w.targets
            elif isinstance(w, (ast.AugAssign, ast.AnnAssign)):
                tg = [w.target]
            elif isinstance(w, ast.Delete):
                tg = w.targets
            elif isinstance(w, ast.Call):
                tg = [w.func.value]
            for t in tg:
                b = base_name(t)
                if b in containers[rel]:
                    mutated[rel].add(b)
    # call graph inside the package
    callees = {}
    for (rel, q), f in funcs.items():
        cs = set()
        for c in walk(f):
            if isinstance(c, ast.Call):
                n = call_name(c)
                if n and "." not in n:
                    r = fresh.resolve(rel, n)
                    if r is not None and (r[0], r[1].name) in funcs:
                        cs.add((r[0], r[1].name))
        callees[(rel, q)] = cs
    root = (EM, "get_emodulus")
    if root not in funcs:
        raise AnalysisError("get_emodulus vanished")
    reach, stack = set(), [root]
    while stack:
        k = stack.pop()
        if k in reach:
            continue
        reach.add(k)
        stack += list(callees[k])
    if len(reach) < 10:
        raise AnalysisError(f"call closure of get_emodulus has only "
                            f"{len(reach)} functions")
    ctx.stat("R5.6 functions on the call closure", len(reach))
    # which functions read mutable module state (directly or through callees)
    reads = {}
    for k in reach:
        rel, q = k
        f = funcs[k]
        local = {a.arg for a in f.args.args}
        reads[k] = sorted({n.id for n in walk(f) if isinstance(n, ast.Name)
                           and isinstance(n.ctx, ast.Load)
                           and n.id in mutated[rel] and n.id not in local})
    dep = {k: list(v) for k, v in reads.items()}
    changed = True
    while changed:
        changed = False
        for k in reach:
            for c in callees[k]:
                for x in dep.get(c, []):
                    tag = x if "(" in x else f"{x} (via {c[1]})"
                    base = x.split(" ")[0]
                    if not any(y.split(" ")[0] == base for y in dep[k]):
                        dep[k].append(tag)
                        changed = True
    for k in sorted(reach):
        rel, q = k
        f = funcs[k]
        w = state_writes(f, containers[rel])
        ctx.ob("R5.6", not w,
               f"{q} writes no module-level state" if not w else
               f"{q} stores into module-level state "
               f"(`{short(w[0], 40)}`): the result of a later call depends "
               "on earlier calls", node=w[0] if w else f,
               key=f"{rel}::{q}::writes no module state")
        if dep[k]:
            memo = [d for d in f.decorator_list
                    if any(c in txt(d) for c in CACHING)]
            ctx.ob("R5.6", not memo,
                   f"{q} depends on the mutable module state "
                   f"{', '.join(dep[k])} and is not memoised" if not memo
                   else f"{q} is wrapped by `{txt(memo[0])}` although its "
                   f"result depends on the mutable module state "
                   f"{', '.join(dep[k])}: a table registered, replaced or "
                   "removed later is not seen (result depends on earlier "
                   "calls)", node=memo[0] if memo else f,
                   key=f"{rel}::{q}::not memoised")


def r56_builtin(ctx, repo):
    """a built-in table cannot be shadowed by a registered one"""
    glp = repo.func(LOAD, "get_lut_path")
    internal = {"get_internal_lut_names_dict"} | {
        n.targets[0].id for n in walk(glp) if isinstance(n, ast.Assign)
        and isinstance(n.targets[0], ast.Name) and isinstance(
            n.value, ast.Call) and call_name(
            n.value) == "get_internal_lut_names_dict"}

    def kind(test):
        names = names_in(test)
        if "EXTERNAL_LUTS" in names:
            return "external"
        if names & internal:
            return "internal"
        return None
    order = []
    for st in glp.body:
        node = st
        while isinstance(node, ast.If):
            k = kind(node.test)
            if k:
                order.append((k, node))
            node = node.orelse[0] if len(node.orelse) == 1 and isinstance(
                node.orelse[0], ast.If) else None
    kinds = [k for k, _ in order]
    if "internal" not in kinds:
        raise AnalysisError("get_lut_path: lookup of built-in identifiers "
                            "not found")
    ok = "external" in kinds and kinds.index("internal") < kinds.index(
        "external")
    ctx.ob("R5.6", ok,
           "get_lut_path resolves a built-in identifier before it consults "
           "the registered tables" if ok else
           ("get_lut_path never consults the registered tables"
            if "external" not in kinds else
            "get_lut_path consults the registered tables before the "
            "built-in ones: a registered file can replace a built-in LUT"),
           node=order[kinds.index("external")][1].test
           if "external" in kinds else glp,
           label="built-in before registered")
    reg = repo.func(LOAD, "register_lut")
    stores = [n for n in walk(reg) if isinstance(n, ast.Assign) and any(
        base_name(t) == "EXTERNAL_LUTS" and isinstance(t, ast.Subscript)
        for t in n.targets)]
    if len(stores) != 1 or not any(stores[0] is x for x in reg.body):
        raise AnalysisError("register_lut: registration statement")
    idx = [i for i, x in enumerate(reg.body) if x is stores[0]][0]
    guard = None
    for st in reg.body[:idx]:
        node = st
        while isinstance(node, ast.If):
            if (names_in(node.test) & {"get_internal_lut_names_dict"}
                    or any(call_name(c) == "get_internal_lut_names_dict"
                           for c in ast.walk(node.test)
                           if isinstance(c, ast.Call))) and any(
                    isinstance(x, ast.Raise) for x in node.body) \
                    and isinstance(node.test, ast.Compare) and isinstance(
                        node.test.ops[0], ast.In):
                guard = node
            node = node.orelse[0] if len(node.orelse) == 1 and isinstance(
                node.orelse[0], ast.If) else None
    ctx.ob("R5.6", guard is not None,
           "register_lut rejects the identifier of a built-in LUT on every "
           "path before it registers" if guard is not None else
           "register_lut does not reject built-in identifiers "
           "unconditionally before `EXTERNAL_LUTS[identifier] = path`: a "
           "user file can be registered under a built-in name",
           node=guard.test if guard is not None else stores[0],
           label="built-in identifiers rejected")


# ----------------------------------------------------------------------
# R5.7 – per-medium parameter tables of the viscosity models

def _number(e):
    if isinstance(e, ast.Constant) and isinstance(
            e.value, (int, float)) and not isinstance(e.value, bool):
        return e.value
    if isinstance(e, ast.UnaryOp) and isinstance(
            e.op, (ast.USub, ast.UAdd)) and _number(e.operand) is not None:
        v = _number(e.operand)
        return -v if isinstance(e.op, ast.USub) else v
    return None


def _slots(nodes, what):
    """parallel walk of structurally equal trees: [(path text, [values])]
    for every numeric literal position"""
    out = []

    def rec(ns, path):
        nums = [_number(n) for n in ns]
        if all(v is not None for v in nums):
            out.append((path, nums, ns[0]))
            return
        if len({type(n) for n in ns}) != 1:
            raise AnalysisError(f"{what}: the media branches differ in "
                                f"structure at {path or 'the top'}")
        for fld in ns[0]._fields:
            vals = [getattr(n, fld, None) for n in ns]
            if isinstance(vals[0], list):
                if len({len(v) for v in vals}) != 1:
                    raise AnalysisError(f"{what}: the media branches "
                                        f"differ in length at {path}.{fld}")
                for i in range(len(vals[0])):
                    items = [v[i] for v in vals]
                    if isinstance(items[0], ast.AST):
                        rec(items, f"{path}.{fld}[{i}]")
            elif isinstance(vals[0], ast.AST):
                if isinstance(vals[0], (ast.Load, ast.Store, ast.operator,
                                        ast.unaryop, ast.cmpop)):
                    if len({type(v) for v in vals}) != 1:
                        raise AnalysisError(f"{what}: operators differ at "
                                            f"{path}.{fld}")
                    continue
                rec(vals, f"{path}.{fld}")
            else:
                if fld in ("lineno", "col_offset", "end_lineno",
                           "end_col_offset", "type_comment", "kind"):
                    continue
                if len(set(map(repr, vals))) != 1:
                    raise AnalysisError(f"{what}: the media branches "
                                        f"differ at {path}.{fld}: {vals}")
    rec(nodes, "")
    return out


def _by_name(stmts, what):
    """{name: value} of a branch made of plain assignments (tuple
    assignments are split)"""
    out = {}
    for st in stmts:
        if isinstance(st, ast.Pass):
            continue
        if not (isinstance(st, ast.Assign) and len(st.targets) == 1):
            raise AnalysisError(f"{what}: media branch statement "
                                f"`{short(st, 40)}` not understood")
        t, v = st.targets[0], st.value
        if isinstance(t, ast.Name):
            pairs = [(t.id, v)]
        elif isinstance(t, ast.Tuple) and isinstance(v, ast.Tuple) and len(
                t.elts) == len(v.elts) and all(
                isinstance(x, ast.Name) for x in t.elts):
            pairs = [(x.id, y) for x, y in zip(t.elts, v.elts)]
        else:
            raise AnalysisError(f"{what}: media branch statement "
                                f"`{short(st, 40)}` not understood")
        for k, val in pairs:
            if k in out:
                raise AnalysisError(f"{what}: `{k}` assigned twice in a "
                                    "media branch")
            out[k] = val
    if not out:
        raise AnalysisError(f"{what}: empty media branch")
    return out


def _medium_table(repo, f, conc, what):
    """{medium: {field: value node}} when the model takes its per-medium
    constants from a module-level literal table (tuple / list of tuples,
    namedtuple or dict rows) that the function consults"""
    for nm in sorted({n.id for n in walk(f) if isinstance(n, ast.Name)
                      and isinstance(n.ctx, ast.Load)}):
        tab = repo.module_assign(VISC, nm, missing_ok=True)
        rows = None
        if isinstance(tab, (ast.Tuple, ast.List)):
            rows = [(None, r) for r in tab.elts]
        elif isinstance(tab, ast.Dict) and all(
                const_str(k) in conc for k in tab.keys) and tab.keys:
            rows = [(const_str(k), v) for k, v in zip(tab.keys, tab.values)]
        if not rows or len(rows) < 2:
            continue
        out = {}
        for key, r in rows:
            fields = None
            if isinstance(r, ast.Call):
                # namedtuple / class row: positional names from the
                # namedtuple definition when available
                pos = None
                ctor = repo.module_assign(VISC, call_name(r) or "",
                                          missing_ok=True)
                if isinstance(ctor, ast.Call) and (call_name(ctor) or ""
                                                   ).split(".")[-1] == \
                        "namedtuple" and len(ctor.args) == 2:
                    fl = ctor.args[1]
                    if isinstance(fl, (ast.List, ast.Tuple)):
                        pos = [const_str(x) for x in fl.elts]
                    elif const_str(fl):
                        pos = const_str(fl).replace(",", " ").split()
                fields = {}
                for i, a in enumerate(r.args):
                    fields[pos[i] if pos and i < len(pos) else f"#{i}"] = a
                for kw in r.keywords:
                    if kw.arg is None:
                        fields = None
                        break
                    fields[kw.arg] = kw.value
            elif isinstance(r, (ast.Tuple, ast.List)):
                fields = {f"#{i}": a for i, a in enumerate(r.elts)}
            elif isinstance(r, ast.Dict) and all(
                    const_str(k) for k in r.keys):
                fields = {const_str(k): v for k, v in zip(r.keys, r.values)}
            if fields is None:
                out = None
                break
            meds = [const_str(v) for v in fields.values()
                    if const_str(v) in conc]
            med = key or (meds[0] if len(meds) == 1 else None)
            if med is None:
                out = None
                break
            nums = {k: v for k, v in fields.items() if _number(v) is not None}
            if not nums or med in out:
                out = None
                break
            out[med] = nums
        if out and len(out) >= 2:
            return out
    return None


def r57(ctx, repo):
    same = repo.module_assign(VISC, "SAME_MEDIA")
    if not isinstance(same, ast.Dict):
        raise AnalysisError("viscosity.SAME_MEDIA is not a dict literal")
    conc = {}
    for k in same.keys:
        mm = re.fullmatch(r"(\d+(?:\.\d+)?)% MC-PBS", const_str(k) or "")
        if mm:
            conc[const_str(k)] = float(mm.group(1))
    if len(conc) < 2:
        raise AnalysisError("viscosity.SAME_MEDIA: MC-PBS media not found")
    n_models = 0
    for q, f in repo.all_functions(VISC):
        if "." in q or "medium" not in [a.arg for a in f.args.args]:
            continue
        # top-level chain that dispatches on the medium
        chain = [s for s in f.body if isinstance(s, ast.If)
                 and names_in(s.test) == {"medium"}]
        table = _medium_table(repo, f, conc, q) if not chain else None
        if not chain and table is None:
            continue
        shadow = ast.FunctionDef(name=q, args=f.args, body=chain,
                                 decorator_list=[], lineno=f.lineno)
        branches = dispatch_branches(shadow, q)[0] if chain else []
        bodies = dict(table) if table else {}
        for med in (sorted(conc, key=conc.get) if chain else []):
            hit = first_branch(branches, {"medium": med}, q)
            if hit is None or any(isinstance(x, ast.Raise)
                                  for x in hit[1]):
                continue
            if any(isinstance(x, ast.Call) and (call_name(x) or ""
                                                ).startswith("get_viscosity")
                   for st in hit[1] for x in ast.walk(st)):
                bodies = {}
                break       # a dispatcher over models, not a model
            bodies[med] = _by_name(hit[1], q)
        if len(bodies) < 2:
            continue
        bodies = {m_: bodies[m_] for m_ in sorted(bodies, key=conc.get)}
        if len({id(b) for b in bodies.values()}) < len(bodies) or len(
                {id(next(iter(b.values()))) for b in bodies.values()}) < len(
                bodies):
            continue        # media share one branch (no per-medium table)
        n_models += 1
        meds = list(bodies)
        names = sorted(bodies[meds[0]])
        if any(sorted(b) != names for b in bodies.values()):
            raise AnalysisError(f"{q}: the media branches assign different "
                                "names")
        slots, common = [], []
        for nm in names:
            for p_, v_, n_ in _slots([bodies[m_][nm] for m_ in meds], q):
                (slots if len(set(v_)) > 1 else common).append(
                    (f"{nm}{p_}", v_, n_))
        if len(slots) < 2:
            raise AnalysisError(f"{q}: fewer than two per-medium constants "
                                "found")
        for path, vals, node in slots:
            inc = all(a < b for a, b in zip(vals, vals[1:]))
            dec = all(a > b for a, b in zip(vals, vals[1:]))
            ok = inc or dec
            name = re.split(r"[.\[]", path)[0]
            k_ = [i for i, (p_, _, _) in enumerate(slots) if p_ == path][0]
            table = ", ".join(f"{m_}: {v}" for m_, v in zip(meds, vals))
            dup = [(meds[i], meds[j]) for i in range(len(vals))
                   for j in range(i + 1, len(vals)) if vals[i] == vals[j]]
            ctx.ob("R5.7", ok,
                   f"{q}: the per-medium constant #{k_} of `{name}` is "
                   f"strictly monotone in the MC concentration ({table})"
                   if ok else
                   f"{q}: the per-medium constant #{k_} of `{name}` is "
                   + (f"identical for {dup[0][0]} and {dup[0][1]}" if dup
                      else "not monotone in the MC concentration")
                   + f" ({table}) – a material constant that depends on "
                   "the concentration cannot coincide for two "
                   "concentrations / reverse its trend (copy-paste between "
                   "branches?)", node=node,
                   key=f"{VISC}::{q}::medium constant {k_} of {name}")
        # a literal used twice in one medium's formula is the same quantity
        # in every medium's formula
        for i in range(len(slots)):
            for j in range(i + 1, len(slots)):
                a, b = slots[i][1], slots[j][1]
                eq = [x == y for x, y in zip(a, b)]
                if any(eq):
                    ctx.ob("R5.7", all(eq),
                           f"{q}: constants #{i} and #{j} denote the same "
                           "quantity in every medium branch" if all(eq) else
                           f"{q}: constants #{i} and #{j} coincide for "
                           f"{meds[eq.index(True)]} ({a[eq.index(True)]}) "
                           f"but differ for {meds[eq.index(False)]} "
                           f"({a[eq.index(False)]} vs "
                           f"{b[eq.index(False)]}): one occurrence was not "
                           "updated", node=slots[j][2],
                           key=f"{VISC}::{q}::constants {i} and {j} "
                           "consistent")
        # ... also when the other occurrence no longer differs between
        # the media (it was left at another medium's value)
        for i, (pi, a, _) in enumerate(slots):
            for pj, b, nj in common:
                if float(b[0]).is_integer():
                    continue
                eq = [x == y for x, y in zip(a, b)]
                if any(eq):
                    ctx.ob("R5.7", False,
                           f"{q}: the literal {b[0]} of `{pj.split('.')[0]}`"
                           f" equals the per-medium constant #{i} for "
                           f"{meds[eq.index(True)]} but is used for every "
                           "medium: one occurrence of a per-medium constant "
                           "was not updated", node=nj,
                           key=f"{VISC}::{q}::constant {i} vs shared literal "
                           f"{b[0]}")
    if n_models < 2:
        raise AnalysisError(f"only {n_models} viscosity model(s) with a "
                            "per-medium table found")
    ctx.stat("R5.7 models with per-medium tables", n_models)


# ----------------------------------------------------------------------
# R5.8 – medium aliases (module-level tables folded by interpretation)

class _Fold:
    """interpreter for the module-level construction of literal tables
    (dict / list / str values, loops, comprehensions, subscript stores,
    update/append/setdefault); anything else is an analysis error"""

    def __init__(self, what):
        self.what = what
        self.steps = 0

    def fail(self, node):
        raise AnalysisError(f"{self.what}: cannot fold `{short(node, 50)}`")

    def ev(self, e, env):
        self.steps += 1
        if self.steps > 200000:
            raise AnalysisError(f"{self.what}: folding does not terminate")
        if isinstance(e, ast.Constant):
            return e.value
        if isinstance(e, ast.Name):
            if e.id in env:
                return env[e.id]
            self.fail(e)
        if isinstance(e, ast.Dict):
            if any(k is None for k in e.keys):
                self.fail(e)
            return {self.ev(k, env): self.ev(v, env)
                    for k, v in zip(e.keys, e.values)}
        if isinstance(e, ast.List):
            return [self.ev(x, env) for x in e.elts]
        if isinstance(e, ast.Tuple):
            return tuple(self.ev(x, env) for x in e.elts)
        if isinstance(e, ast.Set):
            return {self.ev(x, env) for x in e.elts}
        if isinstance(e, ast.Subscript) and not isinstance(
                e.slice, ast.Slice):
            try:
                return self.ev(e.value, env)[self.ev(e.slice, env)]
            except (KeyError, IndexError, TypeError):
                self.fail(e)
        if isinstance(e, ast.BinOp) and isinstance(e.op, ast.Add):
            try:
                return self.ev(e.left, env) + self.ev(e.right, env)
            except TypeError:
                self.fail(e)
        if isinstance(e, ast.IfExp):
            return self.ev(e.body if self.ev(e.test, env) else e.orelse, env)
        if isinstance(e, ast.BoolOp):
            vals = [self.ev(v, env) for v in e.values]
            return all(vals) if isinstance(e.op, ast.And) else any(vals)
        if isinstance(e, ast.UnaryOp) and isinstance(e.op, ast.Not):
            return not self.ev(e.operand, env)
        if isinstance(e, ast.Compare) and len(e.ops) == 1:
            a, b = self.ev(e.left, env), self.ev(e.comparators[0], env)
            op = e.ops[0]
            try:
                if isinstance(op, ast.Eq):
                    return a == b
                if isinstance(op, ast.NotEq):
                    return a != b
                if isinstance(op, ast.In):
                    return a in b
                if isinstance(op, ast.NotIn):
                    return a not in b
            except TypeError:
                pass
            self.fail(e)
        if isinstance(e, (ast.ListComp, ast.SetComp, ast.GeneratorExp,
                          ast.DictComp)):
            out = []

            def gen(i, env2):
                if i == len(e.generators):
                    if isinstance(e, ast.DictComp):
                        out.append((self.ev(e.key, env2),
                                    self.ev(e.value, env2)))
                    else:
                        out.append(self.ev(e.elt, env2))
                    return
                g = e.generators[i]
                for item in self.iterate(self.ev(g.iter, env2), g.iter):
                    env3 = dict(env2)
                    self.bind(g.target, item, env3)
                    if all(self.ev(c, env3) for c in g.ifs):
                        gen(i + 1, env3)
            gen(0, dict(env))
            if isinstance(e, ast.DictComp):
                return dict(out)
            if isinstance(e, ast.SetComp):
                return set(out)
            return out
        if isinstance(e, ast.Call):
            n = call_name(e)
            args = [self.ev(a, env) for a in e.args]
            if e.keywords:
                self.fail(e)
            try:
                if n in ("list", "sorted", "set", "tuple", "dict", "len",
                         "str") and len(args) <= 1:
                    return {"list": list, "sorted": sorted, "set": set,
                            "tuple": tuple, "dict": dict, "len": len,
                            "str": str}[n](*args)
                if isinstance(e.func, ast.Attribute):
                    recv = self.ev(e.func.value, env)
                    m = e.func.attr
                    if isinstance(recv, str) and m in (
                            "lower", "upper", "strip", "replace", "title",
                            "casefold", "capitalize"):
                        return getattr(recv, m)(*args)
                    if isinstance(recv, dict) and m in ("keys", "values",
                                                        "items", "get",
                                                        "copy"):
                        r = getattr(recv, m)(*args)
                        return list(r) if m in ("keys", "values",
                                                "items") else r
            except (TypeError, ValueError):
                pass
            self.fail(e)
        self.fail(e)

    def iterate(self, v, node):
        if isinstance(v, dict):
            return list(v)
        if isinstance(v, (list, tuple, set, str)):
            return list(v) if not isinstance(v, set) else sorted(v)
        self.fail(node)

    def bind(self, target, value, env):
        if isinstance(target, ast.Name):
            env[target.id] = value
        elif isinstance(target, (ast.Tuple, ast.List)) and isinstance(
                value, (tuple, list)) and len(value) == len(target.elts):
            for t, v in zip(target.elts, value):
                self.bind(t, v, env)
        elif isinstance(target, ast.Subscript) and not isinstance(
                target.slice, ast.Slice):
            try:
                self.ev(target.value, env)[self.ev(target.slice, env)] = \
                    value
            except TypeError:
                self.fail(target)
        else:
            self.fail(target)

    def run(self, stmts, env):
        for st in stmts:
            if isinstance(st, ast.Assign):
                v = self.ev(st.value, env)
                for t in st.targets:
                    self.bind(t, v, env)
            elif isinstance(st, ast.AnnAssign) and st.value is not None:
                self.bind(st.target, self.ev(st.value, env), env)
            elif isinstance(st, ast.AugAssign) and isinstance(
                    st.op, ast.Add) and isinstance(st.target, ast.Name):
                env[st.target.id] = self.ev(ast.BinOp(
                    left=ast.Name(id=st.target.id, ctx=ast.Load()),
                    op=ast.Add(), right=st.value), env)
            elif isinstance(st, ast.For) and not st.orelse:
                for item in self.iterate(self.ev(st.iter, env), st.iter):
                    self.bind(st.target, item, env)
                    self.run(st.body, env)
            elif isinstance(st, ast.If):
                self.run(st.body if self.ev(st.test, env) else st.orelse,
                         env)
            elif isinstance(st, ast.Expr) and isinstance(
                    st.value, ast.Call) and isinstance(
                    st.value.func, ast.Attribute):
                c = st.value
                recv = self.ev(c.func.value, env)
                args = [self.ev(a, env) for a in c.args]
                m = c.func.attr
                try:
                    if isinstance(recv, dict) and m in ("update",
                                                        "setdefault", "pop"):
                        getattr(recv, m)(*args)
                    elif isinstance(recv, list) and m in (
                            "append", "extend", "sort", "remove", "insert"):
                        getattr(recv, m)(*args)
                    elif isinstance(recv, set) and m in ("add", "update",
                                                         "discard"):
                        getattr(recv, m)(*args)
                    else:
                        self.fail(st)
                except (TypeError, ValueError, KeyError):
                    self.fail(st)
            elif isinstance(st, ast.Expr) and isinstance(
                    st.value, ast.Constant):
                continue
            elif isinstance(st, ast.Pass):
                continue
            else:
                self.fail(st)


def fold_tables(repo, rel, wanted):
    """values of the module-level names `wanted` after interpreting the
    module-level statements that build them"""
    tree = repo.tree(rel)
    tracked = set(wanted)
    # names the construction depends on (fixpoint over module statements)
    changed = True
    sel = []
    while changed:
        changed = False
        sel = []
        for st in tree.body:
            if isinstance(st, (ast.FunctionDef, ast.ClassDef, ast.Import,
                               ast.ImportFrom, ast.AsyncFunctionDef)):
                continue
            stored = {n.id for n in ast.walk(st) if isinstance(n, ast.Name)
                      and isinstance(n.ctx, (ast.Store, ast.Del))}
            mutated = set()
            for n in ast.walk(st):
                if isinstance(n, ast.Subscript) and isinstance(
                        n.ctx, ast.Store) and isinstance(n.value, ast.Name):
                    mutated.add(n.value.id)
                if isinstance(n, ast.Call) and isinstance(
                        n.func, ast.Attribute) and isinstance(
                        n.func.value, ast.Name) and n.func.attr in (
                        "update", "append", "extend", "setdefault", "add",
                        "pop", "sort", "remove", "insert", "discard"):
                    mutated.add(n.func.value.id)
            if (stored | mutated) & tracked:
                sel.append(st)
                new = {n.id for n in ast.walk(st) if isinstance(n, ast.Name)
                       } - tracked - {"list", "sorted", "set", "tuple",
                                      "dict", "len", "str"}
                # comprehension / loop variables are bound inside
                if new:
                    tracked |= new
                    changed = True
    fold = _Fold(rel.rsplit("/", 1)[-1])
    env = {}
    fold.run(sel, env)
    miss = [w for w in wanted if w not in env]
    if miss:
        raise AnalysisError(f"{rel}: module-level tables {miss} not built")
    return env


def r58(ctx, repo):
    env = fold_tables(repo, VISC, ["SAME_MEDIA", "ALIAS_MEDIA",
                                   "KNOWN_MEDIA"])
    same, alias, known = env["SAME_MEDIA"], env["ALIAS_MEDIA"], env[
        "KNOWN_MEDIA"]
    if not (isinstance(same, dict) and isinstance(alias, dict) and same
            and all(isinstance(v, list) for v in same.values())):
        raise AnalysisError("viscosity: SAME_MEDIA / ALIAS_MEDIA shape")
    ctx.stat("R5.8 folded aliases", len(alias))
    node = repo.module_assign(VISC, "ALIAS_MEDIA")
    for canon, names in same.items():
        bad = []
        for a in names:
            for spelled in dict.fromkeys([a, a.lower()]):
                got = alias.get(spelled, None)
                if got != canon:
                    bad.append((spelled, got))
        ok = not bad and canon in names
        ctx.ob("R5.8", ok,
               f"every spelling of '{canon}' ({len(names)} names and their "
               "lower-case forms) resolves to it" if ok else
               (f"'{bad[0][0]}' resolves to {bad[0][1]!r} instead of "
                f"'{canon}' ({len(bad)} of {2 * len(names)} spellings are "
                "wrong): the viscosity of another medium is used" if bad
                else f"'{canon}' is not among its own aliases"),
               node=node, key=f"{VISC}::ALIAS_MEDIA::aliases of {canon}")
    stray = sorted(k for k, v in alias.items()
                   if v not in same or k.lower() not in {
                       a.lower() for a in same[v]})
    ctx.ob("R5.8", not stray,
           "every alias maps to the medium it is listed under (up to case)"
           if not stray else
           f"alias '{stray[0]}' maps to '{alias[stray[0]]}', under which it "
           "is not listed", node=node,
           key=f"{VISC}::ALIAS_MEDIA::no stray alias")
    ok = sorted(known) == sorted(alias) and len(set(known)) == len(known)
    ctx.ob("R5.8", ok,
           "KNOWN_MEDIA is exactly the set of resolvable names" if ok else
           "KNOWN_MEDIA differs from the keys of ALIAS_MEDIA: "
           + (f"{sorted(set(alias) - set(known))[:3]} are rejected"
              if set(alias) - set(known) else
              f"{sorted(set(known) - set(alias))[:3]} pass the check and "
              "raise KeyError"), node=repo.module_assign(VISC, "KNOWN_MEDIA"),
           key=f"{VISC}::KNOWN_MEDIA::equals alias keys")
    gv = repo.func(VISC, "get_viscosity")
    res = [n for n in gv.body if isinstance(n, ast.Assign) and txt(
        n.targets[0]) == "medium" and txt(n.value) in (
        "ALIAS_MEDIA[medium]", "ALIAS_MEDIA.get(medium)")]
    chk = [n for n in gv.body if isinstance(n, ast.If) and "KNOWN_MEDIA"
           in names_in(n.test) and any(isinstance(x, ast.Raise)
                                       for x in n.body)]
    disp = [i for i, n in enumerate(gv.body) if isinstance(n, ast.If)
            and names_in(n.test) == {"medium"}]
    ok = len(res) == 1 and bool(chk) and bool(disp) and gv.body.index(
        res[0]) < disp[0]
    ctx.ob("R5.8", ok,
           "get_viscosity rejects unknown names and resolves the alias "
           "before it dispatches on the medium" if ok else
           "get_viscosity does not resolve the medium through ALIAS_MEDIA "
           "before dispatching", node=res[0] if res else gv,
           label="alias resolved before dispatch")


class _LutPathModel(_Fold):
    """get_lut_path executed on a model of the file system / registries"""

    def ev(self, e, env):
        if isinstance(e, ast.Call):
            n = call_name(e) or ""
            if n == "get_internal_lut_names_dict" and not e.args:
                return dict(env["__internal__"])
            if n.split(".")[-1] == "Path" and len(e.args) == 1:
                return ("path", self.ev(e.args[0], env))
            if isinstance(e.func, ast.Attribute) and e.func.attr in (
                    "exists", "is_file") and not e.args:
                v = self.ev(e.func.value, env)
                name = v[1] if isinstance(v, tuple) and v[:1] == (
                    "path",) else v
                return name in env["__files__"]
            if n.split(".")[-1] in ("enter_context", "as_file",
                                    "resolve") and len(e.args) <= 1:
                return self.ev(e.args[0] if e.args else e.func.value, env)
            if n.split(".")[-1] == "files":
                return ("package",)
            if n == "str" and len(e.args) == 1:
                v = self.ev(e.args[0], env)
                return v[1] if isinstance(v, tuple) else str(v)
        if isinstance(e, ast.BinOp) and isinstance(e.op, ast.Div):
            left = self.ev(e.left, env)
            if left == ("package",):
                return ("resource", self.ev(e.right, env))
        if isinstance(e, ast.Compare) and len(e.ops) == 1 and isinstance(
                e.ops[0], (ast.In, ast.NotIn)):
            a = self.ev(e.left, env)
            b = self.ev(e.comparators[0], env)
            if isinstance(a, tuple):
                a = a[1] if a[:1] == ("path",) else a
            try:
                r = a in b
            except TypeError:
                self.fail(e)
            return r if isinstance(e.ops[0], ast.In) else not r
        if isinstance(e, ast.Subscript) and not isinstance(
                e.slice, ast.Slice):
            base = self.ev(e.value, env)
            k = self.ev(e.slice, env)
            if isinstance(k, tuple) and k[:1] == ("path",):
                k = k[1]
            try:
                return base[k]
            except (KeyError, IndexError, TypeError):
                return ("lookup-error", k)
        return super().ev(e, env)

    def call(self, func, arg, model):
        env = dict(model)
        params = [a.arg for a in func.args.args]
        env[params[0]] = arg

        class Ret(Exception):
            def __init__(self, v):
                self.v = v

        def run(stmts):
            for st in stmts:
                if isinstance(st, ast.Return):
                    raise Ret(self.ev(st.value, env))
                if isinstance(st, ast.Raise):
                    raise Ret(("raises",))
                if isinstance(st, ast.Expr):
                    continue        # docstring / warnings
                if isinstance(st, ast.If):
                    run(st.body if self.ev(st.test, env) else st.orelse)
                elif isinstance(st, ast.Assign) and len(
                        st.targets) == 1 and isinstance(
                        st.targets[0], ast.Name):
                    env[st.targets[0].id] = self.ev(st.value, env)
                elif isinstance(st, ast.Assign) and len(
                        st.targets) == 1 and isinstance(
                        st.targets[0], ast.Subscript):
                    self.bind(st.targets[0], self.ev(st.value, env), env)
                else:
                    self.fail(st)
        try:
            run(func.body)
        except Ret as r:
            v = r.v
            if isinstance(v, tuple) and "lookup-error" in v[:1]:
                return ("raises",)
            return v
        return None


def r56_lutpath(ctx, repo):
    """get_lut_path evaluated on a model: built-in, registered, path,
    deprecated alias, unknown"""
    glp = repo.func(LOAD, "get_lut_path")
    model = {"__internal__": {"LE-2D-FEM-19": "lut_LE-2D-FEM-19.txt",
                              "HE-2D-FEM-22": "lut_HE-2D-FEM-22.txt"},
             "__files__": {"/data/my_lut.txt"},
             "EXTERNAL_LUTS": {"USER-LUT": "/ext/user_lut.txt"}}
    # other module-level literal containers start out as written
    for st in repo.tree(LOAD).body:
        if isinstance(st, ast.Assign) and len(st.targets) == 1 and isinstance(
                st.targets[0], ast.Name) and isinstance(
                st.value, (ast.Dict, ast.List, ast.Set)) \
                and st.targets[0].id not in model:
            try:
                model[st.targets[0].id] = _Fold("load.py").ev(st.value, {})
            except AnalysisError:
                pass
    fold = _LutPathModel("get_lut_path")
    got = {k: fold.call(glp, k, model) for k in (
        "LE-2D-FEM-19", "HE-2D-FEM-22", "USER-LUT", "/data/my_lut.txt",
        "no-such-lut")}
    want = {"LE-2D-FEM-19": ("resource", "lut_LE-2D-FEM-19.txt"),
            "HE-2D-FEM-22": ("resource", "lut_HE-2D-FEM-22.txt"),
            "USER-LUT": "/ext/user_lut.txt",
            "/data/my_lut.txt": ("path", "/data/my_lut.txt"),
            "no-such-lut": ("raises",)}
    bad = [k for k in want if got[k] != want[k]]
    ctx.ob("R5.6", not bad,
           "get_lut_path, executed on a model (two built-in tables, one "
           "registered, one file, one unknown name), resolves each kind of "
           "identifier to its own table and rejects the unknown one"
           if not bad else
           f"get_lut_path('{bad[0]}') yields {got[bad[0]]}, expected "
           f"{want[bad[0]]} (executed on a model)", node=glp,
           label="lookup on a model")
    # deprecated aliases: same table as the identifier they stand for
    aliases = []
    for n in walk(glp):
        if isinstance(n, ast.If) and isinstance(n.test, ast.Compare) \
                and isinstance(n.test.ops[0], ast.Eq):
            c = const_str(n.test.comparators[0]) or const_str(n.test.left)
            rebinds = any(isinstance(x, ast.Assign) and txt(
                x.targets[0]) == glp.args.args[0].arg for x in n.body)
            if c and rebinds:
                msgs = " ".join(const_str(a) or "" for w in find_calls(
                    n, name="warnings.warn") for a in ast.walk(w)
                    if isinstance(a, ast.Constant))
                mm = re.search(r"use '([^']+)'", msgs)
                aliases.append((c, mm.group(1) if mm else None, n))
    for alias, target, node in aliases:
        if target is None:
            raise AnalysisError("get_lut_path: deprecated identifier "
                                f"'{alias}' without a replacement hint")
        model2 = dict(model)
        model2["__internal__"] = dict(model["__internal__"])
        model2["__internal__"].setdefault(target, f"lut_{target}.txt")
        a_ = fold.call(glp, alias, model2)
        t_ = fold.call(glp, target, model2)
        ok = a_ == t_ and t_ != ("raises",)
        ctx.ob("R5.6", ok,
               f"the deprecated identifier '{alias}' resolves to the table "
               f"of '{target}' (executed)" if ok else
               f"get_lut_path('{alias}') yields {a_} while "
               f"get_lut_path('{target}') yields {t_}: the deprecated "
               "identifier no longer loads the table it stands for",
               node=node.test, label=f"deprecated alias {alias}")


PHYSICAL = ("medium", "channel_width", "flow_rate", "temperature")


def r59(ctx, repo):
    """every internal call of the viscosity functions hands on all physical
    parameters the caller received and the callee accepts"""
    funcs = {q: f for q, f in repo.all_functions(VISC) if "." not in q}
    sites = []
    for q, f in funcs.items():
        sites += [(VISC, f, c) for c in walk(f) if isinstance(c, ast.Call)
                  and call_name(c) in funcs]
    ge = repo.func(EM, "get_emodulus")
    sites += [(EM, ge, c) for c in walk(ge) if isinstance(c, ast.Call)
              and call_name(c) in funcs]
    if len(sites) < 5:
        raise AnalysisError(f"only {len(sites)} internal calls of the "
                            "viscosity functions found")
    for rel, caller, c in sites:
        callee = funcs[call_name(c)]
        cpar = [a.arg for a in callee.args.args]
        have = {a.arg for a in caller.args.args}
        given = {}
        for i, a in enumerate(c.args):
            if isinstance(a, ast.Starred) or i >= len(cpar):
                raise AnalysisError(f"{caller.name}: call "
                                    f"`{short(c, 40)}` not understood")
            given[cpar[i]] = a
        for kw in c.keywords:
            if kw.arg is not None:
                given[kw.arg] = kw.value
            elif isinstance(kw.value, ast.Name):
                d = dict_literal(caller, kw.value.id)
                if not d:
                    raise AnalysisError(f"{caller.name}: `**"
                                        f"{kw.value.id}` is not a dict "
                                        "literal")
                given.update(d)
            else:
                raise AnalysisError(f"{caller.name}: call "
                                    f"`{short(c, 40)}` not understood")
        miss, wrong = [], []
        for p_ in PHYSICAL:
            if p_ in cpar and p_ in have:
                if p_ not in given:
                    miss.append(p_)
                elif p_ not in names_in(given[p_]):
                    wrong.append((p_, txt(given[p_])))
        ok = not miss and not wrong
        ctx.ob("R5.9", ok,
               f"{caller.name} hands {', '.join(p_ for p_ in PHYSICAL if p_ in cpar and p_ in have) or 'no physical parameter'} on to "
               f"{callee.name}" if ok else
               (f"{caller.name} calls {callee.name} without `{miss[0]}`: "
                f"the callee falls back to its default "
                f"({miss[0]}={txt(dict(zip(reversed(cpar), reversed(callee.args.defaults))).get(miss[0]))}) "
                "whatever the caller was given" if miss else
                f"{caller.name} passes {wrong[0][1]} as `{wrong[0][0]}` to "
                f"{callee.name}"), node=c,
               key=f"{rel}::{caller.name}::call {callee.name} "
               f"[{short(c, 30)}] complete")


AFEM = "dclab/rtdc_dataset/feat_anc_core/af_emodulus.py"


def r59_model_default(ctx, repo):
    """every fallback for a missing 'emodulus viscosity model' names the
    same model (defaults of .get(), the deprecation message, the default of
    get_emodulus)"""
    KEY = "emodulus viscosity model"
    sites = []
    tree = repo.tree(AFEM)
    for n in ast.walk(tree):
        if isinstance(n, ast.Call) and last_attr(n) == "get" and n.args \
                and const_str(n.args[0]) == KEY:
            d = n.args[1] if len(n.args) > 1 else kwarg(n, "default")
            sites.append((n, const_str(d) if d is not None else None,
                          f"`{short(n, 40)}`"))
    for w in find_calls(tree, name="warnings.warn", nested=True):
        msg = " ".join(const_str(a) or "" for a in ast.walk(w)
                       if isinstance(a, ast.Constant))
        mm = re.search(r"[Ff]alling\s+back to '([^']+)'", " ".join(
            msg.split()))
        if mm and KEY in msg:
            sites.append((w, mm.group(1), "the deprecation message"))
    ge = repo.func(EM, "get_emodulus")
    dv = dict(zip(reversed([a.arg for a in ge.args.args]),
                  reversed(ge.args.defaults))).get("visc_model")
    if const_str(dv):
        sites.append((ge, const_str(dv), "the default of get_emodulus"))
    if len(sites) < 2:
        raise AnalysisError("fallbacks of the viscosity model not found")

    def canon(v):
        return v[:-len("-fallback")] if v and v.endswith("-fallback") else v
    vals = sorted({canon(v) for _, v, _ in sites if v is not None})
    none = [w for _, v, w in sites if v is None]
    ok = len(vals) == 1 and not none
    ctx.ob("R5.9", ok,
           f"every fallback for a missing '{KEY}' is '{vals[0]}' "
           f"({len(sites)} sites)" if ok else
           "the fallbacks for a missing viscosity model disagree: "
           + "; ".join(f"{w}: {v!r}" for _, v, w in sites)
           + " – the same dataset gets different moduli depending on the "
           "code path", node=sites[0][0],
           key=f"{AFEM}::viscosity model fallback::sites agree")


def _setup_defaults(ge):
    """parameters of get_emodulus whose default is a concrete number or
    identifier, i.e. describes one particular set-up / medium / table (a
    None default means "not given", a boolean or a module constant is a
    policy flag)"""
    par = [a.arg for a in ge.args.args]
    out = {}
    for name, d in zip(reversed(par), reversed(ge.args.defaults)):
        if isinstance(d, ast.Constant) and not isinstance(
                d.value, bool) and isinstance(d.value, (int, float, str)):
            out[name] = d.value
        elif isinstance(d, ast.Constant) or isinstance(
                d, (ast.Name, ast.Attribute)):
            continue
        else:
            raise AnalysisError(f"get_emodulus: default of `{name}` "
                                f"(`{short(d, 30)}`) not classified")
    return par, out


def _bind_call(call, func, what):
    """{parameter of func: argument expression} of a call by position /
    keyword (parameters left out map to their default expression)"""
    par = [a.arg for a in func.args.args]
    if func.args.vararg or func.args.kwarg or func.args.kwonlyargs:
        raise AnalysisError(f"{what}: signature of {func.name}")
    out = {}
    for i, a in enumerate(call.args):
        if isinstance(a, ast.Starred) or i >= len(par):
            raise AnalysisError(f"{what}: call `{short(call, 40)}` not "
                                "understood")
        out[par[i]] = a
    for kw in call.keywords:
        if kw.arg is None or kw.arg not in par:
            raise AnalysisError(f"{what}: call `{short(call, 40)}` not "
                                "understood")
        out[kw.arg] = kw.value
    for name, d in zip(reversed(par), reversed(func.args.defaults)):
        out.setdefault(name, d)
    return out


def _origin(chain, level, e, depth=0):
    """'dataset' | 'none' | 'fixed': where the value of expression `e`,
    evaluated in function chain[level], comes from.  chain = [(func,
    binding of its parameters in the caller or None for the entry)]; the
    entry function's parameters are the dataset handed in by the ancillary
    feature machinery."""
    func, bind = chain[level]
    if depth > 12:
        raise AnalysisError(f"{func.name}: definition chain too deep")
    par = [a.arg for a in func.args.args]
    if isinstance(e, ast.Constant):
        return "none" if e.value is None else "fixed"
    if isinstance(e, ast.Name):
        defs = [n.value for n in walk(func) if isinstance(n, ast.Assign)
                and any(isinstance(t, ast.Name) and t.id == e.id
                        for t in n.targets)]
        if e.id in par and not defs:
            if level == 0:
                return "dataset"
            if e.id not in bind:
                raise AnalysisError(f"{func.name}: parameter {e.id} not "
                                    "bound by the caller")
            return _origin(chain, level - 1, bind[e.id], depth + 1)
        if e.id in par:
            defs = defs + [None]
        kinds = set()
        for d in defs:
            if d is None:
                kinds.add("dataset" if level == 0 else _origin(
                    chain, level - 1, bind[e.id], depth + 1))
            elif e.id in names_in(d):
                continue
            else:
                kinds.add(_origin(chain, level, d, depth + 1))
        if "dataset" in kinds:
            return "dataset"
        return "none" if kinds == {"none"} else "fixed"
    kinds = {_origin(chain, level, n, depth + 1)
             for n in ast.walk(e) if isinstance(n, ast.Name)}
    return "dataset" if "dataset" in kinds else "fixed"


def r59_dataset_layer(ctx, repo):
    """the ancillary-feature layer computes ds["emodulus"]: on every call
    chain from an entry function of af_emodulus to a call of get_emodulus
    (wrappers may delegate to a shared private helper), the call names
    every parameter whose default stands for one particular set-up (pixel
    size 0.34, channel width 20, flow rate 0.16, medium, temperature 23,
    LUT, viscosity model) and its value comes – through the parameters
    bound along the chain – from the dataset, or is None; a keyword left
    out means that this code path silently uses the default whatever the
    dataset says; all call sites agree on the keywords"""
    ge = repo.func(EM, "get_emodulus")
    par, setup = _setup_defaults(ge)
    if len(setup) < 5:
        raise AnalysisError("get_emodulus: set-up parameters with a default "
                            f"value: {sorted(setup)}")
    funcs = {q: f for q, f in repo.all_functions(AFEM) if "." not in q}
    site_of = {}
    for q, f in funcs.items():
        cs = [c for c in walk(f) if isinstance(c, ast.Call)
              and last_attr(c) == "get_emodulus"]
        if cs:
            site_of[q] = cs
    if not site_of:
        raise AnalysisError(f"{AFEM}: no call of get_emodulus")
    edges = {q: [(call_name(c), c) for c in walk(f) if isinstance(
        c, ast.Call) and call_name(c) in funcs and call_name(c) != q]
        for q, f in funcs.items()}
    # functions from which a call of get_emodulus is reached
    reach = set(site_of)
    changed = True
    while changed:
        changed = False
        for q, es in edges.items():
            if q not in reach and any(t in reach for t, _ in es):
                reach.add(q)
                changed = True
    called = {t for q in reach for t, _ in edges[q]}
    roots = sorted(reach - called)
    if not roots:
        raise AnalysisError(f"{AFEM}: call graph of the get_emodulus "
                            "wrappers has no entry")
    chains = []

    def descend(chain, names):
        q = names[-1]
        if len(names) > 5:
            raise AnalysisError(f"{AFEM}: delegation chain too deep")
        for c in site_of.get(q, []):
            chains.append((list(chain), list(names), c))
        for t, c in edges[q]:
            if t not in reach:
                continue
            if t in names:
                raise AnalysisError(f"{AFEM}: recursive wrappers")
            descend(chain + [(funcs[t], _bind_call(c, funcs[t], q))],
                    names + [t])
    for r in roots:
        descend([(funcs[r], None)], [r])

    passed = {}
    seen = {}
    for chain, names, c in chains:
        q, f = names[-1], chain[-1][0]
        given = {}
        for i, a in enumerate(c.args):
            if isinstance(a, ast.Starred) or i >= len(par):
                raise AnalysisError(f"{q}: call `{short(c, 40)}` not "
                                    "understood")
            given[par[i]] = a
        for kw in c.keywords:
            if kw.arg is not None:
                given[kw.arg] = kw.value
                continue
            d = None
            if isinstance(kw.value, ast.Dict):
                d = {const_str(k): v for k, v in zip(kw.value.keys,
                                                     kw.value.values)}
            elif isinstance(kw.value, ast.Name):
                d = dict_literal(f, kw.value.id)
                calls_ = [n.value for n in walk(f) if isinstance(
                    n, ast.Assign) and len(n.targets) == 1 and txt(
                    n.targets[0]) == kw.value.id and isinstance(
                    n.value, ast.Call) and call_name(n.value) == "dict"
                    and not n.value.args]
                for dc in calls_:
                    d.update({k.arg: k.value for k in dc.keywords})
            if not d or None in d:
                raise AnalysisError(f"{q}: `**{short(kw.value, 20)}` in the "
                                    "call of get_emodulus is not a dict "
                                    "literal")
            given.update(d)
        unknown = sorted(set(given) - set(par))
        if unknown:
            raise AnalysisError(f"{q}: get_emodulus has no parameter "
                                f"{unknown}")
        passed[id(c)] = (q, given)
        miss = [p_ for p_ in par if p_ in setup and p_ not in given]
        fixed = [p_ for p_ in par if p_ in setup and p_ in given
                 and _origin(chain, len(chain) - 1, given[p_]) == "fixed"]
        path = " -> ".join(names)
        seen[path] = seen.get(path, 0) + 1
        ok = not miss and not fixed
        others = sorted({q2 for _, n2, c2 in chains if c2 is not c and miss
                         and any(k.arg == miss[0] for k in c2.keywords)
                         for q2 in [n2[-1]]})
        ctx.ob("R5.9", ok,
               f"{path}: get_emodulus receives "
               f"{', '.join(p_ for p_ in par if p_ in setup)}, each taken "
               "from the dataset (or None)" if ok
               else (
                   f"{q} (reached as {path}) calls get_emodulus without "
                   f"`{miss[0]}`: this code path computes ds['emodulus'] "
                   f"with the default {miss[0]}={setup[miss[0]]!r} whatever "
                   "the dataset's configuration says"
                   + (f" (the sibling {', '.join(others)} passes it)"
                      if others else "") if miss else
                   f"on the path {path} get_emodulus receives the fixed "
                   f"value `{short(given[fixed[0]], 30)}` as `{fixed[0]}` "
                   "instead of a value of the dataset"),
               node=c, key=f"{AFEM}::{path} #{seen[path]}::get_emodulus "
               "set-up keywords from the dataset")
    # all call sites pass the same set of keywords
    sets = {f"{q}[{k}]": frozenset(g)
            for k, (q, g) in enumerate(passed.values())}
    ok = len(set(sets.values())) == 1
    allk = set().union(*sets.values())
    ctx.ob("R5.9", ok,
           f"the {len(sets)} call site(s) of get_emodulus pass the same "
           "keywords" if ok else
           "the wrappers disagree on the keywords passed to "
           "get_emodulus: " + "; ".join(
               f"{q} omits {sorted(allk - v)}" for q, v in sets.items()
               if allk - v), node=chains[0][2],
           key=f"{AFEM}::get_emodulus wrappers::same keywords")


def run(ctx):
    repo = ctx.repo
    ctx.rule("R5.1", "every in-place operation of get_emodulus acts on a "
             "fresh allocation (copy=True default, uncached load_lut, "
             "scale_feature(inplace=False), griddata)", minimum=18)
    ctx.rule("R5.2", "scale laws are the monomials w^2, w^3, Q eta / w^3; "
             "guards skip only a factor of 1; scale_feature dispatch "
             "forwards data and inplace; inplace=True acts on the object "
             "passed", minimum=18)
    ctx.rule("R5.3", "the per-event route is the inverse/forward pair of "
             "the global route's LUT scaling", minimum=6)
    ctx.rule("R5.4", "pixelation offset subtracted before scaling from the "
             "unscaled abscissa; sign-symmetric dispatch; pixel scale has "
             "the dimension of the abscissa; arguments untouched",
             minimum=18)
    ctx.rule("R5.5", "griddata linear, no fill_value/rescale, consistent "
             "normalisation by the scaled column maximum, extrapolation "
             "off by default", minimum=16)
    ctx.rule("R5.6", "no function on the call closure of get_emodulus "
             "inside the package writes module-level state; those that read "
             "mutable module state (EXTERNAL_LUTS) are not memoised; a "
             "built-in LUT cannot be shadowed by a registered one; "
             "get_lut_path executed on a model", minimum=27)
    ctx.rule("R5.7", "per-medium material constants of each viscosity model "
             "are strictly monotone in the MC concentration (hence pairwise "
             "distinct) and a constant used twice denotes the same quantity "
             "in every branch", minimum=4)
    ctx.rule("R5.8", "medium aliases (module-level tables folded by "
             "interpretation): every spelling resolves to the medium it is "
             "listed under, KNOWN_MEDIA = resolvable names, resolved before "
             "the dispatch", minimum=7)
    ctx.rule("R5.9", "every internal call of the viscosity functions "
             "passes on all physical parameters (medium, channel width, "
             "flow rate, temperature) that caller and callee share; the "
             "viscosity-model fallbacks agree; the ancillary-feature "
             "wrappers name every set-up parameter of get_emodulus that has "
             "a concrete default and take it from the dataset (one "
             "obligation per call chain entry -> wrapper [-> helper] -> "
             "get_emodulus, values traced through the bound parameters)",
             minimum=13)
    m = Model(repo)
    r51(ctx, repo, m)
    r56(ctx, repo)
    r56_builtin(ctx, repo)
    r56_lutpath(ctx, repo)
    r57(ctx, repo)
    r58(ctx, repo)
    r59(ctx, repo)
    r59_model_default(ctx, repo)
    r59_dataset_layer(ctx, repo)
    r52(ctx, repo)
    x4 = r53(ctx, repo, m)
    r54(ctx, repo, m)
    r55(ctx, repo, m, x4)


MUTANTS = [
    ("copy defaults to False", EM,
     ("                 copy: bool = True):",
      "                 copy: bool = False):"), "R5.1"),
    ("deformation not copied", EM,
     ("    deform = np.array(deform, dtype=float, copy=copy)\n    if px_um:",
      "    deform = np.asarray(deform, dtype=float)\n    if px_um:"),
     "R5.1"),
    ("area aliased", EM,
     ("        datax = np.array(area_um, dtype=float, copy=copy)",
      "        datax = np.array(area_um, dtype=float, copy=False)"),
     "R5.1"),
    ("per-event route scales the caller's data in place", EM,
     ('                    "channel_width_out": lut_meta["channel_width"],\n'
      '                    "inplace": False}',
      '                    "channel_width_out": lut_meta["channel_width"],\n'
      '                    "inplace": True}'), "R5.1"),
    ("tuple LUT not copied", LOAD,
     ("        lut = np.array(lut, copy=True)  # copy, because of "
      "normalization", "        lut = np.asarray(lut)"), "R5.1"),
    ("LUT loading cached", LOAD,
     ("def load_mtext(path):", "@functools.lru_cache()\ndef load_mtext(path):"
      ), "R5.1"),
    ("LUT path resolution memoised (seeded C05_6)", LOAD,
     ("def get_lut_path(path_or_id):",
      "@functools.lru_cache(maxsize=32)\ndef get_lut_path(path_or_id):"),
     "R5.6"),
    ("LUT path resolution memoised in a module-level dict", LOAD,
     [("EXTERNAL_LUTS = {}\n", "EXTERNAL_LUTS = {}\n_LUT_PATHS = {}\n"),
      ("    internal_dict = get_internal_lut_names_dict()\n"
       "    if path_or_id == \"FEM-2Daxis\":",
       "    if path_or_id in _LUT_PATHS:\n"
       "        return _LUT_PATHS[path_or_id]\n"
       "    internal_dict = get_internal_lut_names_dict()\n"
       "    if path_or_id == \"FEM-2Daxis\":"),
      ("    return lut_path\n",
       "    _LUT_PATHS[path_or_id] = lut_path\n    return lut_path\n")],
     "R5.6"),
    ("viscosity dispatcher remembers the last result", VISC,
     [("KNOWN_MEDIA = sorted(ALIAS_MEDIA.keys())\n",
       "KNOWN_MEDIA = sorted(ALIAS_MEDIA.keys())\n_LAST = {}\n"),
      ("        raise NotImplementedError(f\"Unknown medium '{medium}'!\")\n"
       "    return eta\n",
       "        raise NotImplementedError(f\"Unknown medium '{medium}'!\")\n"
       "    _LAST[medium] = eta\n    return eta\n")], "R5.6"),
    ("flow-index offset copied between media (seeded C05_5)", VISC,
     ("        beta = -0.1455\n", "        beta = -0.0744\n"), "R5.7"),
    ("consistency constant copied between media", VISC,
     ("        a = 5.70e-6\n", "        a = 2.30e-6\n"), "R5.7"),
    ("herold: exponent not updated for the second medium", VISC,
     ("**(0.634 - 1)", "**(0.677 - 1)"), "R5.7"),
    ("abscissa aliased, per-event route through a helper that can "
     "return its argument", EM,
     [("        datax = np.array(area_um, dtype=float, copy=copy)",
       "        datax = np.asarray(area_um, dtype=float)"),
      ("        datax_4lut = scale_feature(feat=featx, data=datax, "
       "**scale_kw)\n",
       "        datax_4lut = _to_lut_width(datax, channel_width,\n"
       "                                   lut_meta[\"channel_width\"])\n"),
      ("        scale_emodulus(lut[:, 2], **scale_kw)\n",
       "        scale_emodulus(lut[:, 2], **scale_kw)\n"
       "        datax = np.array(datax, copy=copy)\n"),
      ("def normalize(data, dmax):",
       "def _to_lut_width(data, w_in, w_out):\n"
       "    if w_in == w_out:\n        return data\n"
       "    return data * (w_out / w_in)**2\n\n\n"
       "def normalize(data, dmax):")], "R5.1"),
    ("lower-case aliases built with the leftover loop variable "
     "(seeded C05_8)", VISC,
     ("        ALIAS_MEDIA[item] = key\n"
      "        ALIAS_MEDIA[item.lower()] = key  # also support all-lower "
      "case\n",
      "        ALIAS_MEDIA[item] = key\n"
      "ALIAS_MEDIA.update({item.lower(): key for item in "
      "list(ALIAS_MEDIA)})\n"), "R5.8"),
    ("lower-case aliases map to themselves", VISC,
     ("        ALIAS_MEDIA[item.lower()] = key  # also",
      "        ALIAS_MEDIA[item.lower()] = item  # also"), "R5.8"),
    ("only canonical names are known media", VISC,
     ("KNOWN_MEDIA = sorted(ALIAS_MEDIA.keys())",
      "KNOWN_MEDIA = sorted(SAME_MEDIA.keys())"), "R5.8"),
    ("alias not resolved before the dispatch", VISC,
     ("    medium = ALIAS_MEDIA[medium]\n\n", "\n"), "R5.8"),
    ("registered tables consulted before the built-in ones", LOAD,
     [("    elif path_or_id in internal_dict:\n",
       "    elif path_or_id in EXTERNAL_LUTS:\n"
       "        lut_path = EXTERNAL_LUTS[path_or_id]\n"
       "    elif path_or_id in internal_dict:\n"),
      ("    elif path_or_id in EXTERNAL_LUTS:\n"
       "        lut_path = EXTERNAL_LUTS[path_or_id]\n    else:\n",
       "    else:\n")], "R5.6"),
    ("built-in identifiers only rejected when read from the file", LOAD,
     [("                             + \"this function.\")\n",
       "                             + \"this function.\")\n"
       "        if identifier in get_internal_lut_names_dict():\n"
       "            raise ValueError(\"in use by an internal LUT!\")\n"),
      ("    elif identifier in get_internal_lut_names_dict():\n"
       "        raise ValueError(\"The identifier '{}' is already \""
       ".format(identifier)\n"
       "                         + \"in use by an internal LUT!\")\n", "")],
     "R5.6"),
    ("fallback model delegates without the flow rate (seeded C05_14)", VISC,
     ("            model = \"herold-2017\"\n",
      "            return get_viscosity(medium=medium,\n"
      "                                 channel_width=channel_width,\n"
      "                                 temperature=temperature,\n"
      "                                 model=\"herold-2017\")\n"), "R5.9"),
    ("flow rate missing from the forwarded keyword dict", VISC,
     ("                  \"flow_rate\": flow_rate,\n", ""), "R5.9"),
    ("shear rate called with swapped arguments", VISC,
     ("shear_rate_square_channel(flow_rate, channel_width, n)",
      "shear_rate_square_channel(channel_width, flow_rate, n)"), "R5.9"),
    ("get_emodulus does not forward the temperature", EM,
     ("                              flow_rate=flow_rate, "
      "temperature=temperature,\n",
      "                              flow_rate=flow_rate,\n"), "R5.9"),
    ("deprecated identifier translated to a file name (seeded C06_14)",
     LOAD,
     ("        path_or_id = \"LE-2D-FEM-19\"\n",
      "        path_or_id = internal_dict[\"LE-2D-FEM-19\"]\n"), "R5.6"),
    ("registered identifiers not looked up", LOAD,
     ("    elif path_or_id in EXTERNAL_LUTS:\n"
      "        lut_path = EXTERNAL_LUTS[path_or_id]\n", ""), "R5.6"),
    ("volume rescaled in place by the pixelation correction "
     "(seeded C05_16)", PX,
     [("    pxscalev = (.34 / px_um)**3\n",
       "    volume *= (.34 / px_um)**3\n"),
      ("np.exp(-volume * pxscalev / 40)", "np.exp(-volume / 40)"),
      ("np.exp(-volume * pxscalev / 450)", "np.exp(-volume / 450)"),
      ("np.exp(-volume * pxscalev / 6040)", "np.exp(-volume / 6040)")],
     "R5.4"),
    ("viscosity-model fallback differs at one site (seeded C05_17)", AFEM,
     ('calccfg.get("emodulus viscosity model", "herold-2017")',
      'calccfg.get("emodulus viscosity model", "buyukurganci-2022")'),
     "R5.9"),
    ("case B wrapper leaves the pixel size to the default", AFEM,
     ('        px_um=mm.config["imaging"]["pixel size"],\n'
      '        temperature=None,\n', '        temperature=None,\n'), "R5.9"),
    ("known-media wrapper leaves the channel width to the default", AFEM,
     ('        channel_width=mm.config["setup"]["channel width"],\n'
      '        flow_rate=mm.config["setup"]["flow rate"],\n'
      '        px_um=mm.config["imaging"]["pixel size"],\n'
      '        temperature=temperature,\n',
      '        flow_rate=mm.config["setup"]["flow rate"],\n'
      '        px_um=mm.config["imaging"]["pixel size"],\n'
      '        temperature=temperature,\n'), "R5.9"),
    ("case B wrapper hard-codes the flow rate", AFEM,
     ('        flow_rate=mm.config["setup"]["flow rate"],\n'
      '        px_um=mm.config["imaging"]["pixel size"],\n'
      '        temperature=None,\n',
      '        flow_rate=0.16,\n'
      '        px_um=mm.config["imaging"]["pixel size"],\n'
      '        temperature=None,\n'), "R5.9"),
    ("both wrappers drop the look-up table keyword", AFEM,
     [('        lut_data=calccfg["emodulus lut"],\n', '', 1),
      ('        lut_data=calccfg["emodulus lut"],\n', '')], "R5.9"),
    ("shared helper receives a fixed pixel size from one wrapper", AFEM,
     [('def compute_emodulus_visc_only(mm):\n'
       '    """The user entered the viscosity directly"""\n'
       '    calccfg = mm.config["calculation"]\n'
       '    # compute elastic modulus\n'
       '    emod = features.emodulus.get_emodulus(\n',
       'def compute_emodulus_visc_only(mm):\n'
       '    """The user entered the viscosity directly"""\n'
       '    return _emodulus_for(mm, 0.34)\n'
       '\n\n'
       'def _emodulus_for(mm, pixel_size):\n'
       '    calccfg = mm.config["calculation"]\n'
       '    # compute elastic modulus\n'
       '    emod = features.emodulus.get_emodulus(\n'),
      ('        px_um=mm.config["imaging"]["pixel size"],\n'
       '        temperature=None,\n',
       '        px_um=pixel_size,\n'
       '        temperature=None,\n')], "R5.9"),
    ("scale functions invert the inplace flag", SCALE,
     ("    copy = not inplace\n    if issubclass(area_um.dtype.type",
      "    copy = inplace\n    if issubclass(area_um.dtype.type"), "R5.1"),
    ("modulus converted before the in-place scaling (seeded C05_10)",
     SCALE,
     ("    emodulus_corr = np.array(emodulus, copy=copy)\n",
      "    emodulus = np.asarray(emodulus, dtype=float)\n"
      "    emodulus_corr = np.array(emodulus, copy=copy)\n"), "R5.2"),
    ("area converted to float in the copy step", SCALE,
     ("    area_um_corr = np.array(area_um, copy=copy)\n",
      "    area_um_corr = np.array(area_um, dtype=float, copy=copy)\n", 1),
     "R5.2"),
    ("dispatcher converts the data first", SCALE,
     ("    if feat == \"area_um\":\n        return scale_area_um(",
      "    data = np.asarray(data, dtype=float)\n"
      "    if feat == \"area_um\":\n        return scale_area_um("),
     "R5.2"),
    ("area scales linearly", SCALE,
     ("area_um_corr *= (channel_width_out / channel_width_in)**2",
      "area_um_corr *= (channel_width_out / channel_width_in)"), "R5.2"),
    ("area ratio inverted", SCALE,
     ("area_um_corr *= (channel_width_out / channel_width_in)**2",
      "area_um_corr *= (channel_width_in / channel_width_out)**2"), "R5.2"),
    ("volume scales like an area", SCALE,
     ("volume_corr *= (channel_width_out / channel_width_in)**3",
      "volume_corr *= (channel_width_out / channel_width_in)**2"), "R5.2"),
    ("modulus width exponent", SCALE,
     ("            * (channel_width_in / channel_width_out)**3",
      "            * (channel_width_in / channel_width_out)**2"), "R5.2"),
    ("modulus width ratio inverted", SCALE,
     ("            * (channel_width_in / channel_width_out)**3",
      "            * (channel_width_out / channel_width_in)**3"), "R5.2"),
    ("modulus loses the viscosity ratio", SCALE,
     ("        emodulus_corr *= (flow_rate_out / flow_rate_in) \\\n"
      "            * (viscosity_out / viscosity_in) \\\n",
      "        emodulus_corr *= (flow_rate_out / flow_rate_in) \\\n"),
     "R5.2"),
    ("viscosity change alone is not a change", SCALE,
     ("                   or (isinstance(viscosity_out, np.ndarray)  # check "
      "before\n                       or viscosity_in != viscosity_out)\n",
      ""), "R5.2"),
    ("dispatch drops inplace", SCALE,
     ("        return scale_area_um(area_um=data, inplace=inplace, "
      "**scale_kw)", "        return scale_area_um(area_um=data, **scale_kw)"
      ), "R5.2"),
    ("volume dispatched to the area law", SCALE,
     ("        return scale_volume(volume=data, inplace=inplace, **scale_kw)",
      "        return scale_area_um(area_um=data, inplace=inplace, "
      "**scale_kw)"), "R5.2"),
    ("back-scaling with swapped flow rates", EM,
     ('                        "flow_rate_in": lut_meta["flow_rate"],\n'
      '                        "flow_rate_out": flow_rate,\n'
      '                        "viscosity_in": lut_meta["fluid_viscosity"],\n'
      '                        "viscosity_out": visco,\n'
      '                        "inplace": True}\n'
      '        # deformation is not scaled (no units)\n'
      '        scale_feature(feat=featx, data=datax_4lut',
      '                        "flow_rate_in": flow_rate,\n'
      '                        "flow_rate_out": lut_meta["flow_rate"],\n'
      '                        "viscosity_in": lut_meta["fluid_viscosity"],\n'
      '                        "viscosity_out": visco,\n'
      '                        "inplace": True}\n'
      '        # deformation is not scaled (no units)\n'
      '        scale_feature(feat=featx, data=datax_4lut'), "R5.3"),
    ("per-event data scaled away from the LUT", EM,
     ('        scale_kw = {"channel_width_in": channel_width,\n'
      '                    "channel_width_out": lut_meta["channel_width"],',
      '        scale_kw = {"channel_width_in": lut_meta["channel_width"],\n'
      '                    "channel_width_out": channel_width,'), "R5.3"),
    ("global route uses the experiment's viscosity as source", EM,
     ('        scale_kw = {"channel_width_in": lut_meta["channel_width"],\n'
      '                    "channel_width_out": channel_width,\n'
      '                    "flow_rate_in": lut_meta["flow_rate"],\n'
      '                    "flow_rate_out": flow_rate,\n'
      '                    "viscosity_in": lut_meta["fluid_viscosity"],\n'
      '                    "viscosity_out": visco,',
      '        scale_kw = {"channel_width_in": lut_meta["channel_width"],\n'
      '                    "channel_width_out": channel_width,\n'
      '                    "flow_rate_in": lut_meta["flow_rate"],\n'
      '                    "flow_rate_out": flow_rate,\n'
      '                    "viscosity_in": visco,\n'
      '                    "viscosity_out": lut_meta["fluid_viscosity"],'),
     "R5.3"),
    ("global route scales the deformation column as modulus", EM,
     ("        scale_emodulus(lut[:, 2], **scale_kw)",
      "        scale_emodulus(lut[:, 1], **scale_kw)"), "R5.3"),
    ("offset added", EM,
     ("        deform -= get_pixelation_delta(",
      "        deform += get_pixelation_delta("), "R5.4"),
    ("correction after the routes", EM,
     lambda s: (lambda blk: s.replace(blk, "").replace(
         "    # Let the user know when the emodulus contains too many nan",
         blk + "    # Let the user know when the emodulus contains too many "
         "nan"))(s[s.index("    if px_um:\n"):s.index("    # Compute viscosity")
                   ]), "R5.4"),
    ("circ offset not negated", PX,
     ('    elif feat_corr == "circ" and feat_absc == "area_um":\n'
      "        delt = -corr_deform_with_area_um(data_absc, px_um=px_um)",
      '    elif feat_corr == "circ" and feat_absc == "area_um":\n'
      "        delt = corr_deform_with_area_um(data_absc, px_um=px_um)"),
     "R5.4"),
    ("volume abscissa uses the area formula", PX,
     ('    elif feat_corr == "deform" and feat_absc == "volume":\n'
      "        delt = corr_deform_with_volume(data_absc, px_um=px_um)",
      '    elif feat_corr == "deform" and feat_absc == "volume":\n'
      "        delt = corr_deform_with_area_um(data_absc, px_um=px_um)"),
     "R5.4"),
    ("pixel scale of the volume formula squared", PX,
     ("    pxscalev = (.34 / px_um)**3", "    pxscalev = (.34 / px_um)**2"),
     "R5.4"),
    ("third exponential dropped from the sum", PX,
     ("    delta = offs + exp1 + exp2 + exp3\n\n    return delta",
      "    delta = offs + exp1 + exp2\n\n    return delta"), "R5.4"),
    ("nearest-neighbour interpolation", EM,
     ("                              (datax, deform),\n"
      "                              method='linear')",
      "                              (datax, deform),\n"
      "                              method='nearest')"), "R5.5"),
    ("fill value outside the support", EM,
     ("                              (datax_4lut, deform_4lut),\n"
      "                              method='linear')",
      "                              (datax_4lut, deform_4lut),\n"
      "                              method='linear', fill_value=0)"),
     "R5.5"),
    ("maximum taken before the LUT is scaled", EM,
     ("        scale_feature(feat=featx, data=lut[:, 0], **scale_kw)\n"
      "        scale_emodulus(lut[:, 2], **scale_kw)\n\n"
      "        # Normalize interpolation data such that the spacing for\n"
      "        # area and deformation is about the same during interpolation."
      "\n        featx_norm = lut[:, 0].max()\n",
      "        featx_norm = lut[:, 0].max()\n"
      "        scale_feature(feat=featx, data=lut[:, 0], **scale_kw)\n"
      "        scale_emodulus(lut[:, 2], **scale_kw)\n\n"), "R5.5"),
    ("data normalised by the wrong axis", EM,
     ("        normalize(datax, featx_norm)", "        normalize(datax, "
      "defo_norm)"), "R5.5"),
    ("extrapolation on by default", EM,
     ("INACCURATE_SPLINE_EXTRAPOLATION = False",
      "INACCURATE_SPLINE_EXTRAPOLATION = True"), "R5.5"),
]

TWINS = [
    ("wrapper reads the set-up into locals and passes a keyword dict", AFEM,
     ('    emod = features.emodulus.get_emodulus(\n'
      '        area_um=mm["area_um"],\n'
      '        deform=mm["deform"],\n'
      '        medium=calccfg["emodulus viscosity"],\n'
      '        channel_width=mm.config["setup"]["channel width"],\n'
      '        flow_rate=mm.config["setup"]["flow rate"],\n'
      '        px_um=mm.config["imaging"]["pixel size"],\n'
      '        temperature=None,\n'
      '        visc_model=None,\n'
      '        lut_data=calccfg["emodulus lut"],\n'
      '    )\n',
      '    setup = mm.config["setup"]\n'
      '    pixel_size = mm.config["imaging"]["pixel size"]\n'
      '    kwargs = {"channel_width": setup["channel width"],\n'
      '              "flow_rate": setup["flow rate"],\n'
      '              "px_um": pixel_size,\n'
      '              "lut_data": calccfg["emodulus lut"]}\n'
      '    emod = features.emodulus.get_emodulus(\n'
      '        mm["deform"], mm["area_um"],\n'
      '        medium=calccfg["emodulus viscosity"],\n'
      '        temperature=None,\n'
      '        visc_model=None,\n'
      '        **kwargs)\n')),
    ("case B wrapper delegates to a private helper that takes the medium "
     "key", AFEM,
     ('def compute_emodulus_visc_only(mm):\n'
      '    """The user entered the viscosity directly"""\n'
      '    calccfg = mm.config["calculation"]\n'
      '    # compute elastic modulus\n'
      '    emod = features.emodulus.get_emodulus(\n'
      '        area_um=mm["area_um"],\n'
      '        deform=mm["deform"],\n'
      '        medium=calccfg["emodulus viscosity"],\n',
      'def compute_emodulus_visc_only(mm):\n'
      '    """The user entered the viscosity directly"""\n'
      '    return _emodulus_for(mm, "emodulus viscosity", None)\n'
      '\n\n'
      'def _emodulus_for(mm, medium_key, temp=None):\n'
      '    calccfg = mm.config["calculation"]\n'
      '    # compute elastic modulus\n'
      '    emod = features.emodulus.get_emodulus(\n'
      '        area_um=mm["area_um"],\n'
      '        deform=mm["deform"],\n'
      '        medium=calccfg[medium_key],\n')),
    ("known-media wrapper with reordered keywords and a config alias", AFEM,
     ('        channel_width=mm.config["setup"]["channel width"],\n'
      '        flow_rate=mm.config["setup"]["flow rate"],\n'
      '        px_um=mm.config["imaging"]["pixel size"],\n'
      '        temperature=temperature,\n',
      '        px_um=mm.config["imaging"]["pixel size"],\n'
      '        temperature=temperature,\n'
      '        flow_rate=mm.config["setup"]["flow rate"],\n'
      '        channel_width=mm.config["setup"]["channel width"],\n')),
    ("internal LUT listing cached without bound", LOAD,
     ("@functools.lru_cache()\ndef get_internal_lut_names_dict():",
      "@functools.lru_cache(maxsize=None)\n"
      "def get_internal_lut_names_dict():")),
    ("media branches reordered", VISC,
     ('    if medium == "0.49% MC-PBS":\n'
      '        a = 2.30e-6  # previously 2.23e-6, changed in Reichel2023 '
      'rev 2\n        beta = -0.0056\n'
      '    elif medium == "0.59% MC-PBS":\n        a = 5.70e-6\n'
      '        beta = -0.0744\n    elif medium == "0.83% MC-PBS":\n'
      '        a = 16.52e-6\n        beta = -0.1455\n',
      '    if medium == "0.83% MC-PBS":\n        a = 16.52e-6\n'
      '        beta = -0.1455\n    elif medium == "0.59% MC-PBS":\n'
      '        a = 5.70e-6\n        beta = -0.0744\n'
      '    elif "0.49% MC-PBS" == medium:\n        a, beta = 2.30e-6, '
      '-0.0056\n')),
    ("refactoring: herold parameters named per medium", VISC,
     ('        temp_corr = (temperature / 23.2)**-0.866\n'
      '        term2 = 0.6771 / 0.5928 + 0.2121 / (0.5928 * 0.677)\n'
      '        eta = 0.179 * (term1 * term2)**(0.677 - 1) * temp_corr * 1e3\n'
      '    elif medium == "0.59% MC-PBS":\n'
      '        temp_corr = (temperature / 23.6)**-0.866\n'
      '        term2 = 0.6771 / 0.5928 + 0.2121 / (0.5928 * 0.634)\n'
      '        eta = 0.360 * (term1 * term2)**(0.634 - 1) * temp_corr * 1e3\n'
      '    else:\n        raise NotImplementedError(\n'
      '            f"Medium {medium} not supported for model `herold-2017`!")'
      '\n',
      '        consistency, flow_index, temp_ref = 0.179, 0.677, 23.2\n'
      '    elif medium == "0.59% MC-PBS":\n'
      '        consistency, flow_index, temp_ref = 0.360, 0.634, 23.6\n'
      '    else:\n        raise NotImplementedError(\n'
      '            f"Medium {medium} not supported for model `herold-2017`!")'
      '\n    temp_corr = (temperature / temp_ref)**-0.866\n'
      '    term2 = 0.6771 / 0.5928 + 0.2121 / (0.5928 * flow_index)\n'
      '    eta = consistency * (term1 * term2)**(flow_index - 1) * temp_corr'
      ' * 1e3\n')),
    ("alias table built from items() with a comprehension for the "
     "lower-case forms", VISC,
     ("for key in SAME_MEDIA:\n    for item in SAME_MEDIA[key]:\n"
      "        ALIAS_MEDIA[item] = key\n"
      "        ALIAS_MEDIA[item.lower()] = key  # also support all-lower "
      "case\n",
      "for key, items in SAME_MEDIA.items():\n"
      "    ALIAS_MEDIA.update({item: key for item in items})\n"
      "    ALIAS_MEDIA.update({item.lower(): key for item in items})\n")),
    ("deformation copy passed through asarray", EM,
     ("        deform_4lut = np.array(deform, dtype=float, copy=copy)",
      "        deform_4lut = np.asarray(np.array(deform, dtype=float,\n"
      "                                          copy=copy))")),
    ("copy flag written inline", SCALE,
     ("    volume_corr = np.array(volume, copy=copy)\n",
      "    volume_corr = np.array(volume, copy=not inplace)\n")),
    ("area law written with explicit squares", SCALE,
     ("area_um_corr *= (channel_width_out / channel_width_in)**2",
      "area_um_corr *= channel_width_out * channel_width_out / "
      "(channel_width_in * channel_width_in)")),
    ("modulus law re-associated", SCALE,
     ("        emodulus_corr *= (flow_rate_out / flow_rate_in) \\\n"
      "            * (viscosity_out / viscosity_in) \\\n"
      "            * (channel_width_in / channel_width_out)**3",
      "        emodulus_corr *= flow_rate_out * viscosity_out \\\n"
      "            * channel_width_in**3 \\\n"
      "            / (flow_rate_in * viscosity_in * channel_width_out**3)")),
    ("explicit copy=True for the tuple LUT via .copy()", LOAD,
     ("        lut = np.array(lut, copy=True)  # copy, because of "
      "normalization", "        lut = np.array(lut).copy()")),
    ("conditional copy written out", EM,
     ("        datax = np.array(area_um, dtype=float, copy=copy)",
      "        datax = (np.array(area_um, dtype=float, copy=True) if copy\n"
      "                 else np.asarray(area_um, dtype=float))")),
    ("viscosity variable renamed", EM,
     lambda s: re.sub(r"\bvisco\b", "eta", s)),
    ("pixel guard written explicitly", EM,
     ("    if px_um:\n", "    if px_um != 0:\n")),
    ("back-scaling dict reordered", EM,
     ('        backscale_kw = {"channel_width_in": lut_meta["channel_width"],'
      '\n                        "channel_width_out": channel_width,\n'
      '                        "flow_rate_in": lut_meta["flow_rate"],\n'
      '                        "flow_rate_out": flow_rate,\n',
      '        backscale_kw = {"flow_rate_in": lut_meta["flow_rate"],\n'
      '                        "flow_rate_out": flow_rate,\n'
      '                        "channel_width_in": lut_meta["channel_width"],'
      '\n                        "channel_width_out": channel_width,\n')),
    ("pixel scale written as a quotient of squares", PX,
     ("    pxscale = (.34 / px_um)**2", "    pxscale = .34**2 / px_um**2")),
    ('refactoring: per-axis normalisation helper extracted', EM,
     [('        featx_norm = lut[:, 0].max()\n'
       '        normalize(lut[:, 0], featx_norm)\n'
       '        normalize(datax_4lut, featx_norm)\n'
       '\n'
       '        defo_norm = lut[:, 1].max()\n'
       '        normalize(lut[:, 1], defo_norm)\n'
       '        normalize(deform_4lut, defo_norm)\n',
       '        _normalize_lut_axis(lut[:, 0], datax_4lut)\n'
       '        defo_norm = _normalize_lut_axis(lut[:, 1], deform_4lut)\n'),
      ('        featx_norm = lut[:, 0].max()\n'
       '        normalize(lut[:, 0], featx_norm)\n'
       '        normalize(datax, featx_norm)\n'
       '\n'
       '        defo_norm = lut[:, 1].max()\n'
       '        normalize(lut[:, 1], defo_norm)\n'
       '        normalize(deform, defo_norm)\n',
       '        _normalize_lut_axis(lut[:, 0], datax)\n'
       '        defo_norm = _normalize_lut_axis(lut[:, 1], deform)\n'),
      ('def normalize(data, dmax):\n',
       'def _normalize_lut_axis(lut_column, data):\n'
       '    """Divide LUT column and event data in-place by the column\'s '
       'maximum"""\n'
       '    col_max = lut_column.max()\n'
       '    normalize(lut_column, col_max)\n'
       '    normalize(data, col_max)\n'
       '    return col_max\n'
       '\n'
       '\n'
       'def normalize(data, dmax):\n')]),
    ('refactoring: named intermediates in the scale laws', SCALE,
     [('        area_um_corr *= (channel_width_out / channel_width_in)**2\n',
       "        # characteristic length ratio L'/L\n"
       '        length_ratio = channel_width_out / channel_width_in\n'
       '        area_um_corr *= length_ratio**2\n'),
      ('        emodulus_corr *= (flow_rate_out / flow_rate_in) \\\n'
       '            * (viscosity_out / viscosity_in) \\\n'
       '            * (channel_width_in / channel_width_out)**3\n',
       '        flow_rate_ratio = flow_rate_out / flow_rate_in\n'
       '        viscosity_ratio = viscosity_out / viscosity_in\n'
       '        inv_length_ratio = channel_width_in / channel_width_out\n'
       '        scale_factor = (flow_rate_ratio * viscosity_ratio\n'
       '                        * inv_length_ratio**3)\n'
       '        emodulus_corr *= scale_factor\n'),
      ('        volume_corr *= (channel_width_out / channel_width_in)**3\n',
       "        # characteristic length ratio L'/L\n"
       '        length_ratio = channel_width_out / channel_width_in\n'
       '        volume_corr *= length_ratio**3\n')]),
    ('refactoring: guard clauses in get_pixelation_delta', PX,
     [('        delt = corr_deform_with_area_um(data_absc, px_um=px_um)\n'
       '    elif feat_corr == "circ" and feat_absc == "area_um":\n'
       '        delt = -corr_deform_with_area_um(data_absc, px_um=px_um)\n'
       '    elif feat_corr == "deform" and feat_absc == "volume":\n'
       '        delt = corr_deform_with_volume(data_absc, px_um=px_um)\n'
       '    elif feat_corr == "circ" and feat_absc == "volume":\n'
       '        delt = -corr_deform_with_volume(data_absc, px_um=px_um)\n'
       '    elif feat_corr == "area_um":\n'
       '        # no correction for area\n'
       '        delt = np.zeros_like(data_absc, dtype=float)\n'
       '    elif feat_corr == "volume":\n'
       '        # no correction for volume\n'
       '        delt = np.zeros_like(data_absc, dtype=float)\n'
       '    elif feat_corr == feat_absc:\n'
       '        raise ValueError("Input feature names are identical!")\n'
       '    else:\n'
       '        raise KeyError(\n'
       '            "No rule for feature \'{}\' with abscissa '
       '".format(feat_corr)\n'
       '            + "\'{}\'!".format(feat_absc))\n'
       '    return delt\n',
       '        return corr_deform_with_area_um(data_absc, px_um=px_um)\n'
       '    if feat_corr == "circ" and feat_absc == "area_um":\n'
       '        return -corr_deform_with_area_um(data_absc, px_um=px_um)\n'
       '    if feat_corr == "deform" and feat_absc == "volume":\n'
       '        return corr_deform_with_volume(data_absc, px_um=px_um)\n'
       '    if feat_corr == "circ" and feat_absc == "volume":\n'
       '        return -corr_deform_with_volume(data_absc, px_um=px_um)\n'
       '    if feat_corr == "area_um":\n'
       '        # no correction for area\n'
       '        return np.zeros_like(data_absc, dtype=float)\n'
       '    if feat_corr == "volume":\n'
       '        # no correction for volume\n'
       '        return np.zeros_like(data_absc, dtype=float)\n'
       '    if feat_corr == feat_absc:\n'
       '        raise ValueError("Input feature names are identical!")\n'
       '    raise KeyError(\n'
       '        "No rule for feature \'{}\' with abscissa '
       '".format(feat_corr)\n'
       '        + "\'{}\'!".format(feat_absc))\n')]),
    ('refactoring 2: abscissa input picked by a conditional expression', EM,
     [('    if featx == "area_um" and featy == "deform":\n'
       '        assert volume is None, "Don\'t define area_um and volume at '
       'same time!"\n'
       '        datax = np.array(area_um, dtype=float, copy=copy)\n'
       '    elif featx == "volume" and featy == "deform":\n'
       '        assert area_um is None, "Don\'t define area_um and volume at '
       'same time!"\n'
       '        datax = np.array(volume, dtype=float, copy=copy)\n'
       '    else:\n'
       '        raise KeyError("No recipe for \'{}\' and '
       '\'{}\'!".format(featx, featy))\n',
       '    if not ((featx == "area_um" or featx == "volume") and featy == '
       '"deform"):\n'
       '        raise KeyError("No recipe for \'{}\' and '
       '\'{}\'!".format(featx, featy))\n'
       '    # `datax_in` is the abscissa of the LUT, `datax_other` must not '
       'be given\n'
       '    datax_in, datax_other = ((area_um, volume) if featx == "area_um"\n'
       '                             else (volume, area_um))\n'
       '    assert datax_other is None, "Don\'t define area_um and volume at '
       'same time!"\n'
       '    datax = np.array(datax_in, dtype=float, copy=copy)\n')]),
    ('refactoring 2: has_nones via any() over a tuple, nested ifs merged', SCALE,
     [('    if viscosity_in is not None:\n'
       '        if isinstance(viscosity_in, np.ndarray):\n'
       '            raise ValueError("`viscosity_in` must not be an array!")\n'
       '\n'
       '    has_nones = (flow_rate_in is None\n'
       '                 or flow_rate_out is None\n'
       '                 or viscosity_in is None\n'
       '                 or viscosity_out is None\n'
       '                 or channel_width_in is None\n'
       '                 or channel_width_out is None\n'
       '                 )\n',
       '    if viscosity_in is not None and isinstance(viscosity_in, '
       'np.ndarray):\n'
       '        raise ValueError("`viscosity_in` must not be an array!")\n'
       '\n'
       '    scale_args = (flow_rate_in, flow_rate_out,\n'
       '                  viscosity_in, viscosity_out,\n'
       '                  channel_width_in, channel_width_out)\n'
       '    has_nones = any(arg is None for arg in scale_args)\n')]),
    ('refactoring 2: viscosity dispatcher passes keywords explicitly', VISC,
     [('        kwargs = {"medium": medium,\n'
       '                  "temperature": temperature,\n'
       '                  "flow_rate": flow_rate,\n'
       '                  "channel_width": channel_width}\n'
       '\n',
       ''),
      ('            eta = get_viscosity_mc_pbs_herold_2017(**kwargs)\n'
       '        elif model == "buyukurganci-2022":\n'
       '            eta = get_viscosity_mc_pbs_buyukurganci_2022(**kwargs)\n',
       '            eta = get_viscosity_mc_pbs_herold_2017(\n'
       '                medium=medium,\n'
       '                temperature=temperature,\n'
       '                flow_rate=flow_rate,\n'
       '                channel_width=channel_width)\n'
       '        elif model == "buyukurganci-2022":\n'
       '            eta = get_viscosity_mc_pbs_buyukurganci_2022(\n'
       '                medium=medium,\n'
       '                temperature=temperature,\n'
       '                flow_rate=flow_rate,\n'
       '                channel_width=channel_width)\n')]),
    ('refactoring 2: decay terms looped over module-level tables', PX,
     [('def corr_deform_with_area_um(area_um, px_um=0.34):\n',
       '#: (amplitude, decay constant [µm²]) of the triple-exponential decay\n'
       '#: used in :func:`corr_deform_with_area_um`\n'
       '_DECAYS_AREA_UM = ((0.020, 7.1), (0.010, 38.6), (0.005, 296))\n'
       '\n'
       '#: (amplitude, decay constant [µm³]) of the triple-exponential decay\n'
       '#: used in :func:`corr_deform_with_volume`\n'
       '_DECAYS_VOLUME = ((0.0172, 40), (0.0070, 450), (0.0032, 6040))\n'
       '\n'
       '\n'
       'def corr_deform_with_area_um(area_um, px_um=0.34):\n'),
      ('    exp1 = 0.020 * np.exp(-area_um * pxscale / 7.1)\n'
       '    exp2 = 0.010 * np.exp(-area_um * pxscale / 38.6)\n'
       '    exp3 = 0.005 * np.exp(-area_um * pxscale / 296)\n'
       '    delta = offs + exp1 + exp2 + exp3\n',
       '    delta = offs\n'
       '    for ampl, decay in _DECAYS_AREA_UM:\n'
       '        delta = delta + ampl * np.exp(-area_um * pxscale / decay)\n'),
      ('    exp1 = 0.0172 * np.exp(-volume * pxscalev / 40)\n'
       '    exp2 = 0.0070 * np.exp(-volume * pxscalev / 450)\n'
       '    exp3 = 0.0032 * np.exp(-volume * pxscalev / 6040)\n'
       '    delta = offs + exp1 + exp2 + exp3\n',
       '    delta = offs\n'
       '    for ampl, decay in _DECAYS_VOLUME:\n'
       '        delta = delta + ampl * np.exp(-volume * pxscalev / decay)\n')]),
    ('refactoring 2: expected units in a module-level table', LOAD,
     [('\n@functools.lru_cache()\n',
       '#: Units expected in the column header of a text file for each '
       'feature\n'
       '#: (sanity checks in :func:`load_mtext`)\n'
       '_EXPECTED_UNITS = {\n'
       '    "deform": "",\n'
       '    "area_um": "um^2",\n'
       '    "emodulus": "kPa",\n'
       '    "volume": "um^3",\n'
       '}\n'
       '\n'
       '\n'
       '@functools.lru_cache()\n'),
      ('        if ft == "deform":\n'
       '            assert un == ""\n'
       '        elif ft == "area_um":\n'
       '            assert un == "um^2"\n'
       '        elif ft == "emodulus":\n'
       '            assert un == "kPa"\n'
       '        elif ft == "volume":\n'
       '            assert un == "um^3"\n'
       '        else:\n'
       '            assert False, "Please add sanity check for '
       '{}!".format(ft)\n',
       '        assert ft in _EXPECTED_UNITS, \\\n'
       '            "Please add sanity check for {}!".format(ft)\n'
       '        assert un == _EXPECTED_UNITS[ft]\n')]),
    ('refactoring 3: interpolation and extrapolation in a shared helper', EM,
     [('        emod = spint.griddata((lut[:, 0], lut[:, 1]), lut[:, 2],\n'
       '                              (datax_4lut, deform_4lut),\n'
       "                              method='linear')\n"
       '\n'
       '        if extrapolate:\n'
       '            # New in dclab 0.23.0: Perform extrapolation outside of '
       'the LUT\n'
       '            # This is not well-tested and thus discouraged!\n'
       '            extrapolate_emodulus(lut=lut,\n'
       '                                 datax=datax_4lut,\n'
       '                                 deform=deform_4lut,\n'
       '                                 emod=emod,\n'
       '                                 deform_norm=defo_norm,\n'
       '                                 inplace=True)\n',
       '        emod = _interpolate_lut(lut=lut, datax=datax_4lut,\n'
       '                                deform=deform_4lut, '
       'deform_norm=defo_norm,\n'
       '                                extrapolate=extrapolate)\n'),
      ('        emod = spint.griddata((lut[:, 0], lut[:, 1]), lut[:, 2],\n'
       '                              (datax, deform),\n'
       "                              method='linear')\n"
       '\n'
       '        if extrapolate:\n'
       '            # New in dclab 0.23.0: Perform extrapolation outside of '
       'the LUT\n'
       '            # This is not well-tested and thus discouraged!\n'
       '            extrapolate_emodulus(lut=lut,\n'
       '                                 datax=datax,\n'
       '                                 deform=deform,\n'
       '                                 emod=emod,\n'
       '                                 deform_norm=defo_norm,\n'
       '                                 inplace=True)\n',
       '        emod = _interpolate_lut(lut=lut, datax=datax, deform=deform,\n'
       '                                deform_norm=defo_norm,\n'
       '                                extrapolate=extrapolate)\n'),
      ('def normalize(data, dmax):\n',
       'def _interpolate_lut(lut, datax, deform, deform_norm, extrapolate):\n'
       '    """Interpolate the normalized LUT at the normalized (datax, '
       'deform)\n'
       '\n'
       '    This is the interpolation step shared by both computation routes\n'
       '    of :func:`get_emodulus`. All arrays must already be normalized\n'
       '    (see :func:`normalize`); `deform_norm` is the normalization '
       'value\n'
       '    that was used for `lut[:, 1]` and `deform`.\n'
       '    """\n'
       '    emod = spint.griddata((lut[:, 0], lut[:, 1]), lut[:, 2],\n'
       '                          (datax, deform),\n'
       "                          method='linear')\n"
       '\n'
       '    if extrapolate:\n'
       '        # New in dclab 0.23.0: Perform extrapolation outside of the '
       'LUT\n'
       '        # This is not well-tested and thus discouraged!\n'
       '        extrapolate_emodulus(lut=lut,\n'
       '                             datax=datax,\n'
       '                             deform=deform,\n'
       '                             emod=emod,\n'
       '                             deform_norm=deform_norm,\n'
       '                             inplace=True)\n'
       '    return emod\n'
       '\n'
       '\n'
       'def normalize(data, dmax):\n')]),
    ('refactoring 3: scale laws with early-return guards', SCALE,
     [('    if channel_width_in != channel_width_out:\n'
       '        area_um_corr *= (channel_width_out / channel_width_in)**2\n',
       '    if channel_width_in == channel_width_out:\n'
       '        # nothing to scale\n'
       '        return area_um_corr\n'
       '\n'
       '    area_um_corr *= (channel_width_out / channel_width_in)**2\n'),
      ('    if not has_nones and has_changes:\n'
       '        emodulus_corr *= (flow_rate_out / flow_rate_in) \\\n'
       '            * (viscosity_out / viscosity_in) \\\n'
       '            * (channel_width_in / channel_width_out)**3\n'
       '\n',
       '    if has_nones or not has_changes:\n'
       '        # nothing to scale\n'
       '        return emodulus_corr\n'
       '\n'
       '    emodulus_corr *= ((flow_rate_out / flow_rate_in)\n'
       '                      * (viscosity_out / viscosity_in)\n'
       '                      * (channel_width_in / channel_width_out)**3)\n'),
      ('    if channel_width_in != channel_width_out:\n'
       '        volume_corr *= (channel_width_out / channel_width_in)**3\n',
       '    if channel_width_in == channel_width_out:\n'
       '        # nothing to scale\n'
       '        return volume_corr\n'
       '\n'
       '    volume_corr *= (channel_width_out / channel_width_in)**3\n')]),
    ('refactoring 3: named intermediate in the decay arguments', PX,
     [('    offs = 0.0012\n'
       '    exp1 = 0.020 * np.exp(-area_um * pxscale / 7.1)\n'
       '    exp2 = 0.010 * np.exp(-area_um * pxscale / 38.6)\n'
       '    exp3 = 0.005 * np.exp(-area_um * pxscale / 296)\n'
       '    delta = offs + exp1 + exp2 + exp3\n'
       '\n'
       '    return delta\n',
       '    # negative area, rescaled to the pixel size of the simulations\n'
       '    neg_area_scaled = -area_um * pxscale\n'
       '    offs = 0.0012\n'
       '    exp1 = 0.020 * np.exp(neg_area_scaled / 7.1)\n'
       '    exp2 = 0.010 * np.exp(neg_area_scaled / 38.6)\n'
       '    exp3 = 0.005 * np.exp(neg_area_scaled / 296)\n'
       '    return offs + exp1 + exp2 + exp3\n'),
      ('    offs = 0.0013\n'
       '    exp1 = 0.0172 * np.exp(-volume * pxscalev / 40)\n'
       '    exp2 = 0.0070 * np.exp(-volume * pxscalev / 450)\n'
       '    exp3 = 0.0032 * np.exp(-volume * pxscalev / 6040)\n'
       '    delta = offs + exp1 + exp2 + exp3\n'
       '    return delta\n',
       '    # negative volume, rescaled to the pixel size of the simulations\n'
       '    neg_volume_scaled = -volume * pxscalev\n'
       '    offs = 0.0013\n'
       '    exp1 = 0.0172 * np.exp(neg_volume_scaled / 40)\n'
       '    exp2 = 0.0070 * np.exp(neg_volume_scaled / 450)\n'
       '    exp3 = 0.0032 * np.exp(neg_volume_scaled / 6040)\n'
       '    return offs + exp1 + exp2 + exp3\n')]),
    ('refactoring 4: decay terms through a local closure', PX,
     [('    offs = 0.0012\n'
       '    exp1 = 0.020 * np.exp(-area_um * pxscale / 7.1)\n'
       '    exp2 = 0.010 * np.exp(-area_um * pxscale / 38.6)\n'
       '    exp3 = 0.005 * np.exp(-area_um * pxscale / 296)\n'
       '    delta = offs + exp1 + exp2 + exp3\n',
       '\n'
       '    def decay(amplitude, constant):\n'
       '        """Single exponential decay term of the correction"""\n'
       '        return amplitude * np.exp(-area_um * pxscale / constant)\n'
       '\n'
       '    offs = 0.0012\n'
       '    delta = offs + decay(0.020, 7.1) + decay(0.010, 38.6) + '
       'decay(0.005, 296)\n'),
      ('    offs = 0.0013\n'
       '    exp1 = 0.0172 * np.exp(-volume * pxscalev / 40)\n'
       '    exp2 = 0.0070 * np.exp(-volume * pxscalev / 450)\n'
       '    exp3 = 0.0032 * np.exp(-volume * pxscalev / 6040)\n'
       '    delta = offs + exp1 + exp2 + exp3\n',
       '\n'
       '    def decay(amplitude, constant):\n'
       '        """Single exponential decay term of the correction"""\n'
       '        return amplitude * np.exp(-volume * pxscalev / constant)\n'
       '\n'
       '    offs = 0.0013\n'
       '    delta = offs + decay(0.0172, 40) + decay(0.0070, 450) + '
       'decay(0.0032, 6040)\n')]),
    ('refactoring 4: area and volume laws share a helper with an exponent parameter', SCALE,
     [('def scale_area_um(area_um, channel_width_in, channel_width_out, '
       'inplace=False,\n',
       'def _scale_by_length_ratio(data, channel_width_in, '
       'channel_width_out,\n'
       '                           exponent, inplace):\n'
       '    """Scale `data` (a copy unless `inplace`) with '
       '(L\'/L)^exponent"""\n'
       '    data_corr = np.array(data, copy=not inplace)\n'
       '\n'
       '    if channel_width_in != channel_width_out:\n'
       '        data_corr *= (channel_width_out / '
       'channel_width_in)**exponent\n'
       '    return data_corr\n'
       '\n'
       '\n'
       'def scale_area_um(area_um, channel_width_in, channel_width_out, '
       'inplace=False,\n'),
      ('    copy = not inplace\n'
       '    if issubclass(area_um.dtype.type, np.integer) and inplace:\n'
       '        raise ValueError("Cannot correct integer `area_um` '
       'in-place!")\n'
       '    area_um_corr = np.array(area_um, copy=copy)\n'
       '\n'
       '    if channel_width_in != channel_width_out:\n'
       '        area_um_corr *= (channel_width_out / channel_width_in)**2\n'
       '    return area_um_corr\n',
       '    if issubclass(area_um.dtype.type, np.integer) and inplace:\n'
       '        raise ValueError("Cannot correct integer `area_um` '
       'in-place!")\n'
       '    return _scale_by_length_ratio(area_um, channel_width_in,\n'
       '                                  channel_width_out, exponent=2,\n'
       '                                  inplace=inplace)\n'),
      ('    copy = not inplace\n'
       '    volume_corr = np.array(volume, copy=copy)\n'
       '\n'
       '    if channel_width_in != channel_width_out:\n'
       '        volume_corr *= (channel_width_out / channel_width_in)**3\n'
       '    return volume_corr\n',
       '    return _scale_by_length_ratio(volume, channel_width_in,\n'
       '                                  channel_width_out, exponent=3,\n'
       '                                  inplace=inplace)\n')]),
    ('refactoring 5: LUT columns bound to local view aliases', EM,
     [('        featx_norm = lut[:, 0].max()\n'
       '        normalize(lut[:, 0], featx_norm)\n'
       '        normalize(datax_4lut, featx_norm)\n'
       '\n'
       '        defo_norm = lut[:, 1].max()\n'
       '        normalize(lut[:, 1], defo_norm)\n'
       '        normalize(deform_4lut, defo_norm)\n'
       '\n'
       '        # Perform interpolation\n'
       '        emod = spint.griddata((lut[:, 0], lut[:, 1]), lut[:, 2],\n',
       '        # (`lut_x` and `lut_defo` are views; normalization modifies '
       '`lut`)\n'
       '        lut_x = lut[:, 0]\n'
       '        featx_norm = lut_x.max()\n'
       '        normalize(lut_x, featx_norm)\n'
       '        normalize(datax_4lut, featx_norm)\n'
       '\n'
       '        lut_defo = lut[:, 1]\n'
       '        defo_norm = lut_defo.max()\n'
       '        normalize(lut_defo, defo_norm)\n'
       '        normalize(deform_4lut, defo_norm)\n'
       '\n'
       '        # Perform interpolation\n'
       '        emod = spint.griddata((lut_x, lut_defo), lut[:, 2],\n'),
      ('        scale_feature(feat=featx, data=lut[:, 0], **scale_kw)\n'
       '        scale_emodulus(lut[:, 2], **scale_kw)\n'
       '\n'
       '        # Normalize interpolation data such that the spacing for\n'
       '        # area and deformation is about the same during '
       'interpolation.\n'
       '        featx_norm = lut[:, 0].max()\n'
       '        normalize(lut[:, 0], featx_norm)\n'
       '        normalize(datax, featx_norm)\n'
       '\n'
       '        defo_norm = lut[:, 1].max()\n'
       '        normalize(lut[:, 1], defo_norm)\n'
       '        normalize(deform, defo_norm)\n'
       '\n'
       '        # Perform interpolation\n'
       '        emod = spint.griddata((lut[:, 0], lut[:, 1]), lut[:, 2],\n',
       '        # (`lut_x`, `lut_emod`, and `lut_defo` are views; scaling '
       'and\n'
       '        # normalization modify `lut`)\n'
       '        lut_x = lut[:, 0]\n'
       '        scale_feature(feat=featx, data=lut_x, **scale_kw)\n'
       '        lut_emod = lut[:, 2]\n'
       '        scale_emodulus(lut_emod, **scale_kw)\n'
       '\n'
       '        # Normalize interpolation data such that the spacing for\n'
       '        # area and deformation is about the same during '
       'interpolation.\n'
       '        featx_norm = lut_x.max()\n'
       '        normalize(lut_x, featx_norm)\n'
       '        normalize(datax, featx_norm)\n'
       '\n'
       '        lut_defo = lut[:, 1]\n'
       '        defo_norm = lut_defo.max()\n'
       '        normalize(lut_defo, defo_norm)\n'
       '        normalize(deform, defo_norm)\n'
       '\n'
       '        # Perform interpolation\n'
       '        emod = spint.griddata((lut_x, lut_defo), lut_emod,\n')]),
    ('refactoring 5: per-medium constants in a table of namedtuples', VISC,
     [('from typing import Literal\n',
       'from collections import namedtuple\nfrom typing import Literal\n'),
      ('class TemperatureOutOfRangeWarning(PipelineWarning):\n',
       "#: Medium-specific material constants of the 'buyukurganci-2022' "
       'model\n'
       '_BuyukurganciParams = namedtuple("_BuyukurganciParams",\n'
       '                                 ["medium", "a", "beta"])\n'
       '_BUYUKURGANCI_PARAMS = (\n'
       '    # `a` was previously 2.23e-6, changed in Reichel2023 rev 2\n'
       '    _BuyukurganciParams("0.49% MC-PBS", a=2.30e-6, beta=-0.0056),\n'
       '    _BuyukurganciParams("0.59% MC-PBS", a=5.70e-6, beta=-0.0744),\n'
       '    _BuyukurganciParams("0.83% MC-PBS", a=16.52e-6, beta=-0.1455),\n'
       ')\n'
       '\n'
       '\n'
       'class TemperatureOutOfRangeWarning(PipelineWarning):\n'),
      ('    if medium == "0.49% MC-PBS":\n'
       '        a = 2.30e-6  # previously 2.23e-6, changed in Reichel2023 rev '
       '2\n'
       '        beta = -0.0056\n'
       '    elif medium == "0.59% MC-PBS":\n'
       '        a = 5.70e-6\n'
       '        beta = -0.0744\n'
       '    elif medium == "0.83% MC-PBS":\n'
       '        a = 16.52e-6\n'
       '        beta = -0.1455\n'
       '    else:\n'
       '        raise NotImplementedError(\n'
       '            f"Medium {medium} not supported for model '
       '`buyukurganci-2022`!")\n',
       '    # first table entry for this medium (same order as the former '
       'if-chain)\n'
       '    params = next(\n'
       '        (pp for pp in _BUYUKURGANCI_PARAMS if medium == pp.medium), '
       'None)\n'
       '    if params is None:\n'
       '        raise NotImplementedError(\n'
       '            f"Medium {medium} not supported for model '
       '`buyukurganci-2022`!")\n'
       '    _, a, beta = params\n')]),
    ('refactoring 6: column specs as namedtuples with a unit check helper', LOAD,
     [('from contextlib import ExitStack\n',
       'import collections\nfrom contextlib import ExitStack\n'),
      ('\n@functools.lru_cache()\n',
       '#: Feature name and unit of one data column, parsed from the header '
       'line\n'
       '_ColumnSpec = collections.namedtuple("_ColumnSpec", ["feature", '
       '"unit"])\n'
       '\n'
       '\n'
       'def _check_column_units(columns):\n'
       '    """Sanity checks for the units of a list of '
       ':class:`_ColumnSpec`"""\n'
       '    for col in columns:\n'
       '        if col.feature == "deform":\n'
       '            assert col.unit == ""\n'
       '        elif col.feature == "area_um":\n'
       '            assert col.unit == "um^2"\n'
       '        elif col.feature == "emodulus":\n'
       '            assert col.unit == "kPa"\n'
       '        elif col.feature == "volume":\n'
       '            assert col.unit == "um^3"\n'
       '        else:\n'
       '            assert False, "Please add sanity check for {}!".format(\n'
       '                col.feature)\n'
       '\n'
       '\n'
       'def _parse_column_header(header_line):\n'
       '    """Return a list of :class:`_ColumnSpec` for a tab-separated '
       'header"""\n'
       '    columns = []\n'
       '    for hh in header_line.strip("# ").split("\\t"):\n'
       '        if hh.count(" "):\n'
       '            ft, un = hh.strip().split(" ")\n'
       '            un = un.strip("[]")\n'
       '        else:\n'
       '            ft = hh\n'
       '            un = ""\n'
       '        if not dfn.scalar_feature_exists(ft):\n'
       '            raise ValueError("Scalar feature not known: '
       '\'{}\'".format(ft))\n'
       '        columns.append(_ColumnSpec(feature=ft, unit=un))\n'
       '    return columns\n'
       '\n'
       '\n'
       '@functools.lru_cache()\n'),
      ('    feats = []\n'
       '    units = []\n'
       '    for hh in prev_line.strip("# ").split("\\t"):\n'
       '        if hh.count(" "):\n'
       '            ft, un = hh.strip().split(" ")\n'
       '            un = un.strip("[]")\n'
       '        else:\n'
       '            ft = hh\n'
       '            un = ""\n'
       '        if not dfn.scalar_feature_exists(ft):\n'
       '            raise ValueError("Scalar feature not known: '
       '\'{}\'".format(ft))\n'
       '        feats.append(ft)\n'
       '        units.append(un)\n'
       '    # data\n'
       '    data = np.loadtxt(path)\n'
       '\n'
       '    meta["column features"] = feats\n'
       '    meta["column units"] = units\n'
       '\n'
       '    # sanity checks\n'
       '    assert meta["channel_width_unit"] == "um"\n'
       '    assert meta["flow_rate_unit"] == "uL/s"\n'
       '    assert meta["fluid_viscosity_unit"] == "mPa s"\n'
       '    for ft, un in zip(feats, units):\n'
       '        if ft == "deform":\n'
       '            assert un == ""\n'
       '        elif ft == "area_um":\n'
       '            assert un == "um^2"\n'
       '        elif ft == "emodulus":\n'
       '            assert un == "kPa"\n'
       '        elif ft == "volume":\n'
       '            assert un == "um^3"\n'
       '        else:\n'
       '            assert False, "Please add sanity check for '
       '{}!".format(ft)\n',
       '    columns = _parse_column_header(prev_line)\n'
       '    # data\n'
       '    data = np.loadtxt(path)\n'
       '\n'
       '    meta["column features"] = [col.feature for col in columns]\n'
       '    meta["column units"] = [col.unit for col in columns]\n'
       '\n'
       '    # sanity checks\n'
       '    assert meta["channel_width_unit"] == "um"\n'
       '    assert meta["flow_rate_unit"] == "uL/s"\n'
       '    assert meta["fluid_viscosity_unit"] == "mPa s"\n'
       '    _check_column_units(columns)\n')]),
]
