"""C07 – basin-provided features equal the origin's data for the mapped events.

R7.1 lookup precedence in ``RTDCBase.__getitem__``: innate -> temporary ->
     cached ancillary -> basins (internal, file, any) -> computed ancillary ->
     KeyError; the type filter of ``_get_basin_feature_data`` skips exactly
     the basins of another type.
R7.2 every access route of ``BasinProxyFeature`` indexes the origin through
     the map (taint from ``self.basinmap``), position / value of
     ``enumerate`` are not confused, output rows = number of mapped indices,
     the requested index is applied to the map; ``BasinProxy`` wraps every
     feature with its own map; mapped basins are wrapped, unmapped ones are
     not; the map is read from the referrer under the declared name.
R7.3 map composition on export: internal basins skipped; unfiltered -> map
     unchanged, "same" -> where(filter), mapped -> map[filter]; the filter
     array is the one that filters the events; the basin that points at the
     exported file has no map, the one that points at the root of a hierarchy
     child has the child->root map, and the upstream basins of a hierarchy
     child (which are the root's basins) are re-mapped with it;
     ``store_basin`` writes as mapping name the feature that holds the map.
R7.4 each named object is created once: a creating call must not sit in a
     loop in which its name argument is invariant (unless guarded by an
     existence test inside that loop).
R7.5 relocation: the bare file name is stored for local basins, location
     strings pass ``store_basin(verify=False)`` unchanged and
     ``basins_retrieve`` also tries the location relative to the referrer.
R7.7 memo purity: what the classes of feat_basin.py store on ``self`` outside
     ``__init__`` (lazy caches) is not computed from the arguments of the call
     that fills it (except the key it is stored under).
R7.6 feature wrappers: the first axis reported by ``shape`` / ``size``
     derives from the same source as ``__len__``; a wrapper that re-indexes
     the first axis must not forward ``shape`` / ``size`` to the wrapped
     object.
"""
from __future__ import annotations

import ast

from ..cfg import CFG, branch_facts
from ..core import (AnalysisError, call_name, const_str, find_calls, is_name,
                    is_self_attr, kwarg, last_attr, names_in, short, txt,
                    walk)
from ..normalize import expand_locals
from ..lib_C14 import (COPIER, CORE, EXPORT, FB, WRITER, Mini, Model, USet,
                       basin_loop, dewalrus, expand_partials,
                       expand_self_aliases, ifexp_to_if,
                       inline_module_helpers, method_mro,
                       Unknown, Unordered, base_names, cfg_ids,
                       classes_in, edge_guarded, enclosing_conditions,
                       fact_guard, fold, method, single_assign, stmt_of)

ASSUMPTIONS = [
    "NOT decided: equality of the delivered data with origin[feat][map] for "
    "arbitrary maps, chains and access patterns (numpy / h5py indexing "
    "semantics are trusted); identifier verification is decided in C14 "
    "(R14.3).",
    "NOT decided: export with filtered=False while the length check forces "
    "a truncating filter (basins are then written unmapped).",
    "R7.6 looks at module-level classes of the listed wrapper modules that "
    "define (or inherit inside the module) __len__ and provide shape/size.",
]

HIER = "dclab/rtdc_dataset/fmt_hierarchy/base.py"
WRAPPER_FILES = [
    "dclab/rtdc_dataset/fmt_hdf5/events.py",
    "dclab/rtdc_dataset/fmt_hierarchy/events.py",
    FB,
    "dclab/rtdc_dataset/fmt_dict.py",
    "dclab/features/contour.py",
    "dclab/rtdc_dataset/fmt_tdms/event_contour.py",
    "dclab/rtdc_dataset/fmt_tdms/event_image.py",
    "dclab/rtdc_dataset/fmt_tdms/event_mask.py",
    "dclab/rtdc_dataset/fmt_tdms/event_trace.py",
]


def is_key(e, var, key):
    return (isinstance(e, ast.Subscript) and is_name(e.value, var)
            and const_str(e.slice) == key)


def dict_get(e, var, key):
    """`var[key]` or `var.get(key)`"""
    if is_key(e, var, key):
        return True
    return (isinstance(e, ast.Call) and last_attr(e) == "get" and isinstance(
        e.func, ast.Attribute) and is_name(e.func.value, var) and e.args
        and const_str(e.args[0]) == key)


# ----------------------------------------------------------------------
def r71(ctx, repo):
    gi = dewalrus(repo.func(CORE, "RTDCBase.__getitem__"))
    feat = gi.args.args[1].arg
    stages = []        # (token, node)
    type_seq = []      # ("one", basin_type expr) | ("many", iterable expr)

    def ret_of(stmts):
        return [s for s in stmts if isinstance(s, ast.Return)]

    def scan(stmts):
        pending = None   # (name, token) waiting for `if name is not None`
        for st in stmts:
            if isinstance(st, ast.If):
                t = st.test
                if isinstance(t, ast.Compare) and isinstance(
                        t.ops[0], ast.In) and is_name(t.left, feat):
                    c = t.comparators[0]
                    tok = {"_events": "innate", "_usertemp": "temp"}.get(
                        c.attr if is_self_attr(c) else None)
                    if tok and ret_of(st.body) and txt(
                            ret_of(st.body)[0].value) == f"{txt(c)}[{feat}]":
                        stages.append((tok, st))
                        scan(st.orelse)
                        continue
                if pending and isinstance(t, ast.Compare) and isinstance(
                        t.ops[0], ast.IsNot) and is_name(
                        t.left, pending[0]) and ret_of(st.body) and is_name(
                        ret_of(st.body)[0].value, pending[0]):
                    stages.append((pending[1], st))
                    pending = None
                    continue
                if any(isinstance(x, ast.Return) for x in walk(st)):
                    # a guard around further lookup stages (e.g. a cheap
                    # pre-test): the stages inside keep their order
                    before = len(stages)
                    scan(st.body)
                    scan(st.orelse)
                    if len(stages) == before:
                        raise AnalysisError(
                            f"__getitem__: unrecognised returning branch "
                            f"`{short(st.test, 50)}`")
                continue
            if isinstance(st, ast.Assign) and isinstance(
                    st.value, ast.Call) and isinstance(
                    st.targets[0], ast.Name):
                fn = last_attr(st.value)
                if fn == "_get_ancillary_feature_data":
                    nc = kwarg(st.value, "no_compute", 1)
                    tok = "anc-cached" if nc is not None and txt(
                        nc) == "True" else "anc-compute"
                    pending = (st.targets[0].id, tok)
                    continue
                if fn == "_get_basin_feature_data":
                    bt = kwarg(st.value, "basin_type", 1)
                    type_seq.append(("one", bt))
                    pending = (st.targets[0].id, "basin:one")
                    continue
            if isinstance(st, ast.For) and find_calls(
                    st, attr="_get_basin_feature_data"):
                c = find_calls(st, attr="_get_basin_feature_data")[0]
                bt = kwarg(c, "basin_type", 1)
                if not (isinstance(st.target, ast.Name) and is_name(
                        bt, st.target.id) and isinstance(
                        stmt_of(c), ast.Assign)):
                    raise AnalysisError("__getitem__: basin loop idiom not "
                                        "recognised")
                nm = stmt_of(c).targets[0].id
                rs = [s for s in st.body if isinstance(s, ast.If)
                      and isinstance(s.test, ast.Compare) and isinstance(
                          s.test.ops[0], ast.IsNot) and is_name(
                          s.test.left, nm) and ret_of(s.body) and is_name(
                          ret_of(s.body)[0].value, nm)]
                if not rs:
                    raise AnalysisError("__getitem__: basin loop does not "
                                        "return the data")
                type_seq.append(("many", st.iter))
                stages.append(("basin:loop", st))
                continue
            if isinstance(st, ast.Raise):
                stages.append(("raise", st))
                continue
            if isinstance(st, ast.Return):
                stages.append(("return", st))
                continue
    scan(gi.body)
    toks = [t for t, _ in stages]
    ctx.stat("R7.1 lookup order", toks)

    def pos(tok):
        return toks.index(tok) if tok in toks else None
    basin_pos = [i for i, t in enumerate(toks) if t.startswith("basin:")]
    if not basin_pos:
        raise AnalysisError("__getitem__: basin lookup lost")
    node0 = stages[basin_pos[0]][1]
    ok = pos("innate") == 0
    ctx.ob("R7.1", ok, "features stored in the dataset itself are returned "
           "first" if ok else "the innate features are not looked up first: "
           "a basin or computed feature can shadow stored data",
           node=stages[0][1], label="innate first")
    ok = pos("temp") is not None and pos("temp") < basin_pos[0]
    ctx.ob("R7.1", ok, "temporary features precede basins" if ok else
           "temporary features are looked up after basins", node=node0,
           label="temporary before basins")
    ok = pos("anc-cached") is not None and pos("anc-cached") < basin_pos[0]
    ctx.ob("R7.1", ok, "cached ancillary features precede basins" if ok else
           "cached ancillary data is not consulted before the basins",
           node=node0, label="cached ancillary before basins")
    # precedence internal > file > rest, decided by evaluating the sequence
    # of requested types on every set of basin types a dataset can have
    tie_ok = _priority_sort_orders_types(repo)
    TYPES = ("internal", "file", "remote")
    bad = None
    n_sets = 0
    for mask in range(8):
        present = [t for i, t in enumerate(TYPES) if mask >> i & 1]
        env = {"self.basins": [Model(basin_type=t) for t in present],
               "self._basins": [Model(basin_type=t) for t in present]}
        seq = []
        try:
            for kind, e in type_seq:
                if kind == "one":
                    seq.append(None if e is None else Mini(env).ev(e))
                else:
                    v = Mini(env).ev(e)
                    if isinstance(v, USet):
                        raise Unordered(txt(e))
                    if not isinstance(v, (list, tuple)):
                        raise Unknown(txt(e))
                    seq += list(v)
        except Unordered as u:
            bad = bad or (present, f"the order of `{u}` is undefined")
            continue
        except Unknown as u:
            raise AnalysisError(f"__getitem__: cannot evaluate the requested "
                                f"basin types (`{u}`)")
        n_sets += 1

        def first(t):
            hit = [i for i, x in enumerate(seq) if x is None or x == t]
            return hit[0] if hit else None
        for t in present:
            if first(t) is None:
                bad = bad or (present, f"{t} basins are never asked "
                              f"(requested types {seq})")
        for a, b in (("internal", "file"), ("internal", "remote"),
                     ("file", "remote")):
            if a in present and b in present and first(a) is not None \
                    and first(b) is not None:
                fa, fb = first(a), first(b)
                if fa > fb or (fa == fb and not (seq[fa] is None and tie_ok)):
                    bad = bad or (present, f"{b} basins are asked before "
                                  f"{a} basins (requested types {seq})")
    ctx.ob("R7.1", bad is None,
           "basins are asked in the order internal, file, rest for every "
           "combination of basin types (8 sets)" if bad is None else
           f"with basins of type {bad[0]}: {bad[1]} – data the file keeps "
           f"itself (internal basin) or a local file can be shadowed by a "
           f"basin of lower precedence", node=node0, label="basin type order")
    ok = pos("anc-compute") is not None and pos("anc-compute") > basin_pos[-1]
    ctx.ob("R7.1", ok, "ancillary features are computed only when no basin "
           "delivers" if ok else "ancillary features are computed before "
           "the basins are asked", node=node0,
           label="basins before computing")
    ok = toks[-1] == "raise"
    ctx.ob("R7.1", ok, "KeyError when no source delivers" if ok else
           "__getitem__ does not end in KeyError", node=stages[-1][1],
           label="ends in KeyError")
    # type filter: which basins are considered for a requested type –
    # leading `if ...: continue` statements of the loop and / or the
    # conditions of a filtering comprehension the loop iterates
    f = dewalrus(repo.func(CORE, "RTDCBase._get_basin_feature_data"))
    lp, bn, _base, keeps = basin_loop(f, "_get_basin_feature_data")
    skips = []
    for st in lp.body:
        if isinstance(st, ast.If) and not st.orelse and len(
                st.body) >= 1 and isinstance(st.body[-1], ast.Continue) \
                and not any(isinstance(x, (ast.Assign, ast.Return))
                            for x in walk(st)):
            skips.append(st)
        elif isinstance(st, (ast.Assign, ast.Expr)) and not isinstance(
                getattr(st, "value", None), ast.Call):
            continue
        elif isinstance(st, ast.Assign) and "basin" not in txt(st.value):
            continue
        else:
            break
    tests = [(ast.parse(expand_locals(f, t), mode="eval").body, v, True)
             for t, v in keeps]
    tests += [(ast.parse(expand_locals(f, st.test), mode="eval").body, bn,
               False) for st in skips]
    tests = [t for t in tests if "basin_type" in txt(t[0])]
    bad = []
    for want in (None, "internal", "file", "remote"):
        for have in ("internal", "file", "remote"):
            considered = True
            for t, v, keep in tests:
                val = bool(fold(t, {"basin_type": want,
                                    f"{v}.basin_type": have},
                                "basin type filter"))
                if val != keep:
                    considered = False
            if considered != (want is None or want == have):
                bad.append((want, have, considered))
    ctx.ob("R7.1", not bad, "the type filter considers exactly the basins of "
           "the requested type (12 cases)" if not bad else
           f"requested type {bad[0][0]!r}: a {bad[0][1]} basin is "
           f"{'considered' if bad[0][2] else 'skipped'} "
           f"({len(bad)} of 12 cases wrong)",
           node=(skips or [lp])[0], label="basin type filter")


def r71_basin_offer(ctx, repo):
    """a basin offers what it stores (innate) and what its own basins store
    – never features it could compute: those belong to the lookup stage
    after the basins and must be computed from the referrer's settings"""
    fp = None
    for st in repo.cls(FB, "Basin").body:
        if isinstance(st, ast.FunctionDef) and st.name == "features":
            fp = st
    if fp is None:
        raise AnalysisError("Basin.features lost")
    reads = set()
    for n in walk(fp):
        if isinstance(n, ast.Assign) and any(
                is_self_attr(t, "_features") for t in n.targets):
            vt = ast.parse(expand_locals(fp, n.value), mode="eval").body
            for x in ast.walk(vt):
                if isinstance(x, ast.Attribute) and txt(x.value) in (
                        "self.ds", "self._ds"):
                    reads.add(x.attr)
                elif isinstance(x, ast.Compare) and any(
                        txt(c) in ("self.ds", "self._ds")
                        for c in x.comparators):
                    reads.add("__contains__")
    if not reads:
        raise AnalysisError("Basin.features: source of the feature list "
                            "not recognised")
    extra = reads - {"features_innate", "features_basin"}
    ctx.ob("R7.1", not extra,
           "a basin offers its innate features and those of its own basins "
           "only" if not extra else
           f"Basin.features is built from `self.ds.{sorted(extra)[0]}`, "
           f"which includes features the basin dataset can compute: the "
           f"referrer takes them from the basin (computed with the basin "
           f"file's configuration) instead of computing them from its own "
           f"settings after the basins were asked",
           node=fp, label="basin offers stored features only")


def _priority_sort_orders_types(repo):
    """basins_retrieve sorts the definitions with basin_priority_sorted_key
    and that key orders internal < file < remote (so that a request without
    type preference walks the basins in precedence order)"""
    br = retrieve_func(repo)
    srt = [c for c in find_calls(br, name="sorted")
           if "basin_priority_sorted_key" in txt(c)
           and "basins_get_dicts" in txt(c)]
    key = repo.func(FB, "basin_priority_sorted_key", missing_ok=True)
    if not srt or key is None:
        return False
    for d in [n for n in walk(key) if isinstance(n, ast.Dict)]:
        tab = {const_str(k): const_str(v) for k, v in zip(d.keys, d.values)}
        if {"internal", "file", "remote"} <= set(tab) and all(
                isinstance(v, str) for v in tab.values()):
            rets = [r for r in walk(key) if isinstance(r, ast.Return)]
            lead = bool(rets) and all(
                isinstance(r.value, ast.BinOp) for r in rets)
            return lead and tab["internal"] < tab["file"] < tab["remote"]
    return False


# ----------------------------------------------------------------------
def r72(ctx, repo):
    cls = repo.cls(FB, "BasinProxyFeature")
    ORIGIN, MAP = "self.feat_obj", "self.basinmap"
    top = ("__getitem__", "__array__")
    pending = [(nm, None, nm) for nm in top]
    done = set()
    while pending:
        # a helper is analysed once per call site (with the parameters that
        # receive map-derived arguments there); `mname` labels the route
        hname, seed, mname = pending.pop(0)
        m = method(cls, hname)
        if m is not None:
            m = ifexp_to_if(expand_self_aliases(m))
        if m is None:
            raise AnalysisError(f"BasinProxyFeature.{mname} lost")
        # names derived from the map (for a helper: the parameters that
        # receive map-derived arguments at every call site)
        mapidx = set(seed or ())    # index arrays taken from the map
        enum = {}               # loop -> (pos name, value name, iter text)
        changed = True
        while changed:
            changed = False
            for n in walk(m):
                if isinstance(n, ast.Assign) and len(
                        n.targets) == 1 and isinstance(
                        n.targets[0], ast.Name):
                    v = n.value
                    if (txt(v) == MAP or (isinstance(v, ast.Subscript)
                                          and txt(v.value) == MAP)
                            or (isinstance(v, ast.Name) and v.id in mapidx)) \
                            and n.targets[0].id not in mapidx:
                        mapidx.add(n.targets[0].id)
                        changed = True

        def map_derived(e):
            return txt(e) == MAP or (isinstance(e, ast.Subscript) and txt(
                e.value) == MAP) or (isinstance(e, ast.Name)
                                     and e.id in mapidx)
        for n in walk(m):
            if isinstance(n, ast.For):
                it = n.iter
                if isinstance(it, ast.Call) and call_name(
                        it) == "enumerate" and it.args and map_derived(
                        it.args[0]) and isinstance(
                        n.target, ast.Tuple) and len(n.target.elts) == 2:
                    enum[n] = (n.target.elts[0].id, n.target.elts[1].id,
                               txt(it.args[0]))
                elif map_derived(it) and isinstance(n.target, ast.Name):
                    enum[n] = (None, n.target.id, txt(it))
        values = {v[1] for v in enum.values()}
        # every use of the origin
        n_access = 0
        for n in walk(m):
            if txt(n) != ORIGIN or not isinstance(n, ast.Attribute):
                continue
            p = n.parent
            if isinstance(p, ast.Attribute):
                continue            # .shape / .dtype (R7.6)
            acc = None
            if isinstance(p, ast.Subscript) and p.value is n:
                acc = p
            elif isinstance(p, ast.Call) and call_name(p) in (
                    "np.asarray", "np.array", "numpy.asarray") and p.args \
                    and p.args[0] is n:
                acc = p
            elif isinstance(p, ast.Call) and call_name(p) in (
                    "getattr", "len", "isinstance"):
                continue
            else:
                raise AnalysisError(
                    f"BasinProxyFeature.{mname}: unrecognised use of the "
                    f"origin `{short(p, 50)}`")
            n_access += 1
            whole = isinstance(acc, ast.Call) or isinstance(
                acc.slice, ast.Slice) and acc.slice.lower is None \
                and acc.slice.upper is None and acc.slice.step is None
            if whole:
                q = acc.parent
                ok = isinstance(q, ast.Subscript) and q.value is acc \
                    and map_derived(q.slice)
            else:
                s = acc.slice
                ok = map_derived(s) or (isinstance(s, ast.Name)
                                        and s.id in values)
            ctx.ob("R7.2", ok,
                   f"origin indexed through the map: `{short(acc.parent if whole else acc, 50)}`"
                   if ok else
                   f"`{short(acc.parent if whole else acc, 50)}` reads the "
                   f"origin without going through the map: events of the "
                   f"origin are returned at the referrer's indices",
                   node=acc, label=f"{mname} origin access "
                   f"{short(acc.parent if whole else acc, 40)}")
        # calls of helpers of the same class: followed with the parameters
        # bound to what the arguments are
        n_helper = 0
        for c in walk(m):
            if isinstance(c, ast.Call) and is_self_attr(c.func) \
                    and c.func.attr not in top and method(
                        cls, c.func.attr) is not None:
                hm = method(cls, c.func.attr)
                params = [a.arg for a in
                          hm.args.posonlyargs + hm.args.args][1:]
                bound = {params[i] for i, a in enumerate(c.args)
                         if i < len(params) and map_derived(a)}
                bound |= {kw.arg for kw in c.keywords
                          if kw.arg in params and map_derived(kw.value)}
                n_helper += 1
                route = f"{mname}>{c.func.attr}"
                if (route, tuple(sorted(bound))) not in done \
                        and route.count(">") <= 3:
                    done.add((route, tuple(sorted(bound))))
                    pending.append((c.func.attr, bound, route))
        if n_access == 0 and not n_helper and mname in top:
            raise AnalysisError(f"BasinProxyFeature.{mname}: no access to "
                                f"the origin found")
        # enumerate loops: out[pos] = origin[value]
        for lp, (pname, vname, ittxt) in enum.items():
            fills = [n for n in walk(lp) if isinstance(n, ast.Assign)
                     and isinstance(n.targets[0], ast.Subscript)
                     and ORIGIN in txt(n.value)]
            for fl in fills:
                ok = pname is not None and is_name(
                    fl.targets[0].slice, pname) and isinstance(
                    fl.value, ast.Subscript) and is_name(
                    fl.value.slice, vname)
                ctx.ob("R7.2", ok,
                       "row i of the output is the origin event map[i]"
                       if ok else
                       f"`{short(fl, 50)}` confuses position and mapped "
                       f"index", node=fl,
                       label=f"{mname} fill {short(fl, 40)}")
                out = fl.targets[0].value
                alloc = single_assign(m, out.id) if isinstance(
                    out, ast.Name) else None
                rows = None
                if isinstance(alloc, ast.Call) and alloc.args:
                    sh = alloc.args[0]
                    if isinstance(sh, ast.BinOp) and isinstance(
                            sh.left, ast.Tuple) and sh.left.elts:
                        rows = sh.left.elts[0]
                    elif isinstance(sh, ast.Tuple) and sh.elts:
                        rows = sh.elts[0]
                ok = rows is not None and txt(rows) == f"len({ittxt})"
                ctx.ob("R7.2", ok,
                       f"output allocated with len({ittxt}) rows" if ok else
                       f"output array is not allocated with len({ittxt}) "
                       f"rows", node=fl, label=f"{mname} rows of "
                       f"{txt(out)}")
        if mname == "__getitem__":
            idx = m.args.args[1].arg
            for n in walk(m):
                if isinstance(n, ast.Subscript) and txt(n.value) == MAP:
                    ok = is_name(n.slice, idx)
                    ctx.ob("R7.2", ok,
                           "the requested index selects from the map" if ok
                           else f"`{short(n, 40)}` does not apply the "
                           f"requested index to the map", node=n,
                           label=f"index applied to map {short(n, 40)}")
                elif isinstance(n, ast.Assign) and txt(n.value) == MAP:
                    fn = m
                    ok = False
                    for t, pol in enclosing_conditions(n, fn):
                        tt = expand_locals(fn, t)    # named conditions
                        if pol and "slice(None)" in tt and idx in names_in(
                                ast.parse(tt, mode="eval")):
                            ok = True
                    ctx.ob("R7.2", ok,
                           "the whole map is used only for the full slice"
                           if ok else "the whole map is used although an "
                           "index was requested", node=n,
                           label="whole map only for full slice")
            rets = [r for r in walk(m) if isinstance(r, ast.Return)]
            for r in rets:
                v = r.value
                if "__array__" in txt(v) or "_cache" in txt(v):
                    ok = isinstance(v, ast.Subscript) and is_name(
                        v.slice, idx)
                    ctx.ob("R7.2", ok, "cached route indexes the mapped "
                           "array" if ok else "cached route ignores the "
                           "requested index", node=r,
                           label="cached route indexed")
    # BasinProxy
    bp = repo.cls(FB, "BasinProxy")
    gi = method(bp, "__getitem__")
    cons = [c for c in walk(gi) if isinstance(c, ast.Call)
            and call_name(c) == "BasinProxyFeature"]
    feat = gi.args.args[1].arg
    plain = [c for c in cons if kwarg(c, "feat_obj", 0) is not None and txt(
        kwarg(c, "feat_obj", 0)) == f"self.ds[{feat}]"]
    if not cons:
        raise AnalysisError("BasinProxy.__getitem__: wrapping idiom lost")
    first = (plain or cons)[0]
    fo, bm = kwarg(first, "feat_obj", 0), kwarg(first, "basinmap", 1)
    # further wrappers (collapsing nested proxies): their map must be taken
    # through the proxy's own map
    for c in cons:
        if c is first:
            continue
        cm = kwarg(c, "basinmap", 1)
        vals = [cm]
        if isinstance(cm, ast.Name):
            vals = [n.value for n in walk(gi) if isinstance(n, ast.Assign)
                    and is_name(n.targets[0], cm.id)]
        elif is_self_attr(cm):
            vals = [n.value for n in walk(gi) if isinstance(n, ast.Assign)
                    and txt(n.targets[0]) == txt(cm)]
        okc = bool(vals) and all(
            txt(v) == "self.basinmap" or (isinstance(v, ast.Subscript)
                                          and txt(v.slice) == "self.basinmap")
            for v in vals)
        ctx.ob("R7.2", okc, "a collapsed wrapper indexes the nested map "
               "with the proxy's own map" if okc else
               f"a further wrapper uses map `{short(cm, 40)}`, which is not "
               f"taken through the proxy's own map", node=c,
               label=f"collapsed wrapper map {short(cm, 40)}")
    ok = fo is not None and txt(fo) == f"self.ds[{feat}]" and bm is not None \
        and txt(bm) == "self.basinmap"
    ctx.ob("R7.2", ok, "BasinProxy wraps the requested feature of the basin "
           "dataset with its own map" if ok else
           f"BasinProxy wraps `{txt(fo)}` with map `{txt(bm)}`",
           node=first, label="proxy wraps feature with map")
    rets = [r for r in walk(gi) if isinstance(r, ast.Return)]
    stores = [n for n in walk(gi) if isinstance(n, ast.Assign) and isinstance(
        n.targets[0], ast.Subscript) and is_self_attr(n.targets[0].value)]
    made = {n.targets[0].id for n in walk(gi) if isinstance(n, ast.Assign)
            and isinstance(n.targets[0], ast.Name)
            and any(n.value is c for c in cons)}
    ok = all((isinstance(r.value, ast.Subscript) and is_name(
        r.value.slice, feat)) or (isinstance(r.value, ast.Name)
                                  and r.value.id in made
                                  and any(is_name(n.value, r.value.id)
                                          for n in stores))
             for r in rets) and all(
        is_name(n.targets[0].slice, feat) for n in stores) and bool(rets)
    ctx.ob("R7.2", ok, "the wrapper cache is keyed by the feature name"
           if ok else "the wrapper cache is not keyed by the requested "
           "feature", node=gi, label="proxy cache key")
    wrapped = {n.targets[0].id for n in walk(gi) if isinstance(n, ast.Assign)
               and isinstance(n.targets[0], ast.Name)
               and any(n.value is c for c in cons)}
    unwrapped = {n.targets[0].id for n in walk(gi) if isinstance(
        n, ast.Assign) and isinstance(n.targets[0], ast.Name)
        and not any(n.value is c for c in cons)}
    ok = bool(stores) and all(
        any(n.value is c for c in cons) or (
            isinstance(n.value, ast.Name) and n.value.id in wrapped
            and n.value.id not in unwrapped) for n in stores)
    ctx.ob("R7.2", ok, "what is cached and returned is the mapping wrapper"
           if ok else "the feature of the basin dataset is returned without "
           "the mapping wrapper", node=stores[0] if stores else gi,
           label="proxy returns wrapper")
    ln = method_mro(repo, FB, bp, "__len__")
    ok = ln is not None and any(isinstance(r, ast.Return) and txt(
        r.value) == "len(self.basinmap)" for r in walk(ln))
    ctx.ob("R7.2", ok, "len(BasinProxy) is the map length" if ok else
           "len(BasinProxy) is not the map length", node=ln or bp,
           label="proxy length")
    # load_dataset wraps mapped basins only
    ld = repo.func(FB, "Basin.load_dataset")
    loaded = [n.targets[0].id for n in walk(ld) if isinstance(n, ast.Assign)
              and isinstance(n.value, ast.Call)
              and last_attr(n.value) == "_load_dataset"]
    if len(loaded) != 1:
        raise AnalysisError("Basin.load_dataset: loading call lost")

    def value_for(mapping):
        """the expression load_dataset returns for this mapping (the body is
        interpreted: assignments, if on the mapping, early returns)"""
        env = {"self.mapping": mapping}
        bound = {}

        def resolve(v):
            while True:
                if isinstance(v, ast.Name) and v.id in bound \
                        and v.id != loaded[0]:
                    v = bound[v.id]
                elif isinstance(v, ast.IfExp):
                    v = v.body if fold(v.test, env, "mapping test") \
                        else v.orelse
                else:
                    return v

        def block(stmts):
            for st in stmts:
                if isinstance(st, ast.If):
                    r = block(st.body if fold(st.test, env, "mapping test")
                              else st.orelse)
                    if r is not None:
                        return r
                elif isinstance(st, ast.Return):
                    return resolve(st.value)
                elif isinstance(st, ast.Assign) and len(
                        st.targets) == 1 and isinstance(
                        st.targets[0], ast.Name):
                    bound[st.targets[0].id] = st.value
                elif isinstance(st, (ast.Expr, ast.Pass)):
                    continue
                else:
                    raise AnalysisError("Basin.load_dataset: statement "
                                        f"`{short(st, 40)}` not recognised")
            return None
        r = block(ld.body)
        if r is None:
            raise AnalysisError("Basin.load_dataset: cannot resolve the "
                                "returned object")
        return r
    rets = [r for r in walk(ld) if isinstance(r, ast.Return)]
    vm = value_for("basinmap0")
    ok = isinstance(vm, ast.Call) and call_name(vm) == "BasinProxy" and txt(
        kwarg(vm, "ds", 0)) == loaded[0] and txt(
        kwarg(vm, "basinmap", 1)) == "self.basinmap"
    ctx.ob("R7.2", ok, "mapped basins are wrapped in BasinProxy(ds, "
           "self.basinmap)" if ok else
           f"a mapped basin is returned as `{short(vm, 50)}`: its events "
           f"are used at the referrer's indices", node=rets[0],
           label="mapped basin wrapped")
    vs = value_for("same")
    ok = isinstance(vs, ast.Name) and vs.id == loaded[0]
    ctx.ob("R7.2", ok, "unmapped basins are used directly" if ok else
           f"an unmapped basin is returned as `{short(vs, 50)}`",
           node=rets[0], label="unmapped basin direct")
    # the map comes from the referrer under the declared name
    bmp = None
    for st in repo.cls(FB, "Basin").body:
        if isinstance(st, ast.FunctionDef) and st.name == "basinmap":
            bmp = st
    if bmp is None:
        raise AnalysisError("Basin.basinmap lost")
    src = [n for n in walk(bmp) if isinstance(n, ast.Subscript)
           and "_basinmap_referrer" in txt(n.value)]
    ok = bool(src) and all(txt(n.slice) == "self.mapping" for n in src)
    ctx.ob("R7.2", ok, "the map is the referrer's feature named by "
           "`mapping`" if ok else "the map is not read from the referrer "
           "under the declared mapping name", node=src[0] if src else bmp,
           label="map source")
    br = retrieve_func(repo)
    kw = {}
    for n in walk(br):
        if isinstance(n, ast.Dict):
            for k, v in zip(n.keys, n.values):
                if const_str(k) in ("mapping", "mapping_referrer",
                                    "features"):
                    kw[const_str(k)] = v
    lv = [n.target.id for n in walk(br) if isinstance(n, ast.For)
          and isinstance(n.target, ast.Name)]
    ok = "mapping" in kw and any(dict_get(kw["mapping"], v, "mapping")
                                 for v in lv)
    if ok and isinstance(kw["mapping"], ast.Call) and len(
            kw["mapping"].args) > 1:
        ok = const_str(kw["mapping"].args[1]) == "same"
    ctx.ob("R7.2", ok, "basins are created with the mapping of their "
           "definition (default 'same')" if ok else
           "basins are not created with the mapping of their definition",
           node=kw.get("mapping", br), label="mapping passed")
    ok = "mapping_referrer" in kw and is_name(kw["mapping_referrer"], "self")
    ctx.ob("R7.2", ok, "the referrer of the map is the dataset that defines "
           "the basin" if ok else "mapping_referrer is not the defining "
           "dataset", node=kw.get("mapping_referrer", br),
           label="mapping referrer")
    ok = "features" in kw and any(dict_get(kw["features"], v, "features")
                                  for v in lv)
    ctx.ob("R7.2", ok, "the feature list of the definition is honoured"
           if ok else "the feature list of the definition is not passed on",
           node=kw.get("features", br), label="features passed",
           nontrivial=False)


# ----------------------------------------------------------------------
#: functions the rules look for by name (never inlined)
KEEP_EXPORT = ("store_filtered_feature", "yield_filtered_array_stacks",
               "map_indices_child2root", "map_indices_child2parent",
               "map_indices_parent2child", "map_indices_root2child",
               "get_basin_classes", "hashobj", "hashfile")


def store_basin_func(repo):
    """RTDCWriter.store_basin with its private step methods inlined"""
    if getattr(repo, "_c07_store_basin", None) is None:
        repo._c07_store_basin = inline_module_helpers(
            repo, WRITER, repo.func(WRITER, "RTDCWriter.store_basin"),
            methods=True, keep=("store_feature", "write_text",
                                "write_ndarray"))
    return repo._c07_store_basin


def retrieve_func(repo):
    """basins_retrieve with helpers inlined and partials expanded"""
    if getattr(repo, "_c07_retrieve", None) is None:
        repo._c07_retrieve = expand_partials(inline_module_helpers(
            repo, CORE, repo.func(CORE, "RTDCBase.basins_retrieve"),
            methods=True))
    return repo._c07_retrieve


def export_func(repo):
    """Export.hdf5 with module-level helpers inlined and walrus removed"""
    if getattr(repo, "_c07_export", None) is None:
        repo._c07_export = ifexp_to_if(dewalrus(inline_module_helpers(
            repo, EXPORT, repo.func(EXPORT, "Export.hdf5"),
            methods=True, imports=True, depth=3, keep=KEEP_EXPORT)))
    return repo._c07_export


def _expr(text):
    return ast.parse(text, mode="eval").body


def r73(ctx, repo):
    ex = export_func(repo)
    loops = [n for n in walk(ex) if isinstance(n, ast.For) and isinstance(
        n.target, ast.Name) and find_calls(n, attr="store_basin")]
    if len(loops) != 1:
        raise AnalysisError("Export.hdf5: loop storing the basins lost")
    lp = loops[0]
    var = lp.target.id
    if not isinstance(lp.iter, ast.Name):
        raise AnalysisError("Export.hdf5: basin list is not a name")
    blist = lp.iter.id
    # the loop may iterate a filtered copy of the list:
    # kept = [b for b in basin_list if <condition on b>]
    pre_keep = []
    sel = single_assign(ex, blist)
    if isinstance(sel, (ast.ListComp, ast.GeneratorExp)) and len(
            sel.generators) == 1 and isinstance(
            sel.generators[0].target, ast.Name) and is_name(
            sel.elt, sel.generators[0].target.id) and isinstance(
            sel.generators[0].iter, ast.Name):
        g0 = sel.generators[0]
        pre_keep = [(c, g0.target.id) for c in g0.ifs]
        blist = g0.iter.id
    sb = find_calls(lp, attr="store_basin")[0]
    g = CFG(ex)
    # internal basins skipped

    def not_internal(e, t):
        if isinstance(e, ast.Compare) and len(e.ops) == 1 and dict_get(
                e.left, var, "basin_type") and const_str(
                e.comparators[0]) == "internal":
            return (isinstance(e.ops[0], ast.Eq) and not t) or (
                isinstance(e.ops[0], ast.NotEq) and t)
        return False
    heads = g.ids_of(lp)
    ok = edge_guarded(g, cfg_ids(g, sb), fact_guard(not_internal),
                      sources=heads)
    for c, v in pre_keep:        # filtered before the loop
        for typ, want in (("internal", False), ("file", True),
                          ("remote", True)):
            env = {f"{v}.get('basin_type')": typ,
                   f"{v}['basin_type']": typ}
            try:
                kept = bool(Mini(env).ev(c))
            except Unknown as u:
                raise AnalysisError("Export.hdf5: cannot evaluate the "
                                    f"selection of basins (`{u}`)")
            if typ == "internal" and not kept:
                ok = True
            if want and not kept:
                raise AnalysisError("Export.hdf5: the selection drops "
                                    f"{typ} basins")
    ctx.ob("R7.3", ok, "internal basins are not written to the exported file"
           if ok else "internal basins are copied to the exported file "
           "although their data stays behind", node=sb,
           label="internal basins skipped")
    ok = any(kw.arg is None and is_name(kw.value, var) for kw in sb.keywords)
    ctx.ob("R7.3", ok, "the (re-mapped) definition is what gets stored"
           if ok else "store_basin does not receive the re-mapped "
           "definition", node=sb, label="stores the definition",
           nontrivial=False)
    # filter array
    def is_filter_all(v):
        if isinstance(v, ast.IfExp):
            return is_filter_all(v.body) or is_filter_all(v.orelse)
        return isinstance(v, ast.Attribute) and txt(v).endswith(".filter.all")
    farr = [n.targets[0].id for n in walk(ex) if isinstance(n, ast.Assign)
            and isinstance(n.targets[0], ast.Name)
            and is_filter_all(n.value)]
    if not farr:
        raise AnalysisError("Export.hdf5: filter array binding lost")
    Fset = set(farr)
    changed = True
    while changed:           # names bound to the array by plain assignment
        changed = False
        for n in walk(ex):
            if isinstance(n, ast.Assign) and len(
                    n.targets) == 1 and isinstance(
                    n.targets[0], ast.Name) and isinstance(
                    n.value, ast.Name) and n.value.id in Fset \
                    and n.targets[0].id not in Fset:
                Fset.add(n.targets[0].id)
                changed = True
    lpnames = names_in(lp)
    used = sorted(x for x in Fset if x in lpnames)
    if len(used) > 1:
        raise AnalysisError("Export.hdf5: several names for the filter "
                            f"array in the basin loop ({used})")
    F = used[0] if used else sorted(Fset)[0]
    sff = find_calls(ex, name="store_filtered_feature")
    ok = bool(sff) and all(isinstance(kwarg(c, "filtarr", 3), ast.Name)
                           and kwarg(c, "filtarr", 3).id in Fset
                           for c in sff)
    ctx.ob("R7.3", ok, f"events are filtered with `{F}`" if ok else
           f"events are not filtered with `{F}`", node=sff[0] if sff else ex,
           label="event filter array", nontrivial=False)
    asg = [n for n in walk(lp) if isinstance(n, ast.Assign)
           and is_key(n.targets[0], var, "basin_map")]
    marker = object()
    orig_is, orig_env = map_refs(lp, var)
    orig = "<upstream map>"

    def executed(filtered, mapped):
        env = {"filtered": filtered, F: marker}
        env.update(orig_env(marker if mapped else None))
        out = []
        for n in asg:
            conds = enclosing_conditions(n, lp)
            if all(bool(fold(t, env, "composition branch")) == pol
                   for t, pol in conds):
                out.append(n)
        return out

    def is_where(v):
        if isinstance(v, ast.Subscript) and isinstance(
                v.value, ast.Call) and call_name(v.value) in (
                "np.where", "np.nonzero") and txt(v.slice) == "0" and len(
                v.value.args) == 1 and is_name(v.value.args[0], F):
            return True
        return isinstance(v, ast.Call) and call_name(
            v) == "np.flatnonzero" and len(v.args) == 1 and is_name(
            v.args[0], F)

    def is_compose(v):
        return isinstance(v, ast.Subscript) and orig_is(
            v.value) and is_name(v.slice, F)
    for filtered, mapped, what, pred in (
            (False, False, "unchanged", None), (False, True, "unchanged",
                                                None),
            (True, False, f"np.where({F})[0]", is_where),
            (True, True, f"{orig}[{F}]", is_compose)):
        ex_ = executed(filtered, mapped)
        if pred is None:
            ok = not ex_
        else:
            ok = len(ex_) == 1 and pred(ex_[0].value)
        case = f"filtered={filtered}, {'mapped' if mapped else 'same'}"
        ctx.ob("R7.3", ok,
               f"{case}: map {what}" if ok else
               f"{case}: the stored map is "
               f"{[txt(n.value) for n in ex_] or 'left unchanged'}, expected "
               f"{what}", node=ex_[0] if ex_ else lp,
               label=f"composition [{case}]")
    # the definitions appended for the exported dataset itself (literal
    # dictionaries, possibly bound to a name and completed by item
    # assignments before they are appended)
    lits = []
    for c in walk(ex):
        if not (isinstance(c, ast.Call) and last_attr(c) == "append"
                and isinstance(c.func, ast.Attribute)
                and is_name(c.func.value, blist) and len(c.args) == 1):
            continue
        a0, extra = c.args[0], {}
        if isinstance(a0, ast.Name):
            dv = single_assign(ex, a0.id)
            for n in walk(ex):
                if isinstance(n, ast.Assign) and len(
                        n.targets) == 1 and isinstance(
                        n.targets[0], ast.Subscript) and is_name(
                        n.targets[0].value, a0.id):
                    k = const_str(n.targets[0].slice)
                    if k is None or n.lineno > c.lineno:
                        raise AnalysisError(
                            f"Export.hdf5: cannot follow how `{a0.id}` is "
                            f"completed")
                    extra[k] = n.value
            a0 = dv
        if isinstance(a0, ast.Dict):
            c.defn = (a0, extra)
            lits.append(c)
        else:
            raise AnalysisError(f"Export.hdf5: `{short(c, 50)}` appends a "
                                f"definition that cannot be resolved")
    kinds = {}
    for c in lits:
        conds = enclosing_conditions(c, ex)
        hier = any(pol and "hierarchy" in txt(t) for t, pol in conds)
        kinds.setdefault("hierarchy" if hier else "direct", []).append(c)
    if sorted(kinds) != ["direct", "hierarchy"] or any(
            len(v) != 1 for v in kinds.values()):
        raise AnalysisError("Export.hdf5: definitions of the exported "
                            "dataset not recognised")

    def entry(d, key):
        if isinstance(d, tuple):
            d, extra = d
            if key in extra:
                return extra[key]
        for k, v in zip(d.keys, d.values):
            if const_str(k) == key:
                return v
        return None
    d = kinds["direct"][0].defn
    ok = entry(d, "basin_map") is None
    ctx.ob("R7.3", ok, "the basin pointing at the exported dataset uses the "
           "identity mapping before filtering" if ok else
           "the basin pointing at the exported dataset carries a map",
           node=d[0], label="direct basin has no map")
    h = kinds["hierarchy"][0].defn
    dsn = [n.targets[0].id for n in walk(ex) if isinstance(n, ast.Assign)
           and isinstance(n.targets[0], ast.Name)
           and is_self_attr(n.value, "rtdc_ds")]
    if not dsn:
        raise AnalysisError("Export.hdf5: dataset binding lost")
    # (inlined helpers bind the dataset again under their own names)
    top = [n.targets[0].id for n in ex.body if isinstance(n, ast.Assign)
           and isinstance(n.targets[0], ast.Name)
           and is_self_attr(n.value, "rtdc_ds")]
    dsn = (top or dsn)[0]
    DS = expand_locals(ex, _expr(dsn))
    ROOT = expand_locals(ex, _expr(f"{dsn}.get_root_parent()"))

    # names bound only by an assignment expression that could not be
    # hoisted (e.g. in the second operand of `and`)
    stores = {}
    for n in walk(ex):
        if isinstance(n, ast.Name) and isinstance(n.ctx, ast.Store):
            stores[n.id] = stores.get(n.id, 0) + 1
    wal = {n.target.id: n.value for n in walk(ex)
           if isinstance(n, ast.NamedExpr) and stores.get(n.target.id) == 1}

    def X(e):
        class W(ast.NodeTransformer):
            def visit_Name(self, node):
                if isinstance(node.ctx, ast.Load) and node.id in wal:
                    return ast.parse("(" + txt(wal[node.id]) + ")",
                                     mode="eval").body
                return node
        e2 = W().visit(ast.parse(txt(e), mode="eval").body)
        return expand_locals(ex, ast.parse(txt(e2), mode="eval").body)

    def is_root_map(v):
        while isinstance(v, ast.Name):
            nv = single_assign(ex, v.id)
            if nv is None:
                return False
            v = nv
        return isinstance(v, ast.Call) and last_attr(
            v) == "map_indices_child2root" and is_name(
            kwarg(v, "child", 0), dsn) and txt(
            kwarg(v, "child_indices", 1)) == f"np.arange(len({dsn}))"
    bm = entry(h, "basin_map")
    ok = bm is not None and is_root_map(bm)
    ctx.ob("R7.3", ok, "the basin pointing at the root of a hierarchy child "
           "maps every child event to its root index" if ok else
           f"the basin of a hierarchy child has map `{short(bm, 50)}`, "
           f"expected map_indices_child2root(child={dsn}, "
           f"child_indices=np.arange(len({dsn})))", node=bm or h[0],
           label="hierarchy basin has root map")

    def loc_lists(kind):
        le = entry(kinds[kind][0].defn, "basin_locs")
        if isinstance(le, (ast.List, ast.Tuple)):
            return [le]
        if not isinstance(le, ast.Name):
            raise AnalysisError("Export.hdf5: basin_locs of the "
                                f"{kind} definition not recognised")
        branch = stmt_of_if(kinds[kind][0])
        inside = {id(x) for x in ast.walk(ast.Module(
            body=branch.body if kind == "direct" else [branch],
            type_ignores=[]))}
        out, todo, seen = [], [le.id], set()
        while todo:
            nm = todo.pop()
            if nm in seen:
                continue
            seen.add(nm)
            for n in walk(ex):
                if isinstance(n, ast.Assign) and is_name(
                        n.targets[0], nm) and id(n) in inside:
                    if isinstance(n.value, ast.Name):
                        todo.append(n.value.id)
                    else:
                        out.append(n.value)
        if not out:
            raise AnalysisError("Export.hdf5: cannot see how the locations "
                                f"of the {kind} definition are built")
        return out
    locs_h = loc_lists("hierarchy")
    ok = X(entry(h, "basin_format")) == f"{ROOT}.format" and bool(
        locs_h) and all(f"{ROOT}.path" in X(v) for v in locs_h)
    ctx.ob("R7.3", ok, "the hierarchy basin points at the root dataset"
           if ok else "the hierarchy basin does not point at the root "
           "dataset (location / format)", node=h[0],
           label="hierarchy basin points at root")
    locs_d = loc_lists("direct")
    ok = X(entry(d, "basin_format")) == f"{DS}.format" and bool(
        locs_d) and all(f"{DS}.path" in X(v) for v in locs_d)
    ctx.ob("R7.3", ok, "the direct basin points at the exported dataset"
           if ok else "the direct basin does not point at the exported "
           "dataset (location / format)", node=d[0],
           label="direct basin points at dataset")
    # upstream basins of a hierarchy child are the root's basins
    hb = None
    hc = repo.cls(HIER, "RTDC_Hierarchy")
    for st in hc.body:
        if isinstance(st, ast.FunctionDef) and st.name == "basins":
            hb = st
    ups = [n for n in walk(ex) if isinstance(n, ast.Assign) and is_name(
        n.targets[0], blist) and isinstance(n.value, ast.ListComp)
        and isinstance(n.value.elt, ast.Call)
        and last_attr(n.value.elt) == "as_dict"]
    if len(ups) != 1 or txt(ups[0].value.generators[0].iter) != \
            f"{dsn}.basins":
        raise AnalysisError("Export.hdf5: upstream basin list idiom lost")
    if hb is not None:
        fw = [r for r in walk(hb) if isinstance(r, ast.Return)]
        if not (len(fw) == 1 and txt(fw[0].value) == "self.hparent.basins"):
            raise AnalysisError("RTDC_Hierarchy.basins: forwarding idiom "
                                "not recognised")
        first_append = min(c.lineno for c in lits)
        remap = []
        cond_dep = None
        for l2 in [n for n in walk(ex) if isinstance(n, ast.For)
                   and is_name(n.iter, blist) and n is not lp
                   and n.lineno > ups[0].lineno
                   and n.lineno < first_append]:
            conds = enclosing_conditions(l2, ex)
            if not any(pol and "hierarchy" in txt(t) and dsn in names_in(t)
                       for t, pol in conds):
                continue
            # the re-basing must happen for every export of a hierarchy
            # child: the conditions that guard it (beyond those that guard
            # the upstream list itself) hold whenever the dataset is a
            # hierarchy child, whatever the other settings are
            outer = {id(t) for t, _ in enclosing_conditions(ups[0], ex)}
            own = [(t, pol) for t, pol in conds if id(t) not in outer]
            other = sorted({x for t, _ in own for x in names_in(t)}
                           - {dsn})
            env0 = {f"{dsn}.format": "hierarchy"}
            env0.update({x: False for x in other})
            try:
                always = all(bool(Mini(env0).ev(t)) == pol
                             for t, pol in own)
            except Unknown as u:
                raise AnalysisError("Export.hdf5: cannot evaluate the guard "
                                    f"of the re-mapping (`{u}`)")
            if not always:
                cond_dep = other
                continue
            v2 = l2.target.id
            a2 = [n for n in walk(l2) if isinstance(n, ast.Assign)
                  and is_key(n.targets[0], v2, "basin_map")]
            ref_is, ref_env = map_refs(l2, v2)
            got = {}
            for nm, val in (("same", None), ("mapped", marker)):
                env = ref_env(val)
                live = [n for n in a2 if all(
                    bool(fold(t, env, "re-mapping branch")) == pol
                    for t, pol in enclosing_conditions(n, l2))]
                got[nm] = live
            ok_same = len(got["same"]) == 1 and is_root_map(
                got["same"][0].value)
            vmapped = got["mapped"][0].value if len(
                got["mapped"]) == 1 else None
            ok_map = isinstance(vmapped, ast.Subscript) and ref_is(
                vmapped.value) and is_root_map(vmapped.slice)
            if ok_same and ok_map:
                remap.append(l2)
        ctx.ob("R7.3", bool(remap),
               "the upstream basins of a hierarchy child (the root's "
               "basins) are re-mapped with the child->root indices before "
               "they are stored" if remap else
               (f"the re-mapping of the upstream basins of a hierarchy "
                f"child is skipped depending on {cond_dep}: e.g. an "
                f"unfiltered export keeps the root's maps – the exported "
                f"file reads the origin at the wrong events")
               if cond_dep else
               f"`{short(ups[0], 60)}`: for a hierarchy child these are the "
               f"basins of the root parent (RTDC_Hierarchy.basins forwards "
               f"hparent.basins); they are stored with maps relative to the "
               f"child's own events – the exported file reads the origin "
               f"at the wrong events", node=ups[0],
               label="upstream basins of hierarchy child re-mapped to root")
    # as_dict hands over the map
    ad = repo.func(FB, "Basin.as_dict")
    dd = [n for n in walk(ad) if isinstance(n, ast.Dict)]
    if len(dd) != 1:
        raise AnalysisError("Basin.as_dict: dictionary lost")
    want = {"basin_map": "self.basinmap", "basin_locs": "[self.location]",
            "basin_type": "self.basin_type",
            "basin_format": "self.basin_format",
            "basin_feats": "self.features"}
    bad = {k: txt(entry(dd[0], k)) for k, v in want.items()
           if entry(dd[0], k) is None or txt(entry(dd[0], k)) != v}
    ctx.ob("R7.3", not bad, "as_dict hands map, location, type, format and "
           "features of the basin to store_basin" if not bad else
           f"as_dict entries differ: {bad}", node=dd[0],
           label="as_dict entries")
    params = {a.arg for a in repo.func(
        WRITER, "RTDCWriter.store_basin").args.args}
    keys = {const_str(k) for k in dd[0].keys}
    ctx.ob("R7.3", keys <= params, "as_dict keys are store_basin parameters"
           if keys <= params else f"as_dict keys {sorted(keys - params)} are "
           f"not parameters of store_basin", node=dd[0],
           label="as_dict keys", nontrivial=False)
    # the previous output is removed under the name that is written to: the
    # writer appends, so a stale file keeps its basinmap features and basin
    # definitions
    wcalls = [c for c in walk(ex) if isinstance(c, ast.Call) and (
        call_name(c) or "").split(".")[-1] == "RTDCWriter" and c.args
        and isinstance(c.args[0], ast.Name)]
    if len(wcalls) != 1:
        raise AnalysisError("Export.hdf5: writer call lost")
    P = wcalls[0].args[0].id
    order = {id(n): i for i, n in enumerate(walk(ex))}
    rebinds = [n for n in walk(ex) if isinstance(n, ast.Assign) and any(
        is_name(t, P) for t in n.targets)]
    removes = [c for c in walk(ex) if isinstance(c, ast.Call) and isinstance(
        c.func, ast.Attribute) and c.func.attr == "unlink" and is_name(
        c.func.value, P)]
    if not removes:
        raise AnalysisError("Export.hdf5: removal of the previous output "
                            "lost")
    late = [n for n in rebinds if any(order[id(n)] > order[id(c)]
                                      for c in removes)]
    ctx.ob("R7.3", not late,
           f"the previous output is removed under the final name of `{P}`"
           if not late else
           f"`{short(late[0], 50)}` changes the output name after the "
           f"previous output was removed: a second export to the same "
           f"target appends to the first one (stale basinmap features, "
           f"basin definitions of both exports)", node=(late or removes)[0],
           label="stale output removed under the final name")
    r73_writer(ctx, repo)


def map_refs(loop, var):
    """How the loop body refers to the map of the definition `var`:
    ``var["basin_map"]``, ``var.get("basin_map")`` or a local assigned once
    from one of them before the map is rewritten.
    -> (is_ref(expr), env(value) for the evaluator)"""
    # position in execution (source) order – line numbers coincide for
    # statements that were inlined from a helper
    order = {id(n): i for i, n in enumerate(walk(loop))}
    first_write = min([order[id(n)] for n in walk(loop) if isinstance(
        n, ast.Assign) and is_key(n.targets[0], var, "basin_map")]
        or [10 ** 9])
    names = {}
    for n in walk(loop):
        if isinstance(n, ast.Assign) and len(n.targets) == 1 and isinstance(
                n.targets[0], ast.Name) and dict_get(
                n.value, var, "basin_map"):
            names.setdefault(n.targets[0].id, []).append(n)
    locs = {k for k, v in names.items()
            if len(v) == 1 and order[id(v[0])] < first_write
            and sum(1 for x in walk(loop) if isinstance(x, ast.Name)
                    and x.id == k and isinstance(x.ctx, ast.Store)) == 1}

    def is_ref(e):
        return dict_get(e, var, "basin_map") or (
            isinstance(e, ast.Name) and e.id in locs)

    def env(value):
        out = {f"{var}['basin_map']": value,
               f"{var}.get('basin_map')": value}
        out.update({k: value for k in locs})
        return out
    return is_ref, env


def stmt_of_if(node):
    """the outermost `if` statement (of an elif chain) enclosing node inside
    its function body"""
    n = node
    top = None
    while n is not None and not isinstance(n, ast.FunctionDef):
        if isinstance(n, ast.If):
            top = n
            # stop at the innermost if whose test mentions the basin classes
            if "get_basin_classes" in txt(n.test):
                return n
        n = n.parent
    if top is None:
        raise AnalysisError("definition literal outside an if statement")
    return top


def r73_writer(ctx, repo):
    sb = store_basin_func(repo)
    g = CFG(sb)
    MAPN = "basin_map"
    bd = [n for n in walk(sb) if isinstance(n, ast.Assign) and isinstance(
        n.value, ast.Dict) and any(const_str(k) == "mapping"
                                   for k in n.value.keys)]
    if len(bd) != 1:
        raise AnalysisError("store_basin: definition dictionary lost")
    mv = [v for k, v in zip(bd[0].value.keys, bd[0].value.values)
          if const_str(k) == "mapping"][0]
    if not isinstance(mv, ast.Name):
        ctx.ob("R7.3", False, f"the mapping entry is `{txt(mv)}`, not the "
               f"name of the feature that holds the map", node=bd[0],
               label="mapping entry is the chosen name")
        return
    ctx.ob("R7.3", True, f"the mapping entry is `{mv.id}`", node=bd[0],
           label="mapping entry is the chosen name", nontrivial=False)
    V = mv.id
    target = g.ids_of(bd[0])

    def events_of(e, names):
        return isinstance(e, ast.Subscript) and isinstance(
            e.value, ast.Subscript) and const_str(
            e.value.slice) == "events" and isinstance(
            e.slice, ast.Name) and e.slice.id in names

    def eq_fact(names):
        def fact(e, t):
            if not t or not isinstance(e, ast.Call) or call_name(e) not in (
                    "np.all", "np.array_equal"):
                return False
            if call_name(e) == "np.all" and len(e.args) == 1 and isinstance(
                    e.args[0], ast.Compare) and isinstance(
                    e.args[0].ops[0], ast.Eq):
                a, b = e.args[0].left, e.args[0].comparators[0]
            elif call_name(e) == "np.array_equal" and len(e.args) == 2:
                a, b = e.args
            else:
                return False
            return (events_of(a, names) and is_name(b, MAPN)) or (
                events_of(b, names) and is_name(a, MAPN))
        return fact

    def is_store(names):
        def pred(n):
            if n.ast is None or n.kind != "stmt":
                return False
            for c in find_calls(n.ast, attr="store_feature"):
                ft, dt = kwarg(c, "feat", 0), kwarg(c, "data", 1)
                if isinstance(ft, ast.Name) and ft.id in names and is_name(
                        dt, MAPN):
                    return True
            return False
        return pred
    defs = []
    for n in walk(sb):
        if isinstance(n, ast.Assign):
            for t in n.targets:
                for tt in (t.elts if isinstance(t, ast.Tuple) else [t]):
                    if is_name(tt, V):
                        defs.append(n)
    if not defs:
        raise AnalysisError("store_basin: mapping name never assigned")
    def_ids = {i for d in defs for i in g.ids_of(d)}
    alts = []
    for d in defs:
        v = d.value
        tgt = [t for t in d.targets if any(
            is_name(tt, V) for tt in (t.elts if isinstance(
                t, ast.Tuple) else [t]))][0]

        def pick(val):
            """the part of `val` that is bound to the mapping name"""
            if isinstance(tgt, ast.Tuple) and isinstance(
                    val, ast.Tuple) and len(val.elts) == len(tgt.elts):
                return val.elts[[is_name(x, V) for x in tgt.elts].index(
                    True)]
            return val
        if isinstance(v, ast.IfExp):
            alts.append((d, pick(v.body), [(v.test, True)], " [if]"))
            alts.append((d, pick(v.orelse), [(v.test, False)], " [else]"))
        else:
            alts.append((d, pick(v), [], ""))
    for d, v, extra_conds, suffix in alts:
        lab = f"mapping name {short(d, 50)}{suffix}"
        conds = enclosing_conditions(d, sb) + extra_conds
        if isinstance(v, ast.Constant) and v.value == "same":
            ok = any((txt(t) == f"{MAPN} is not None" and not pol) or (
                txt(t) == f"{MAPN} is None" and pol) for t, pol in conds)
            ctx.ob("R7.3", ok, "'same' is written only when no map is given"
                   if ok else "'same' can be written although a map was "
                   "given: the referrer reads the origin unmapped",
                   node=d, label=lab)
            continue
        names = {V}
        if isinstance(v, ast.Name):
            names.add(v.id)
        fact = eq_fact(names)
        if any(fact(e, tt) for t, pol in conds
               for e, tt in branch_facts(t, pol)):
            ctx.ob("R7.3", True, "an existing map feature is reused only "
                   "when it equals the given map", node=d, label=lab)
            continue
        own = set(g.ids_of(d))
        others = def_ids - own
        store = is_store(names)
        guard = fact_guard(fact)
        r = g.reach(list(own),
                    avoid_node=lambda n: n.id in others or store(n),
                    avoid_edge=lambda s, lab_, dd: lab_ == "x" or guard(
                        s, lab_, dd))
        ok = not any(t in r for t in target)
        ctx.ob("R7.3", ok,
               "after this choice the map is stored under that name (or "
               "verified equal) before the definition is written" if ok else
               f"after `{short(d, 40)}` the definition can be written "
               f"without the map being stored under that name or verified "
               f"equal: the mapping entry names a missing or foreign "
               f"feature", node=d, label=lab)
    ctx.stat("R7.3 store_basin mapping-name definitions", len(defs))
    # an existing map feature is never overwritten: the map is stored under a
    # name only on paths on which that name was found absent from the file –
    # in every writer mode (store_feature replaces existing data in
    # "replace" mode, which would hand the new map to an older basin)
    stores = [c for c in find_calls(sb, attr="store_feature")
              if is_name(kwarg(c, "data", 1), MAPN)
              and isinstance(kwarg(c, "feat", 0), ast.Name)]
    if not stores:
        raise AnalysisError("store_basin: the map is never stored")
    for c in stores:
        nm = kwarg(c, "feat", 0).id
        names = {nm}
        for n in walk(sb):
            if isinstance(n, ast.Assign) and len(n.targets) == 1 and is_name(
                    n.targets[0], nm) and isinstance(n.value, ast.Name):
                names.add(n.value.id)

        def absent(e, t, names=names):
            if not (isinstance(e, ast.Compare) and len(e.ops) == 1
                    and isinstance(e.left, ast.Name)
                    and e.left.id in names):
                return False
            cont = expand_locals(sb, e.comparators[0])
            if cont not in ("self.h5file['events']",
                            "self.h5file['events'].keys()"):
                return False
            return (isinstance(e.ops[0], ast.In) and not t) or (
                isinstance(e.ops[0], ast.NotIn) and t)
        ok = edge_guarded(g, cfg_ids(g, c), fact_guard(absent))
        ctx.ob("R7.3", ok,
               f"the map is written under `{nm}` only when no feature of "
               f"that name exists yet" if ok else
               f"`{short(c, 60)}` can run although a feature of that name "
               f"exists (the existence test does not dominate it on its "
               f"own): in 'replace' mode store_feature overwrites the map of "
               f"a basin stored earlier, which then reads the origin through "
               f"the new basin's map", node=c,
               label=f"map stored only under an unused name "
               f"{short(c, 50)}")


# ----------------------------------------------------------------------
CREATORS = {"create_dataset": ("name", 0), "create_group": ("name", 0),
            "write_text": ("name", 1), "write_ndarray": ("name", 1),
            "write_image_grayscale": ("name", 1),
            "write_image_float32": ("name", 1), "write_ragged": ("name", 1)}


def r74(ctx, repo):
    for q, f in repo.all_functions(COPIER):
        f = expand_partials(dewalrus(f))
        for c in [n for n in walk(f) if isinstance(n, ast.Call)]:
            la = last_attr(c)
            if la == "h5ds_copy" or call_name(c) == "h5ds_copy":
                name = kwarg(c, "dst_name", 3) or kwarg(c, "src_name", 1)
            elif la in CREATORS and isinstance(c.func, ast.Attribute):
                name = kwarg(c, *CREATORS[la])
            elif call_name(c) == "h5py.h5o.copy":
                name = kwarg(c, "dst_name", 3)
            else:
                continue
            if name is None:
                raise AnalysisError(f"{COPIER}::{q}: name argument of "
                                    f"`{short(c, 50)}` not found")
            loops = []
            n = c
            while n is not f:
                n = n.parent
                if isinstance(n, (ast.For, ast.While)):
                    loops.append(n)
            for lp in loops:
                variant = set()
                if isinstance(lp, ast.For):
                    variant |= {x.id for x in ast.walk(lp.target)
                                if isinstance(x, ast.Name)}
                changed = True
                while changed:
                    changed = False
                    for st in walk(lp):
                        tg = None
                        if isinstance(st, ast.Assign):
                            tg, val = st.targets, st.value
                        elif isinstance(st, ast.For) and st is not lp:
                            tg, val = [st.target], st.iter
                        elif isinstance(st, ast.AugAssign):
                            tg, val = [st.target], st.value
                        if tg is None or not (names_in(val) & variant):
                            continue
                        for t in tg:
                            for x in ast.walk(t):
                                if isinstance(x, ast.Name) and isinstance(
                                        x.ctx, ast.Store) \
                                        and x.id not in variant:
                                    variant.add(x.id)
                                    changed = True
                dep = bool(names_in(name) & variant)
                guarded = False
                for t, pol in enclosing_conditions(c, lp):
                    if isinstance(t, ast.Compare) and len(t.ops) == 1 \
                            and txt(t.left) == txt(name):
                        if (isinstance(t.ops[0], ast.NotIn) and pol) or (
                                isinstance(t.ops[0], ast.In) and not pol):
                            guarded = True
                head = short(lp.target, 20) if isinstance(
                    lp, ast.For) else "while"
                ok = dep or guarded
                ctx.ob("R7.4", ok,
                       (f"name `{txt(name)}` changes with every iteration "
                        f"of `for {head}`" if dep else
                        f"creation of `{txt(name)}` is guarded by an "
                        f"existence test inside `for {head}`") if ok else
                       f"`{short(c, 50)}` creates the object named "
                       f"`{txt(name)}` in every iteration of `for {head} in "
                       f"{short(lp.iter, 30)}` although the name does not "
                       f"depend on the loop: the second iteration fails "
                       f"with 'name already exists'",
                       node=c, label=f"{la}({txt(name)}) in loop over "
                       f"{head}")


def r74_complete(ctx, repo):
    """basin_definition_copy decides "all features of the definition are
    copied" independently of the order in which the features are listed"""
    f = dewalrus(repo.func(COPIER, "basin_definition_copy"))

    def is_def_features(e):
        return isinstance(e, ast.Subscript) and const_str(
            e.slice) == "features" and isinstance(e.value, ast.Name)

    def unwrap(e):
        n = 0
        while isinstance(e, ast.Call) and call_name(e) in (
                "set", "sorted", "frozenset") and len(e.args) == 1:
            e = e.args[0]
            n += 1
        return e, n
    found = []
    for c in [n for n in walk(f) if isinstance(n, ast.Compare)]:
        if len(c.ops) != 1 or not isinstance(c.ops[0], (ast.Eq, ast.NotEq)):
            continue
        a, na = unwrap(c.left)
        b, nb = unwrap(c.comparators[0])
        if is_def_features(b) and not is_def_features(a):
            a, na, b, nb = b, nb, a, na
        if not is_def_features(a) or is_def_features(b):
            continue
        found.append((c, a, na, b, nb))
    if not found:
        raise AnalysisError("basin_definition_copy: comparison of the used "
                            "features with the definition not found")
    for c, a, na, b, nb in found:
        if na and nb:
            ok, why = True, "order-independent comparison"
        else:
            v = b
            if isinstance(v, ast.Name):
                v = single_assign(f, v.id)
            ok = isinstance(v, (ast.ListComp, ast.GeneratorExp)) and len(
                v.generators) == 1 and isinstance(
                v.generators[0].target, ast.Name) and is_name(
                v.elt, v.generators[0].target.id) and txt(
                v.generators[0].iter) == txt(a)
            why = "the used features keep the order of the definition"
            if v is None or not isinstance(v, (ast.ListComp, ast.GeneratorExp,
                                               ast.Name, ast.Call)):
                raise AnalysisError("basin_definition_copy: cannot tell how "
                                    f"`{txt(b)}` is built")
        ctx.ob("R7.4", ok,
               f"'all features of the definition are copied' is decided "
               f"correctly ({why})" if ok else
               f"`{short(c, 50)}` compares ordered lists, but `{txt(b)}` "
               f"does not follow the order of the definition: a definition "
               f"whose features are not in that order is rewritten under a "
               f"new key although all of its features are copied",
               node=c, label="definition completeness order-independent")


# ----------------------------------------------------------------------
def r75(ctx, repo):
    br = retrieve_func(repo)
    ppath = {n.targets[0].id for n in walk(br) if isinstance(n, ast.Assign)
             and isinstance(n.targets[0], ast.Name) and isinstance(
                 n.value, ast.Call) and call_name(n.value) in (
                 "pathlib.Path", "Path") and n.value.args
             and is_self_attr(n.value.args[0], "path")}
    inst = [c for c in walk(br) if isinstance(c, ast.Call) and c.args
            and any(k.arg is None for k in c.keywords)
            and isinstance(c.func, ast.Name)]
    if not inst:
        raise AnalysisError("basins_retrieve: basin instantiations not found")
    rel = []
    for c in inst:
        a0 = ast.parse(expand_locals(br, c.args[0]), mode="eval").body
        if isinstance(a0, ast.BinOp) and isinstance(a0.op, ast.Div) \
                and isinstance(a0.left, ast.Attribute) \
                and a0.left.attr == "parent" and (
                    txt(a0.left.value) in ppath
                    or "self.path" in txt(a0.left.value)):
            rel.append(c)
    ctx.ob("R7.5", bool(rel),
           "file basins are also looked up relative to the directory of the "
           "referrer" if rel else "file basins are no longer looked up "
           "relative to the referrer: moving referrer and origin together "
           "loses the basin", node=rel[0] if rel else br,
           label="relative lookup")
    ex = export_func(repo)
    n_loc = 0
    for st in walk(ex):
        if isinstance(st, ast.Assign) and isinstance(
                st.targets[0], ast.Name) and isinstance(
                st.value, ast.List) and len(st.value.elts) == 1 and txt(
                st.value.elts[0]).endswith(".path"):
            owner = txt(st.value.elts[0])[:-len(".path")]
            L = st.targets[0].id
            blk = st.parent
            body = blk.body if st in getattr(blk, "body", []) else blk.orelse
            after = body[body.index(st) + 1:]
            ok = False
            for s2 in after:
                if isinstance(s2, ast.If) and any(
                        isinstance(x, ast.Call) and last_attr(x) == "append"
                        and is_name(x.func.value, L) and x.args and txt(
                            x.args[0]) == f"{owner}.path.name"
                        for x in walk(s2)):
                    loc = single_assign_in(body, txt(s2.test))
                    ok = loc is not None and txt(loc) == \
                        f"{owner}.format == 'hdf5'"
            n_loc += 1
            ctx.ob("R7.5", ok, f"for a local origin the bare file name of "
                   f"{owner} is stored next to the absolute path" if ok else
                   f"the bare file name of {owner} is not stored for local "
                   f"origins: the exported file cannot be moved together "
                   f"with its origin", node=st,
                   label=f"file name stored for {owner}")
    if n_loc < 2:
        raise AnalysisError("Export.hdf5: location lists of the exported "
                            "dataset not found")
    sb = store_basin_func(repo)
    # what is stored for a file basin when verify is off: the list that
    # becomes b_data["paths"] on the branch basin_type == "file"
    plists = set()
    for n in walk(sb):
        if isinstance(n, ast.Assign) and len(n.targets) == 1 and isinstance(
                n.targets[0], ast.Subscript) and const_str(
                n.targets[0].slice) == "paths" and isinstance(
                n.value, ast.Name):
            conds = enclosing_conditions(n, sb)
            env = {"basin_type": "file"}
            try:
                if all(bool(Mini(env).ev(t)) == pol for t, pol in conds
                       if "basin_type" in txt(t)):
                    plists.add(n.value.id)
            except Unknown as u:
                raise AnalysisError(f"store_basin: cannot evaluate `{u}`")
    if len(plists) != 1:
        raise AnalysisError("store_basin: list of file locations not found")
    PL = list(plists)[0]
    apps = []
    for c in find_calls(sb, attr="append"):
        if not (isinstance(c.func, ast.Attribute) and is_name(
                c.func.value, PL) and len(c.args) == 1):
            continue
        conds = [(t, pol) for t, pol in enclosing_conditions(c, sb)
                 if "verify" in names_in(t)]
        try:
            if all(bool(Mini({"verify": False}).ev(t)) == pol
                   for t, pol in conds):
                apps.append(c)
        except Unknown as u:
            raise AnalysisError(f"store_basin: cannot evaluate `{u}`")
    if not apps:
        raise AnalysisError("store_basin: nothing is stored for unverified "
                            "file locations")

    def unchanged(e, loop, depth=0):
        """True: the given location (loop variable) possibly wrapped in
        str / pathlib.Path; False: altered; None: cannot tell"""
        if depth > 4:
            return None
        if isinstance(e, ast.Call) and call_name(e) in (
                "str", "pathlib.Path", "Path", "os.fspath",
                "pathlib.PurePath") and len(e.args) == 1 \
                and not e.keywords:
            return unchanged(e.args[0], loop, depth + 1)
        if isinstance(e, ast.JoinedStr) and len(e.values) == 1 \
                and isinstance(e.values[0], ast.FormattedValue) \
                and e.values[0].format_spec is None:
            return unchanged(e.values[0].value, loop, depth + 1)
        if isinstance(e, ast.Name):
            if is_name(loop.target, e.id) and not [
                    n for n in walk(loop) if isinstance(n, ast.Assign)
                    and any(is_name(t, e.id) for t in n.targets)]:
                return True
            defs = [n.value for n in walk(loop) if isinstance(n, ast.Assign)
                    and any(is_name(t, e.id) for t in n.targets)]
            if not defs:
                return None
            res = []
            for d in defs:
                if is_name(loop.target, e.id) and e.id in names_in(d):
                    # pp = pathlib.Path(pp): rebinding of the loop variable
                    inner = d
                    while isinstance(inner, ast.Call) and call_name(
                            inner) in ("str", "pathlib.Path", "Path",
                                       "os.fspath") and len(inner.args) == 1:
                        inner = inner.args[0]
                    res.append(True if is_name(inner, e.id) else (
                        False if isinstance(inner, ast.Call) else None))
                else:
                    res.append(unchanged(d, loop, depth + 1))
            if all(r is True for r in res):
                return True
            return False if any(r is False for r in res) else None
        if isinstance(e, ast.Call) and isinstance(e.func, ast.Attribute) \
                and e.func.attr in ("resolve", "absolute", "expanduser",
                                    "relative_to", "replace", "with_name",
                                    "with_suffix", "lower", "upper", "strip"):
            return False
        if isinstance(e, ast.Attribute) and e.attr in ("name", "parent",
                                                       "stem"):
            return False
        return None
    verdicts = []
    for c in apps:
        loop = c
        while loop is not None and not (isinstance(loop, ast.For) and is_name(
                loop.iter, "basin_locs")):
            loop = getattr(loop, "parent", None)
        if loop is None or not isinstance(loop.target, ast.Name):
            raise AnalysisError("store_basin: loop over basin_locs lost")
        v = unchanged(c.args[0], loop)
        if v is None:
            raise AnalysisError(f"store_basin: cannot tell what "
                                f"`{short(c, 50)}` stores")
        verdicts.append(v)
    ok = all(verdicts)
    ctx.ob("R7.5", ok, "store_basin(verify=False) stores the given "
           "locations unchanged (relative names survive)" if ok else
           "store_basin(verify=False) alters the given locations",
           node=apps[0], label="unverified locations kept")
    ib = repo.func(FB, "InternalH5DatasetBasin.__init__")
    ok = any(isinstance(n, ast.If) and txt(n.test) == "self.mapping == 'same'"
             and any(isinstance(x, ast.Raise) for x in n.body)
             for n in walk(ib))
    ctx.ob("R7.5", ok, "internal basins insist on a mapping" if ok else
           "internal basins may be created without mapping: shared rows are "
           "read at the referrer's indices", node=ib,
           label="internal basin needs mapping")


def single_assign_in(body, name):
    vals = [s.value for s in body if isinstance(s, ast.Assign)
            and is_name(s.targets[0], name)]
    return vals[0] if len(vals) == 1 else None


# ----------------------------------------------------------------------
def r77(ctx, repo):
    """what a lazy accessor memoises must not depend on per-call arguments
    (other than the key it is stored under)"""
    for cname, cls in classes_in(repo, FB):
        for m in [st for st in cls.body if isinstance(st, ast.FunctionDef)]:
            if m.name == "__init__":
                continue
            a = m.args
            params = {x.arg for x in a.args[1:] + a.kwonlyargs
                      + a.posonlyargs}
            params |= {x.arg for x in (a.vararg, a.kwarg) if x is not None}
            # names computed from the arguments
            tainted = {p: {p} for p in params}
            changed = True
            while changed:
                changed = False
                for n in walk(m):
                    tg = None
                    if isinstance(n, ast.Assign):
                        tg, val = n.targets, n.value
                    elif isinstance(n, ast.AugAssign):
                        tg, val = [n.target], n.value
                    elif isinstance(n, ast.For):
                        tg, val = [n.target], n.iter
                    if tg is None:
                        continue
                    src = set()
                    for x in names_in(val):
                        src |= tainted.get(x, set())
                    if not src:
                        continue
                    for t in tg:
                        for x in ast.walk(t):
                            if isinstance(x, ast.Name) and isinstance(
                                    x.ctx, ast.Store) and not src <= \
                                    tainted.get(x.id, set()):
                                tainted[x.id] = tainted.get(
                                    x.id, set()) | src
                                changed = True
            for n in walk(m):
                if not isinstance(n, ast.Assign):
                    continue
                for t in n.targets:
                    key = set()
                    if isinstance(t, ast.Subscript) and is_self_attr(
                            t.value):
                        for x in names_in(t.slice):
                            key |= tainted.get(x, set())
                        attr = t.value.attr
                    elif is_self_attr(t):
                        attr = t.attr
                    else:
                        continue
                    dep = set()
                    for x in names_in(n.value):
                        dep |= tainted.get(x, set())
                    dep -= key
                    ok = not dep
                    ctx.ob("R7.7", ok,
                           f"self.{attr} is stored independently of the "
                           f"call's arguments" if ok else
                           f"`{short(n, 60)}` memoises a value computed "
                           f"from the argument(s) {sorted(dep)} of this "
                           f"call: later calls with other arguments get the "
                           f"first caller's result (e.g. data rounded to the "
                           f"first requested dtype)", node=n,
                           label=f"memo self.{attr} = {short(n.value, 40)}")


# ----------------------------------------------------------------------
def _len_info(cls, index):
    """(function defining __len__, set of len-argument texts, pure?)"""
    c = cls
    seen = set()
    while c is not None and c.name not in seen:
        seen.add(c.name)
        m = method(c, "__len__")
        if m is not None:
            args = set()
            for x in walk(m):
                if isinstance(x, ast.Call) and call_name(x) == "len" \
                        and x.args:
                    args.add(txt(x.args[0]))
                elif isinstance(x, ast.Call) and last_attr(x) == "__len__" \
                        and isinstance(x.func, ast.Attribute):
                    args.add(txt(x.func.value))
            rets = [r for r in walk(m) if isinstance(r, ast.Return)]
            pure = len(rets) == 1 and (
                (isinstance(rets[0].value, ast.Call) and call_name(
                    rets[0].value) == "len")
                or (isinstance(rets[0].value, ast.Call) and last_attr(
                    rets[0].value) == "__len__")) and len(args) == 1
            # cached form: self._x = len(E); return self._x
            if not pure and len(args) == 1 and len(rets) == 1 and not any(
                    isinstance(x, (ast.BinOp, ast.AugAssign))
                    for x in walk(m)):
                pure = True
            return m, args, pure
        nxt = None
        for b in base_names(c):
            if b in index:
                nxt = index[b]
        c = nxt
    return None, set(), False


def _init_bindings(cls, index):
    """parameter -> attribute text bound in __init__ (incl. one level of
    super().__init__(param))"""
    out = {}
    ini = method(cls, "__init__")
    if ini is None:
        return out
    params = [a.arg for a in ini.args.args]
    for n in walk(ini):
        if isinstance(n, ast.Assign) and is_self_attr(
                n.targets[0]) and isinstance(
                n.value, ast.Name) and n.value.id in params:
            out[n.value.id] = txt(n.targets[0])
        if isinstance(n, ast.Call) and last_attr(n) == "__init__" \
                and isinstance(n.func.value, ast.Call) and call_name(
                n.func.value) == "super":
            for b in base_names(cls):
                if b in index:
                    sub = _init_bindings(index[b], index)
                    bini = method(index[b], "__init__")
                    if bini is None:
                        continue
                    bparams = [a.arg for a in bini.args.args][1:]
                    for i, a in enumerate(n.args):
                        if isinstance(a, ast.Name) and i < len(
                                bparams) and bparams[i] in sub:
                            out[a.id] = sub[bparams[i]]
    return out


def r76(ctx, repo):
    n_inst = 0
    for rel in WRAPPER_FILES:
        index = dict(classes_in(repo, rel))
        for name, cls in classes_in(repo, rel):
            lm, largs, pure = _len_info(cls, index)
            for attr in ("shape", "size"):
                prov = _provider(cls, attr)
                if prov is None:
                    continue
                kind, node, expr = prov
                if lm is None:
                    # length comes from a base outside the module
                    ok = expr is not None and txt(expr) == "len(self)"
                    if kind == "derived" or ok:
                        n_inst += 1
                        ctx.ob("R7.6", True, f"{name}.{attr} uses len(self)",
                               node=node, key=f"{rel}::{name}::first axis "
                               f"of {attr}", nontrivial=False)
                        continue
                    raise AnalysisError(f"{rel}::{name}: __len__ not found "
                                        f"for {attr}")
                n_inst += 1
                bind = _init_bindings(cls, index)
                ok, why = _agree(kind, expr, largs, pure, bind)
                ctx.ob("R7.6", ok,
                       f"{name}: first axis of {attr} {why}" if ok else
                       f"{name}: {attr} {why}, but __len__ returns "
                       f"len({', '.join(sorted(largs))}): the wrapper "
                       f"re-indexes the first axis and reports the wrapped "
                       f"object's extent – consumers that allocate from "
                       f"{attr} get the wrong number of events",
                       node=node,
                       key=f"{rel}::{name}::first axis of {attr}")
    ctx.stat("R7.6 wrapper attributes checked", n_inst)


def _provider(cls, attr):
    """('first', node, expr of first axis) | ('forward', node, object expr)
    | ('derived', node, None) | None"""
    for st in cls.body:
        if isinstance(st, ast.FunctionDef) and st.name == attr and any(
                txt(d) == "property" for d in st.decorator_list):
            rets = [r for r in walk(st) if isinstance(r, ast.Return)]
            if len(rets) != 1:
                raise AnalysisError(f"{cls.name}.{attr}: several returns")
            v = rets[0].value
            if is_self_attr(v):
                asg = [n.value for n in walk(st) if isinstance(n, ast.Assign)
                       and txt(n.targets[0]) == txt(v)]
                if len(asg) != 1:
                    raise AnalysisError(f"{cls.name}.{attr}: cached value "
                                        f"not resolvable")
                v = asg[0]
            return _classify(cls, attr, st, v)
    ini = method(cls, "__init__")
    if ini is not None:
        for n in walk(ini):
            if isinstance(n, ast.Assign) and is_self_attr(
                    n.targets[0], attr):
                return _classify(cls, attr, n, n.value)
    ga = method(cls, "__getattr__")
    if ga is not None:
        for n in walk(ga):
            if isinstance(n, ast.If) and isinstance(
                    n.test, ast.Compare) and isinstance(
                    n.test.ops[0], ast.In) and isinstance(
                    n.test.comparators[0], (ast.List, ast.Tuple, ast.Set)):
                names = {const_str(x) for x in n.test.comparators[0].elts}
                rets = [r for r in n.body if isinstance(r, ast.Return)]
                if attr in names and rets and isinstance(
                        rets[0].value, ast.Call) and call_name(
                        rets[0].value) == "getattr":
                    return "forward", n, rets[0].value.args[0]
    return None


def _classify(cls, attr, node, v):
    if attr == "size" and "self.shape" in txt(v):
        return "derived", node, None
    if isinstance(v, ast.Call) and call_name(v) in ("tuple", "list") \
            and len(v.args) == 1:
        v = v.args[0]
    if isinstance(v, ast.Attribute) and v.attr == attr:
        return "forward", node, v.value
    if isinstance(v, ast.BinOp) and isinstance(v.op, ast.Add):
        v = v.left
        if isinstance(v, ast.Call) and call_name(v) == "tuple" and v.args:
            v = v.args[0]
    if isinstance(v, (ast.Tuple, ast.List)) and v.elts:
        return "first", node, v.elts[0]
    raise AnalysisError(f"{cls.name}.{attr}: value `{short(v, 50)}` not "
                        f"recognised")


def _agree(kind, expr, largs, pure, bind):
    if kind == "derived":
        return True, "is computed from the wrapper's own shape"
    if kind == "forward":
        t = txt(expr)
        if pure and t in largs:
            return True, f"is forwarded to {t}, whose length is __len__"
        return False, f"is forwarded to `{t}`"
    t = txt(expr)
    if t == "len(self)":
        return True, "is len(self)"
    if isinstance(expr, ast.Call) and call_name(expr) == "len" and expr.args:
        a = expr.args[0]
        at = bind.get(a.id, txt(a)) if isinstance(a, ast.Name) else txt(a)
        if pure and at in largs:
            return True, f"is len({at}), the source of __len__"
        return False, f"takes its first axis from len({at})"
    return False, f"takes its first axis from `{t}`"


# ----------------------------------------------------------------------
def _unique_keys(ctx):
    """number repeated construct keys (#2, #3 ... in source order)"""
    seen = {}
    for o in ctx.obs:
        k = (o.rule, o.key)
        seen[k] = seen.get(k, 0) + 1
        if seen[k] > 1:
            o.key = f"{o.key} #{seen[k]}"


def run(ctx):
    repo = ctx.repo
    ctx.rule("R7.1", "lookup precedence innate > temporary > cached "
             "ancillary > internal > file > any basin > computed; type "
             "filter; a basin offers stored features only", minimum=8)
    ctx.rule("R7.2", "every proxy route indexes the origin through the map; "
             "mapped basins wrapped; map read from the referrer", minimum=22)
    ctx.rule("R7.3", "map composition on export (filter, hierarchy child, "
             "upstream basins), mapping name = stored feature", minimum=23)
    ctx.rule("R7.4", "named objects are created once (name varies with "
             "every enclosing loop or creation is guarded); rewrite decision of "
             "basin definitions order-independent", minimum=8)
    ctx.rule("R7.5", "relocation: relative lookup, bare file name stored, "
             "unverified locations unchanged, internal basins mapped",
             minimum=5)
    ctx.rule("R7.6", "first axis of shape/size of feature wrappers agrees "
             "with __len__", minimum=18)
    ctx.rule("R7.7", "memoised values of the basin proxies do not depend "
             "on per-call arguments", minimum=9)
    r71(ctx, repo)
    r71_basin_offer(ctx, repo)
    r72(ctx, repo)
    r73(ctx, repo)
    r74(ctx, repo)
    r74_complete(ctx, repo)
    r75(ctx, repo)
    r76(ctx, repo)
    r77(ctx, repo)
    _unique_keys(ctx)


H5EV = "dclab/rtdc_dataset/fmt_hdf5/events.py"
HIEV = "dclab/rtdc_dataset/fmt_hierarchy/events.py"
CONT = "dclab/features/contour.py"
TDIMG = "dclab/rtdc_dataset/fmt_tdms/event_image.py"

MUTANTS = [
    # ---- R7.1
    ("innate features looked up after the basins", CORE,
     [("        if feat in self._events:\n"
       "            return self._events[feat]\n"
       "        elif feat in self._usertemp:\n"
       "            return self._usertemp[feat]\n", ""),
      ("        # 3. Check for ancillary features that can be computed\n",
       "        if feat in self._events:\n"
       "            return self._events[feat]\n"
       "        elif feat in self._usertemp:\n"
       "            return self._usertemp[feat]\n"
       "        # 3. Check for ancillary features that can be computed\n")],
     "R7.1"),
    ("file basins before internal basins", CORE,
     ('for basin_type in ["internal", "file", None]:',
      'for basin_type in ["file", "internal", None]:'), "R7.1"),
    ("ancillary features computed before basins are asked", CORE,
     ("data = self._get_ancillary_feature_data(feat, no_compute=True)",
      "data = self._get_ancillary_feature_data(feat)"), "R7.1"),
    ("type filter inverted", CORE,
     ("if basin_type is not None and basin_type != bn.basin_type:",
      "if basin_type is not None and basin_type == bn.basin_type:"),
     "R7.1"),
    ("type filter skips everything for 'any'", CORE,
     ("if basin_type is not None and basin_type != bn.basin_type:",
      "if basin_type != bn.basin_type:"), "R7.1"),
    ("missing feature yields None", CORE,
     ("        raise KeyError(f\"Feature '{feat}' does not exist in {self}!\")",
      "        return None"), "R7.1"),
    # ---- R7.2
    ("integer route by-passes the map", FB,
     ("return self.feat_obj[self.basinmap[index]]",
      "return self.feat_obj[index]"), "R7.2"),
    ("scalar cache holds unmapped data", FB,
     ("self._cache = self.feat_obj[:][self.basinmap]",
      "self._cache = self.feat_obj[:]"), "R7.2"),
    ("position and mapped index swapped", FB,
     ("                out_arr[ii] = self.feat_obj[idx]\n",
      "                out_arr[idx] = self.feat_obj[ii]\n", 0), "R7.2"),
    ("non-scalar route ignores the requested index", FB,
     ("                indices = self.basinmap[index]\n",
      "                indices = self.basinmap\n"), "R7.2"),
    ("output allocated with the origin's length", FB,
     ("out_arr = np.empty((len(indices),) + self.feat_obj.shape[1:],",
      "out_arr = np.empty((len(self.feat_obj),) + self.feat_obj.shape[1:],"),
     "R7.2"),
    ("cached route ignores the requested index", FB,
     ("            return self.__array__()[index]\n",
      "            return self.__array__()\n"), "R7.2"),
    ("BasinProxy caches the unwrapped feature", FB,
     ("            self._features[feat] = feat_obj\n",
      "            self._features[feat] = self.ds[feat]\n"), "R7.2"),
    ("mapped / unmapped branches of load_dataset swapped", FB,
     ("        ds = self._load_dataset(location, **kwargs)\n"
      "        if self.mapping != \"same\":",
      "        ds = self._load_dataset(location, **kwargs)\n"
      "        if self.mapping == \"same\":"), "R7.2"),
    ("map always read from basinmap0", FB,
     ("basinmap = self._basinmap_referrer()[self.mapping]",
      "basinmap = self._basinmap_referrer()[\"basinmap0\"]"), "R7.2"),
    ("mapping of the definition not passed", CORE,
     ('"mapping": bdict.get("mapping", "same"),', '"mapping": "same",'),
     "R7.2"),
    ("BasinProxy length is the origin's", FB,
     ("    def __len__(self):\n        return len(self.basinmap)\n",
      "    def __len__(self):\n        return len(self.ds)\n", 0), "R7.2"),
    # ---- R7.3
    ("internal basins exported", EXPORT,
     ("                        # make sense to store these basins in the "
      "output file.\n                        continue\n",
      "                        # make sense to store these basins in the "
      "output file.\n                        pass\n"), "R7.3"),
    ("same mapping: tuple of np.where stored", EXPORT,
     ('bn_dict["basin_map"] = np.where(filter_arr)[0]',
      'bn_dict["basin_map"] = np.where(filter_arr)'), "R7.3"),
    ("mapped basin: original map ignored", EXPORT,
     ('bn_dict["basin_map"] = basinmap_orig[filter_arr]',
      'bn_dict["basin_map"] = np.where(filter_arr)[0]'), "R7.3"),
    ("mapped basin: composition reversed", EXPORT,
     ('bn_dict["basin_map"] = basinmap_orig[filter_arr]',
      'bn_dict["basin_map"] = filter_arr[basinmap_orig]'), "R7.3"),
    ("filtered flag inverted", EXPORT,
     ("                    if not filtered:\n"
      "                        # filtering disabled: just copy basins\n",
      "                    if filtered:\n"
      "                        # filtering disabled: just copy basins\n"),
     "R7.3"),
    ("same / mapped branches swapped", EXPORT,
     ("                    elif basinmap_orig is None:\n",
      "                    elif basinmap_orig is not None:\n"), "R7.3"),
    ("hierarchy child mapped to parent instead of root", EXPORT,
     lambda s: s.replace("map_indices_child2root",
                         "map_indices_child2parent"), "R7.3"),
    ("hierarchy child map from the filter instead of all events", EXPORT,
     lambda s: s.replace("child_indices=np.arange(len(ds))",
                         "child_indices=np.where(ds.filter.all)[0]"),
     "R7.3"),
    ("hierarchy basin keeps the child's format", EXPORT,
     ('"basin_format": ds_root.format,', '"basin_format": ds.format,'),
     "R7.3"),
    ("existing map not compared in replace mode (seeded C07_8)", WRITER,
     ('                    if bm_cand in self.h5file["events"]:\n',
      '                    if (bm_cand in self.h5file["events"]\n'
      '                            and self.mode != "replace"):\n'), "R7.3"),
    ("explicit map name overwritten in replace mode", WRITER,
     ('                if basin_map_name not in self.h5file["events"]:\n',
      '                if (basin_map_name not in self.h5file["events"]\n'
      '                        or self.mode == "replace"):\n'), "R7.3"),
    ("previous output removed before the suffix is appended "
     "(seeded C07_15)", EXPORT,
     [("        elif path.exists():\n            path.unlink()\n", ""),
      ("        path = pathlib.Path(path)\n        # Make sure that path "
       "ends with .rtdc\n",
       "        path = pathlib.Path(path)\n"
       "        if override and path.exists():\n"
       "            path.unlink()\n"
       "        # Make sure that path ends with .rtdc\n")], "R7.3"),
    ("new map feature never stored", WRITER,
     ("                        basin_map_name = bm_cand\n"
      "                        self.store_feature(feat=basin_map_name, "
      "data=basin_map)\n",
      "                        basin_map_name = bm_cand\n"), "R7.3"),
    ("existing map reused when only the length matches", WRITER,
     ('if np.all(self.h5file["events"][bm_cand] == basin_map):',
      'if len(self.h5file["events"][bm_cand]) == len(basin_map):'), "R7.3"),
    ("explicit map name not checked against existing feature", WRITER,
     ('                elif not np.all(\n'
      '                        self.h5file["events"][basin_map_name] == '
      'basin_map):',
      '                elif False and not np.all(\n'
      '                        self.h5file["events"][basin_map_name] == '
      'basin_map):'), "R7.3"),
    ("explicit map stored under another name", WRITER,
     ("                    # Write the explicit basin mapping into the file.\n"
      "                    self.store_feature(feat=basin_map_name, "
      "data=basin_map)\n",
      "                    # Write the explicit basin mapping into the file.\n"
      "                    self.store_feature(feat=\"basinmap0\", "
      "data=basin_map)\n"), "R7.3"),
    ("as_dict drops the map", FB,
     ('            "basin_map": self.basinmap,\n',
      '            "basin_map": None,\n'), "R7.3"),
    # ---- R7.4
    ("used features in the order of the copied features "
     "(seeded C08_18)", COPIER,
     ('feat_used = [f for f in bn["features"] if f in features_iter]',
      'feat_used = [f for f in features_iter if f in bn["features"]]'),
     "R7.4"),
    ("all logs copied to one name", COPIER,
     ("                      dst_name=meta_prefix + l_key,\n",
      "                      dst_name=meta_prefix,\n"), "R7.4"),
    ("group members copied under the group's name", COPIER,
     ("                      src_name=key,\n",
      "                      src_name=src_name,\n"), "R7.4"),
    ("tables copied to one name", COPIER,
     ("                name=tkey,\n", "                name=meta_prefix,\n"),
     "R7.4"),
    # ---- R7.5
    ("relative lookup dropped", CORE,
     ("bnr = b_cls(this_path.parent / pp, **kwargs)",
      "bnr = b_cls(pp, **kwargs)"), "R7.5"),
    ("bare file name not stored on export", EXPORT,
     ("                        basin_locs.append(ds.path.name)\n",
      "                        pass\n"), "R7.5"),
    ("unverified locations resolved", WRITER,
     ("                    flocs.append(str(pp))\n",
      "                    flocs.append(str(pp.resolve()))\n"), "R7.5"),
    ("internal basin without mapping accepted", FB,
     ('        if self.mapping == "same":\n            raise ValueError(\n'
      "                \"'internal' basins",
      '        if False:\n            raise ValueError(\n'
      "                \"'internal' basins"), "R7.5"),
    # ---- R7.6
    # ---- R7.1 (seeded C07_6) / R7.7 (seeded extra)
    ("basin types asked in alphabetical order", CORE,
     ('for basin_type in ["internal", "file", None]:',
      "for basin_type in sorted(set(bn.basin_type for bn in self.basins)):"),
     "R7.1"),
    ("basin types asked in set order", CORE,
     ('for basin_type in ["internal", "file", None]:',
      "for basin_type in list({bn.basin_type for bn in self.basins}):"),
     "R7.1"),
    ("remote basins never asked", CORE,
     ('for basin_type in ["internal", "file", None]:',
      'for basin_type in ["internal", "file"]:'), "R7.1"),
    ("scalar cache filled with the first caller's dtype", FB,
     ("            self._cache = self.feat_obj[:][self.basinmap]\n",
      "            self._cache = np.asarray(self.feat_obj[:][self.basinmap],\n"
      "                                     dtype=dtype)\n"), "R7.7"),
    ("scalar cache filled through the caller's kwargs", FB,
     ("            self._cache = self.feat_obj[:][self.basinmap]\n",
      "            opts = dict(kwargs)\n"
      "            self._cache = np.array(self.feat_obj[:][self.basinmap],\n"
      "                                   **opts)\n"), "R7.7"),
    ("wrapper cache keyed by a constant", FB,
     ("            self._features[feat] = feat_obj\n",
      "            self._features[\"last\"] = feat_obj\n"), "R7.7"),
    ("composed map memoised once per proxy (seeded C07_11)", FB,
     [("        self._features = {}\n\n    def __contains__(self, item):",
       "        self._features = {}\n"
       "        self._basinmap_nested = None\n\n"
       "    def __contains__(self, item):"),
      ("                                         basinmap=self.basinmap)\n"
       "            self._features[feat] = feat_obj\n",
       "                                         basinmap=self.basinmap)\n"
       "            if isinstance(feat_obj.feat_obj, BasinProxyFeature):\n"
       "                nested = feat_obj.feat_obj\n"
       "                if self._basinmap_nested is None:\n"
       "                    self._basinmap_nested = "
       "nested.basinmap[self.basinmap]\n"
       "                feat_obj = BasinProxyFeature(\n"
       "                    feat_obj=nested.feat_obj,\n"
       "                    basinmap=self._basinmap_nested)\n"
       "            self._features[feat] = feat_obj\n")], "R7.7"),
    ("collapsed wrapper ignores the proxy's own map", FB,
     ("                                         basinmap=self.basinmap)\n"
      "            self._features[feat] = feat_obj\n",
      "                                         basinmap=self.basinmap)\n"
      "            if isinstance(feat_obj.feat_obj, BasinProxyFeature):\n"
      "                nested = feat_obj.feat_obj\n"
      "                feat_obj = BasinProxyFeature(\n"
      "                    feat_obj=nested.feat_obj,\n"
      "                    basinmap=nested.basinmap)\n"
      "            self._features[feat] = feat_obj\n"), "R7.2"),
    ("cached ancillary data before stored features (seeded C01_11)", CORE,
     ("        if feat in self._events:\n"
      "            return self._events[feat]\n"
      "        elif feat in self._usertemp:\n"
      "            return self._usertemp[feat]\n"
      "        # 1. Check for cached ancillary data\n"
      "        data = self._get_ancillary_feature_data(feat, no_compute=True)\n"
      "        if data is not None:\n"
      "            return data\n",
      "        if feat in self._ancillaries:\n"
      "            data = self._get_ancillary_feature_data(feat, "
      "no_compute=True)\n"
      "            if data is not None:\n"
      "                return data\n"
      "        if feat in self._usertemp:\n"
      "            return self._usertemp[feat]\n"
      "        elif feat in self._events:\n"
      "            return self._events[feat]\n"), "R7.1"),
    ("basin offers every available feature (seeded C06_15)", FB,
     ("                self._features = sorted(set(self.ds.features_innate\n",
      "                self._features = sorted(set(self.ds.features\n"),
     "R7.1"),
    ("basin offers loaded features", FB,
     ("                self._features = sorted(set(self.ds.features_innate\n",
      "                self._features = sorted(set(self.ds.features_loaded\n"),
     "R7.1"),
    ("hierarchy re-mapping only for filtered exports (seeded C07_16)",
     EXPORT,
     ('                if ds.format == "hierarchy":\n'
      '                    # avoid circular imports\n',
      '                if ds.format == "hierarchy" and filtered:\n'
      '                    # avoid circular imports\n'), "R7.3"),
    ("ChildNDArray.shape forwarded to the parent", HIEV,
     ("        return tuple([len(self)] + list(hp[self.feat][0].shape))\n",
      "        return hp[self.feat].shape\n"), "R7.6"),
    ("ChildScalar.shape forwarded to the parent", HIEV,
     ("        return len(self),\n",
      "        return self.child.hparent[self.feat].shape\n"), "R7.6"),
    ("LazyContourList.shape from the cache", CONT,
     ("        self.shape = len(masks), np.nan, 2\n",
      "        self.shape = len(self.contours), np.nan, 2\n"), "R7.6"),
    ("tdms image shape ignores the frame offset", TDIMG,
     ("            self._shape = len(self), f0[0], f0[1]\n",
      "            self._shape = len(self._image_data), f0[0], f0[1]\n"),
     "R7.6"),
    ("H5MaskEvent length from another dataset", H5EV,
     ("    def __len__(self):\n        return len(self.h5dataset)\n",
      "    def __len__(self):\n        return len(self.h5dataset.parent)\n"),
     "R7.6"),
]

def _twin_append_verified(src):
    """instantiate / verify / append moved into a static helper"""
    src = src.replace(
        "                    bna = b_cls(pp, **kwargs)\n"
        "                    if bna.verify_basin():\n"
        "                        basins.append(bna)\n"
        "                        break\n",
        "                    if self._basin_append_verified(basins, b_cls, pp, "
        "kwargs):\n"
        "                        break\n", 1)
    src = src.replace(
        "                        bnr = b_cls(this_path.parent / pp, **kwargs)\n"
        "                        if bnr.verify_basin():\n"
        "                            basins.append(bnr)\n"
        "                            break\n",
        "                        if self._basin_append_verified(\n"
        "                                basins, b_cls, this_path.parent / pp, "
        "kwargs):\n"
        "                            break\n", 1)
    return src.replace(
        "    def get_measurement_identifier(self):\n",
        "    @staticmethod\n"
        "    def _basin_append_verified(basins, b_cls, location, kwargs):\n"
        "        bn = b_cls(location, **kwargs)\n"
        "        if bn.verify_basin():\n"
        "            basins.append(bn)\n"
        "            return True\n"
        "        return False\n\n"
        "    def get_measurement_identifier(self):\n", 1)


_TWIN_CANDIDATES = (
    "            for bn in list(self.basins):\n"
    "                if basin_type is not None and basin_type != bn.basin_type:\n"
    "                    # User asked for specific basin type\n"
    "                    continue\n",
    "            candidates = (\n"
    "                bn for bn in list(self.basins)\n"
    "                if basin_type is None or basin_type == bn.basin_type)\n"
    "            for bn in candidates:\n")


def _twin_store_basins_function(src):
    """the loop storing the basins moved into a module-level procedure"""
    a = src.index('                for bn_dict in basin_list:\n'
                  '                    if bn_dict.get("basin_type")')
    b = src.index("    def tsv(self, path, features, meta_data=None")
    loop = src[a:b].rstrip("\n") + "\n"
    body = "".join(ln[12:] if ln.strip() else ln
                   for ln in loop.splitlines(True))
    body = body.replace("filter_arr", "filtarr").replace(
        "hw.store_basin", "rtdc_writer.store_basin")
    src = src[:a] + ("                store_filtered_basins(hw, basin_list, "
                     "filtered, filter_arr)\n\n") + src[b:]
    return src.replace(
        "def store_filtered_feature(rtdc_writer, feat, data, filtarr):",
        "def store_filtered_basins(rtdc_writer, basin_list, filtered, "
        "filtarr):\n" + body + "\n\n"
        "def store_filtered_feature(rtdc_writer, feat, data, filtarr):", 1)


def _twin_copy_member_partial(src):
    """recursive group copy through a functools.partial"""
    old = ("        for key in src:\n"
           "            h5ds_copy(src_loc=src,\n"
           "                      src_name=key,\n"
           "                      dst_loc=dst_rec,\n"
           "                      ensure_compression=ensure_compression,\n"
           "                      recursive=recursive)\n")
    if src.count(old) != 1 or "import functools" in src:
        return src
    src = src.replace("import json\n", "import functools\nimport json\n", 1)
    return src.replace(
        old,
        "        copy_member = functools.partial(\n"
        "            h5ds_copy, src_loc=src, dst_loc=dst_rec,\n"
        "            ensure_compression=ensure_compression, "
        "recursive=recursive)\n"
        "        for key in src:\n"
        "            copy_member(src_name=key)\n")


def _twin_init_kwargs_helper(src):
    """constructor kwargs built by a private module-level function"""
    a = src.index("            kwargs = {\n"
                  "                \"name\": bdict.get(\"name\"),\n")
    b = src.index("            # Check whether this basin is supported "
                  "and exists\n")
    src = src[:a] + (
        "            kwargs = _basin_init_kwargs(\n"
        "                bdict,\n"
        "                referrer=self,\n"
        "                measurement_identifier="
        "self.get_measurement_identifier(),\n"
        "                ignored_basins=bd_keys)\n\n") + src[b:]
    return src.replace(
        "class RTDCBase(abc.ABC):\n",
        "def _basin_init_kwargs(bdict, referrer, measurement_identifier,\n"
        "                       ignored_basins):\n"
        "    return {\n"
        "        \"name\": bdict.get(\"name\"),\n"
        "        \"description\": bdict.get(\"description\"),\n"
        "        \"features\": bdict.get(\"features\"),\n"
        "        \"mapping\": bdict.get(\"mapping\", \"same\"),\n"
        "        \"mapping_referrer\": referrer,\n"
        "        \"measurement_identifier\": measurement_identifier,\n"
        "        \"ignored_basins\": ignored_basins,\n"
        "    }\n\n\n"
        "class RTDCBase(abc.ABC):\n", 1)


def _twin_guard_clauses(src):
    """if / elif / else ladder of __getitem__ as guard clauses, branches
    swapped, inner if / else as conditional expression"""
    a = src.index("        elif not self.is_scalar:\n"
                  "            # image, mask, etc\n")
    b = src.index("    def __len__(self):\n        return len(self.basinmap)"
                  "\n\n    @property\n    def shape(self):")
    return src[:a] + (
        "        if self.is_scalar:\n"
        "            # sets the cache if not already set\n"
        "            return self.__array__()[index]\n"
        "        # image, mask, etc\n"
        "        indices = (self.basinmap\n"
        "                   if isinstance(index, slice) and "
        "index == slice(None)\n"
        "                   else self.basinmap[index])\n"
        "        out_arr = np.empty((len(indices),) + "
        "self.feat_obj.shape[1:],\n"
        "                           dtype=self.feat_obj.dtype)\n"
        "        for ii, idx in enumerate(indices):\n"
        "            out_arr[ii] = self.feat_obj[idx]\n"
        "        return out_arr\n\n") + src[b:]


def _twin_local_aliases(src):
    """self.feat_obj / self.basinmap through local aliases in __getitem__
    (bound inside the branch that uses them), named slice-all condition"""
    old = ("            if isinstance(index, slice) and index == slice(None):\n"
           "                indices = self.basinmap\n"
           "            else:\n"
           "                indices = self.basinmap[index]\n"
           "            out_arr = np.empty((len(indices),) + "
           "self.feat_obj.shape[1:],\n"
           "                               dtype=self.feat_obj.dtype)\n"
           "            for ii, idx in enumerate(indices):\n"
           "                out_arr[ii] = self.feat_obj[idx]\n")
    if src.count(old) != 1:
        return src
    return src.replace(
        old,
        "            feat_obj = self.feat_obj\n"
        "            basinmap = self.basinmap\n"
        "            take_all = isinstance(index, slice) and "
        "index == slice(None)\n"
        "            indices = basinmap if take_all else basinmap[index]\n"
        "            out_arr = np.empty((len(indices),) + "
        "feat_obj.shape[1:],\n"
        "                               dtype=feat_obj.dtype)\n"
        "            for ii, idx in enumerate(indices):\n"
        "                out_arr[ii] = feat_obj[idx]\n")


def _twin_assign_basinmap_method(src):
    """the map-name allocation of store_basin moved into a step method
    with an in-out parameter"""
    a = src.index("        # determine the basinmap to use\n"
                  "        if basin_map is not None:\n")
    b = src.index("        b_data = {\n")
    block = src[a:b]
    body = block.split("\n", 1)[1]
    src = src[:a] + (
        "        basin_map_name = self._assign_basinmap_feature(\n"
        "            basin_map=basin_map,\n"
        "            basin_map_name=basin_map_name)\n\n") + src[b:]
    return src.replace(
        "    def store_feature(self, feat, data, shape=None):",
        "    def _assign_basinmap_feature(self, basin_map, basin_map_name):\n"
        + body.rstrip("\n") + "\n        return basin_map_name\n\n"
        "    def store_feature(self, feat, data, shape=None):", 1)


def _twin_fetch_events(src):
    """both gather loops moved into one helper with positional-only
    parameters and *args / **kwargs"""
    for old, rep in (
            ("            out_arr = np.empty((len(self.basinmap),) + "
             "self.feat_obj.shape[1:],\n"
             "                               dtype=dtype or self.feat_obj.dtype,\n"
             "                               *args, **kwargs)\n"
             "            for ii, idx in enumerate(self.basinmap):\n"
             "                out_arr[ii] = self.feat_obj[idx]\n"
             "            return out_arr\n",
             "            return self._fetch_events(self.basinmap, dtype, "
             "*args, **kwargs)\n"),
            ("            out_arr = np.empty((len(indices),) + "
             "self.feat_obj.shape[1:],\n"
             "                               dtype=self.feat_obj.dtype)\n"
             "            for ii, idx in enumerate(indices):\n"
             "                out_arr[ii] = self.feat_obj[idx]\n"
             "            return out_arr\n",
             "            return self._fetch_events(indices, None)\n"),
            ("    def __len__(self):\n        return len(self.basinmap)\n\n"
             "    @property\n    def shape(self):",
             "    def _fetch_events(self, indices, dtype, /, *args, **kwargs):\n"
             "        out_arr = np.empty((len(indices),) + "
             "self.feat_obj.shape[1:],\n"
             "                           dtype=dtype or self.feat_obj.dtype,\n"
             "                           *args, **kwargs)\n"
             "        for ii, idx in enumerate(indices):\n"
             "            out_arr[ii] = self.feat_obj[idx]\n"
             "        return out_arr\n\n"
             "    def __len__(self):\n        return len(self.basinmap)\n\n"
             "    @property\n    def shape(self):")):
        if src.count(old) != 1:
            return src
        src = src.replace(old, rep)
    return src


def _twin_source_locs_helper(src):
    """location block moved into a private helper returning a tuple"""
    for who in ("ds", "ds_root"):
        blk = (f'                    basin_is_local = {who}.format == "hdf5"\n'
               f'                    basin_locs = [{who}.path]\n'
               '                    if basin_is_local:\n'
               '                        # So the user can put them into the '
               'same directory.\n'
               f'                        basin_locs.append({who}.path.name)\n')
        if src.count(blk) != 1:
            return src
        src = src.replace(
            blk, '                    basin_is_local, basin_locs = '
            f'_get_basin_source_locs(\n                        {who})\n')
    return src.replace(
        'def store_filtered_feature(rtdc_writer, feat, data, filtarr):',
        'def _get_basin_source_locs(ds_src):\n'
        '    basin_is_local = ds_src.format == "hdf5"\n'
        '    basin_locs = [ds_src.path]\n'
        '    if basin_is_local:\n'
        '        basin_locs.append(ds_src.path.name)\n'
        '    return basin_is_local, basin_locs\n\n\n'
        'def store_filtered_feature(rtdc_writer, feat, data, filtarr):', 1)


def _twin_bloc_bpath(src):
    """loop variable no longer rebound in its own body"""
    a = src.index("            for pp in basin_locs:\n"
                  "                pp = pathlib.Path(pp)\n")
    b = src.index('            b_data["paths"] = flocs\n')
    blk = src[a:b].replace(
        "            for pp in basin_locs:\n"
        "                pp = pathlib.Path(pp)\n",
        "            for bloc in basin_locs:\n"
        "                bpath = pathlib.Path(bloc)\n").replace(
        "pp.", "bpath.").replace("str(pp)", "str(bpath)").replace(
        "str(self.path.parent) + os.sep", 'f"{self.path.parent}{os.sep}"')
    return src[:a] + blk + src[b:]


def _twin_partial(src):
    """the four instantiations through one functools.partial"""
    if src.count("b_cls(") < 4 or "import functools" in src:
        return src
    src = src.replace("import abc\n", "import abc\nimport functools\n", 1)
    src = src.replace(
        "            # Check whether this basin is supported and exists\n",
        "            new_basin = functools.partial(b_cls, **kwargs)\n\n"
        "            # Check whether this basin is supported and exists\n", 1)
    for loc in ('bdict["paths"][0]', "pp", "this_path.parent / pp", "url"):
        src = src.replace(f"b_cls({loc}, **kwargs)", f"new_basin({loc})")
    return src


def _twin_origin_helper(src):
    """the two literal definitions built by one module-level helper"""
    a = src.index('                    basin_is_local = ds.format == "hdf5"\n')
    b = src.index('                elif (ds.format == "hierarchy"\n')
    src = src[:a] + (
        '                    basin_list.append(origin_basin_kwargs(\n'
        '                        ds_origin=ds,\n'
        '                        basin_name="Exported data",\n'
        '                        basin_descr=f"Exported with dclab {version}",\n'
        '                    ))\n') + src[b:]
    a = src.index('                    ds_root = ds.get_root_parent()\n')
    b = src.index('                for bn_dict in basin_list:\n'
                  '                    if bn_dict.get("basin_type")')
    src = src[:a] + (
        '                    bn_root = origin_basin_kwargs(\n'
        '                        ds_origin=ds.get_root_parent(),\n'
        '                        basin_name="Exported data (hierarchy)",\n'
        '                        basin_descr=f"Exported with dclab {version} "\n'
        '                                    f"from a hierarchy dataset",\n'
        '                    )\n'
        '                    bn_root["basin_map"] = map_indices_child2root(\n'
        '                        child=ds,\n'
        '                        child_indices=np.arange(len(ds))\n'
        '                        )\n'
        '                    basin_list.append(bn_root)\n\n') + src[b:]
    return src.replace(
        'def store_filtered_feature(rtdc_writer, feat, data, filtarr):',
        'def origin_basin_kwargs(ds_origin, basin_name, basin_descr):\n'
        '    basin_is_local = ds_origin.format == "hdf5"\n'
        '    basin_locs = [ds_origin.path]\n'
        '    if basin_is_local:\n'
        '        basin_locs.append(ds_origin.path.name)\n'
        '    return {\n'
        '        "basin_name": basin_name,\n'
        '        "basin_type": "file" if basin_is_local else "remote",\n'
        '        "basin_format": ds_origin.format,\n'
        '        "basin_locs": basin_locs,\n'
        '        "basin_descr": basin_descr,\n'
        '    }\n\n\n'
        'def store_filtered_feature(rtdc_writer, feat, data, filtarr):', 1)


TWINS = [
    ("file basins appended by a static helper with early return", CORE,
     _twin_append_verified),
    ("basin loop over a filtering generator expression", CORE,
     _TWIN_CANDIDATES),
    ("nested proxies collapsed with a locally composed map", FB,
     ("                                         basinmap=self.basinmap)\n"
      "            self._features[feat] = feat_obj\n",
      "                                         basinmap=self.basinmap)\n"
      "            if isinstance(feat_obj.feat_obj, BasinProxyFeature):\n"
      "                nested = feat_obj.feat_obj\n"
      "                feat_obj = BasinProxyFeature(\n"
      "                    feat_obj=nested.feat_obj,\n"
      "                    basinmap=nested.basinmap[self.basinmap])\n"
      "            self._features[feat] = feat_obj\n")),
    ("cached ancillary lookup behind a cheap pre-test", CORE,
     ("        data = self._get_ancillary_feature_data(feat, no_compute=True)\n"
      "        if data is not None:\n"
      "            return data\n",
      "        if feat in self._ancillaries:\n"
      "            data = self._get_ancillary_feature_data(feat, "
      "no_compute=True)\n"
      "            if data is not None:\n"
      "                return data\n")),
    ("wrapper cache as try / except KeyError", FB,
     ("        if feat not in self._features:\n"
      "            feat_obj = BasinProxyFeature(feat_obj=self.ds[feat],\n"
      "                                         basinmap=self.basinmap)\n"
      "            self._features[feat] = feat_obj\n"
      "        return self._features[feat]\n",
      "        try:\n"
      "            return self._features[feat]\n"
      "        except KeyError:\n"
      "            pass\n"
      "        feat_obj = BasinProxyFeature(feat_obj=self.ds[feat],\n"
      "                                     basinmap=self.basinmap)\n"
      "        self._features[feat] = feat_obj\n"
      "        return feat_obj\n")),
    ("basins stored by a module-level procedure", EXPORT,
     _twin_store_basins_function),
    ("group members copied through functools.partial", COPIER,
     _twin_copy_member_partial),
    ("basin constructor kwargs from a module-level helper", CORE,
     _twin_init_kwargs_helper),
    ("proxy __getitem__ as guard clauses with a conditional expression", FB,
     _twin_guard_clauses),
    ("origin and map through local aliases", FB, _twin_local_aliases),
    ("basin feature list from locals", FB,
     ("                self._features = sorted(set(self.ds.features_innate\n"
      "                                            + self.ds.features_basin))\n",
      "                own = self.ds.features_innate\n"
      "                nested = self.ds.features_basin\n"
      "                self._features = sorted(set(own) | set(nested))\n")),
    ("map-name allocation in a step method of the writer", WRITER,
     _twin_assign_basinmap_method),
    ("gather loops in a helper with positional-only parameters", FB,
     _twin_fetch_events),
    ("load_dataset with early return", FB,
     ("            ds_bn = BasinProxy(ds=ds, basinmap=self.basinmap)\n"
      "        else:\n"
      "            ds_bn = ds\n"
      "        return ds_bn\n",
      "            return BasinProxy(ds=ds, basinmap=self.basinmap)\n"
      "        return ds\n")),
    ("basin locations from a helper returning a tuple", EXPORT,
     _twin_source_locs_helper),
    ("file locations loop without rebinding the loop variable", WRITER,
     _twin_bloc_bpath),
    ("basins instantiated through functools.partial", CORE, _twin_partial),
    ("definitions of the exported dataset built by a helper", EXPORT,
     _twin_origin_helper),
    ("map name search with early continue", WRITER,
     ('                    if bm_cand in self.h5file["events"]:\n',
      '                    known_maps = self.h5file["events"]\n'
      '                    if bm_cand in known_maps:\n')),
    ("basin_map tuple expanded by a conditional expression", WRITER,
     ("        if isinstance(basin_map, (list, tuple)) and len(basin_map) == 2:\n"
      "            basin_map_name, basin_map = basin_map\n"
      "        else:\n"
      "            basin_map_name = None\n",
      "        basin_map_name, basin_map = (\n"
      "            basin_map\n"
      "            if isinstance(basin_map, (list, tuple)) and len(basin_map) == 2\n"
      "            else (None, basin_map))\n")),
    ("lookup with assignment expressions", CORE,
     [("        elif feat in self._usertemp:\n",
       "        if feat in self._usertemp:\n"),
      ("        data = self._get_ancillary_feature_data(feat, no_compute=True)\n"
       "        if data is not None:\n",
       "        if (data := self._get_ancillary_feature_data(\n"
       "                feat, no_compute=True)) is not None:\n"),
      ("            data = self._get_basin_feature_data(feat, basin_type=basin_type)\n"
       "            if data is not None:\n",
       "            if (data := self._get_basin_feature_data(\n"
       "                    feat, basin_type=basin_type)) is not None:\n"),
      ("        data = self._get_ancillary_feature_data(feat)\n"
       "        if data is not None:\n",
       "        if (data := self._get_ancillary_feature_data(feat)) "
       "is not None:\n")]),
    ("definition completeness compared as sets", COPIER,
     [('feat_used = [f for f in bn["features"] if f in features_iter]',
       'feat_used = [f for f in features_iter if f in bn["features"]]'),
      ('            elif feat_used != bn["features"]:\n'
       '                bn["features"] = feat_used\n',
       '            elif set(feat_used) != set(bn["features"]):\n'
       '                bn["features"] = [f for f in bn["features"]\n'
       '                                  if f in feat_used]\n')]),
    ("rewritten definition keyed through an assignment expression", COPIER,
     [("            if len(feat_used) == 0:\n",
       "            if not feat_used:\n"),
      ("            b_lines = json.dumps(bn, indent=2).split(\"\\n\")\n"
       "            key = hashobj(b_lines)\n"
       "            if key not in dst_h5file[\"basins\"]:\n",
       "            bn_json = json.dumps(bn, indent=2)\n"
       "            b_lines = bn_json.split(\"\\n\")\n"
       "            if (key := hashobj(b_lines)) not in dst_h5file[\"basins\"]:\n")]),

    ("lookup as separate ifs", CORE,
     ("        elif feat in self._usertemp:\n",
      "        if feat in self._usertemp:\n")),
    ("local rename in the proxy", FB,
     lambda s: s.replace("indices", "sel")),
    ("flatnonzero instead of where", EXPORT,
     ('bn_dict["basin_map"] = np.where(filter_arr)[0]',
      'bn_dict["basin_map"] = np.flatnonzero(filter_arr)')),
    ("composition as nested ifs", EXPORT,
     ("                    if not filtered:\n"
      "                        # filtering disabled: just copy basins\n"
      "                        pass\n"
      "                    elif basinmap_orig is None:\n"
      "                        # basins with \"same\" mapping: create new mapping\n"
      "                        bn_dict[\"basin_map\"] = np.where(filter_arr)[0]\n"
      "                    else:\n"
      "                        # mapped basins: correct nested mapping\n"
      "                        bn_dict[\"basin_map\"] = basinmap_orig[filter_arr]\n",
      "                    if filtered:\n"
      "                        if basinmap_orig is None:\n"
      "                            bn_dict[\"basin_map\"] = np.where(filter_arr)[0]\n"
      "                        else:\n"
      "                            bn_dict[\"basin_map\"] = \\\n"
      "                                basinmap_orig[filter_arr]\n")),
    ("array_equal for the candidate map", WRITER,
     ('if np.all(self.h5file["events"][bm_cand] == basin_map):',
      'if np.array_equal(self.h5file["events"][bm_cand], basin_map):')),
    ("copier loop variable renamed", COPIER,
     lambda s: s.replace("l_key", "log_key")),
    ("basin types from a tuple", CORE,
     ('for basin_type in ["internal", "file", None]:',
      'for basin_type in ("internal", "file", "remote", None):')),
    ("basin types ranked by precedence", CORE,
     ('for basin_type in ["internal", "file", None]:',
      'for basin_type in sorted({bn.basin_type for bn in self.basins},\n'
      '                                 key=["internal", "file", '
      '"remote"].index):')),
    ("single request without type preference", CORE,
     ('for basin_type in ["internal", "file", None]:',
      "for basin_type in [None]:")),
    ("scalar cache restructured, dtype applied on the way out", FB,
     ("        if self._cache is None and self.is_scalar:\n"
      "            self._cache = self.feat_obj[:][self.basinmap]\n"
      "        else:\n",
      "        if self.is_scalar:\n"
      "            if self._cache is None:\n"
      "                self._cache = np.asarray(\n"
      "                    self.feat_obj[:][self.basinmap])\n"
      "            return np.array(self._cache, dtype=dtype, copy=copy)\n"
      "        else:\n")),
    ("type filter through a local, operands mirrored", CORE,
     ("                if basin_type is not None and basin_type != bn.basin_type:\n",
      "                type_requested = basin_type is not None\n"
      "                if type_requested and bn.basin_type != basin_type:\n")),
    ("filter array bound by a conditional expression", EXPORT,
     ("        if filtered:\n            filter_arr = ds.filter.all\n"
      "        else:\n            filter_arr = None\n",
      "        filter_arr = ds.filter.all if filtered else None\n")),
    ("gather loop extracted into a helper method", FB,
     [("            out_arr = np.empty((len(indices),) + self.feat_obj.shape[1:],\n"
       "                               dtype=self.feat_obj.dtype)\n"
       "            for ii, idx in enumerate(indices):\n"
       "                out_arr[ii] = self.feat_obj[idx]\n"
       "            return out_arr\n",
       "            return self._gather_events(indices)\n"),
      ("    def __len__(self):\n        return len(self.basinmap)\n\n"
       "    @property\n    def shape(self):",
       "    def _gather_events(self, indices):\n"
       "        out_arr = np.empty((len(indices),) + self.feat_obj.shape[1:],\n"
       "                           dtype=self.feat_obj.dtype)\n"
       "        for ii, idx in enumerate(indices):\n"
       "            out_arr[ii] = self.feat_obj[idx]\n"
       "        return out_arr\n\n"
       "    def __len__(self):\n        return len(self.basinmap)\n\n"
       "    @property\n    def shape(self):")]),
    ("hierarchy re-mapping through a local", EXPORT,
     ('                        if bn_dict["basin_map"] is None:\n'
      '                            bn_dict["basin_map"] = root_map\n'
      '                        else:\n'
      '                            bn_dict["basin_map"] = \\\n'
      '                                bn_dict["basin_map"][root_map]\n',
      '                        map_root = bn_dict["basin_map"]\n'
      '                        if map_root is None:\n'
      '                            bn_dict["basin_map"] = root_map\n'
      '                        else:\n'
      '                            bn_dict["basin_map"] = map_root[root_map]\n')),
    ("export loop locals renamed", EXPORT,
     lambda s: s.replace("bn_dict", "basin_kwargs").replace(
         "basinmap_orig", "map_upstream")),
    ("upstream map used without a local", EXPORT,
     lambda s: s.replace(
         '                    basinmap_orig = bn_dict.get("basin_map")\n',
         "").replace("basinmap_orig", 'bn_dict["basin_map"]')),
    ("ChildScalar.shape from the child", HIEV,
     ("        return len(self),\n", "        return (len(self.child),)\n")),
    ("H5MaskEvent.shape built from len(self)", H5EV,
     ("        return self.h5dataset.shape\n\n\nclass H5ScalarEvent",
      "        return (len(self),) + self.h5dataset.shape[1:]\n\n\n"
      "class H5ScalarEvent")),
]

# mutants that re-introduce the repaired defects (apply to the fixed tree)
MUTANTS = list(MUTANTS) + [
    ("proxy shape forwarded to the origin (F07b returns)",
     "dclab/rtdc_dataset/feat_basin.py",
     ("return (len(self.basinmap),) + tuple(self.feat_obj.shape[1:])",
      "return tuple(self.feat_obj.shape)"), "R7.6"),
    ("hierarchy basins not re-mapped on export (F07c returns)",
     "dclab/rtdc_dataset/export.py",
     ('                if ds.format == "hierarchy":\n'
      '                    # avoid circular imports',
      '                if False:\n'
      '                    # avoid circular imports'), "R7.3"),
]
