"""C04 – a hierarchy child is exactly the filtered view of its parent.

Two kinds of rules.  *Structural* rules (R4.1, R4.2, R4.5a) decide ordering
and reset obligations on the control-flow graph of ``RTDC_Hierarchy``.
*Finite-model* rules (R4.3 … R4.7, R4.5b) evaluate the syntax of the small,
pure index functions (``mapper.py``, ``HierarchyFilter``, the ``Child*``
accessors, ``set_temporary_feature``) with the analyser's own interpreter
(:mod:`sa.lib_C04`) on **every** hierarchy of a small size and compare the
result with the specification (a root-index set model).

R4.1 refresh order in ``RTDC_Hierarchy.apply_filter``: retrieve manual
     indices ≺ parent refresh ≺ cache invalidation ≺ re-population / config
     update ≺ filter re-creation ≺ filter update; all on every path.
R4.2 reset-set ⊇ memo-set: every lazily memoised attribute of
     ``RTDC_Hierarchy`` is reset on refresh (or is a parent pass-through
     listed in EXEMPT); every ``Child*`` object (which memoises data) lives
     only in ``_events`` (dropped by the cache clear); memo state inherited
     from ``RTDCBase`` is unreachable in the child.
R4.3 every data-returning accessor of the ``Child*`` classes returns the
     parent's data at the mapped positions – all parent filters of size ≤ 4,
     nesting depth 1 and 2.
R4.4 the four ``map_indices_*`` functions equal their specification on all
     hierarchies of depth 1..3 over a root of 3 (thorough: 4) events.
R4.5 (a) ``_check_parent_filter`` hands the manual indices over the
     re-creation of the filter (retrieve ≺ reset ≺ re-create ≺ apply, same
     value); (b) ``set_temporary_feature`` on a child places the data at the
     child's root positions (NaN elsewhere) and ends in ``rejuvenate()``.
R4.6 the parent-change witness of ``HierarchyFilter`` is true whenever the
     child's underlying root events changed (any ancestor), false right
     after ``update_parent`` – all pairs of hierarchy states, depth 1..2
     (thorough: ..3).
R4.7 ``retrieve_manual_indices`` returns (visible exclusions) ∪ (stored
     ∖ visible) and ``apply_manual_indices`` marks exactly the visible ones
     – over all filters, manual arrays and stored id sets of a 3-event root.
R4.8 refresh histories on root > A > B (apply_filter, _check_parent_filter,
     set_temporary_feature, reset_filter interpreted): each child excludes
     exactly its manually excluded root events after every refresh; a
     reset_filter of a child ends its exclusions (visible and hidden) for good.
R4.9 ``apply_filter`` evaluated for every content of the parent (each subset
     of FLUOR_TRACES, each subset of image / image_bg / mask / contour): the
     child's trace container has exactly the parent's trace names, each
     wrapper is bound to this child and its feature – a missing item is
     skipped, it never ends the loop for the remaining items.
"""
from __future__ import annotations

import ast
import itertools
import math

from ..cfg import CFG
from ..core import (AnalysisError, call_name, find_calls, is_self_attr,
                    last_attr, names_in, short, stmts_of, txt, walk)
from .. import lib_C04 as L
from ..normalize import expand_ref_locals

ASSUMPTIONS = [
    "NOT decided: the behaviour over arbitrary interleavings (histories) of "
    "filter edits, manual exclusions and refreshes; decided are the single "
    "steps (index maps, retrieve / apply of manual indices, the staleness "
    "witness, refresh order) – each on every hierarchy over a root of 3-4 "
    "events and depth <= 3 (small-scope evaluation of the syntax).",
    "NOT decided: an exclusion that the user takes back while it is the only "
    "one (manual all True) is remembered by design (see "
    "retrieve_manual_indices); the feature 'index' of a child is re-numbered "
    "by design; Filter.update (box/polygon caches of the child) belongs to "
    "C03.",
    "The finite-model rules interpret the syntax with the analyser's model of "
    "numpy (list-backed arrays: np.where, np.isin, fancy/boolean indexing) "
    "and an injective model of util.hashobj.",
    "Child* properties `shape` and `dtype` are not evaluated.",
]

BASE = "dclab/rtdc_dataset/fmt_hierarchy/base.py"
HFILT = "dclab/rtdc_dataset/fmt_hierarchy/hfilter.py"
MAPPER = "dclab/rtdc_dataset/fmt_hierarchy/mapper.py"
EVENTS = "dclab/rtdc_dataset/fmt_hierarchy/events.py"
FTEMP = "dclab/rtdc_dataset/feat_temp.py"
CORE = "dclab/rtdc_dataset/core.py"

#: memoised attributes that need no reset, with the reason
EXEMPT = {
    "_logs": "pass-through of hparent.logs (independent of any filter)",
    "_tables": "pass-through of hparent.tables (independent of any filter)",
}
#: memo state of RTDCBase that does not derive from events or filters
BASE_EXEMPT = {
    "_basins": "basin list, independent of filters (child returns the "
               "parent's)",
    "_basins_features": "basin feature names, independent of filters",
}


# ======================================================================
# model datasets (specification side)

class MFilter:
    _strict_attrs = True

    def __init__(self, mask, owner=None):
        self.all = L.Arr(mask)
        self.manual = L.Arr([True] * len(mask))
        if owner is not None and not owner.is_root():
            # a hierarchy member whose own filter is in sync with its parent
            self.parent_changed = False

    def set_all(self, mask):
        """in-place update, as Filter.update does (same object, new
        content)"""
        self.all = L.Arr(mask)
        self.manual = L.Arr([True] * len(mask))


class MDS:
    """model dataset: a root with `n` events or the child of `hparent`;
    the specification of its content is computed here from root indices"""
    _strict_attrs = True

    def __init__(self, n=None, hparent=None, mask=None, log=None):
        self._n = n
        if hparent is not None:
            self.hparent = hparent
            self.format = "hierarchy"
        else:
            self.format = "dict"
        self.identifier = f"mm-{self.format}"
        self.features_scalar = ["deform"]
        self._usertemp = {}
        self._log = log if log is not None else []
        size = len(self.ids())
        self.filter = MFilter(mask if mask is not None else [True] * size,
                              self)
        self.config = {"filtering": {"polygon filters": []}}

    def is_root(self):
        return self.format != "hierarchy"

    def ids(self):
        """root indices of the events of this dataset (specification)"""
        if self.is_root():
            return list(range(self._n))
        p = self.hparent
        return [i for i, m in zip(p.ids(), p.mask()) if m]

    def mask(self):
        f = self.filter
        a = f._attrs["all"] if isinstance(f, L.AstObject) else f.all
        return list(a.data)

    def __len__(self):
        return len(self.ids())

    def __contains__(self, feat):
        return True

    def __getitem__(self, feat):
        if feat == "trace":
            return {fl: L.Arr([("trace", fl, i) for i in self.ids()])
                    for fl in ("fl1_raw", "fl2_raw")}
        if feat in self._usertemp:
            return self._usertemp[feat]
        return L.Arr([(feat, i) for i in self.ids()])

    def get_root_parent(self):
        d = self
        while not d.is_root():
            d = d.hparent
        return d

    def rejuvenate(self):
        self._log.append(("rejuvenate", id(self)))

    def apply_filter(self, *a, **k):
        self._log.append(("apply_filter", id(self)))


def chains(n, depth):
    """all hierarchies root(n) -> d1 -> ... -> d<depth>: yields the list
    [root, d1, ..., d<depth>] for every combination of filters of the
    ancestors (the youngest member's own filter is irrelevant)"""
    def rec(lst, k):
        if k == depth:
            yield lst
            return
        par = lst[-1]
        size = len(par)
        for mask in itertools.product([False, True], repeat=size):
            par.filter = MFilter(list(mask), par)
            child = MDS(hparent=par)
            yield from rec(lst + [child], k + 1)
    root = MDS(n=n)
    yield from rec([root], 0)


def freeze(x):
    if isinstance(x, L.Arr):
        return ("arr",) + tuple(freeze(v) for v in x.data)
    if isinstance(x, (list, tuple)):
        return tuple(freeze(v) for v in x)
    if isinstance(x, dict):
        return tuple(sorted((freeze(k), freeze(v)) for k, v in x.items()))
    if isinstance(x, (int, float, str, bool, type(None))):
        return x
    if isinstance(x, MDS):
        return ("ds", id(x))
    raise AnalysisError(f"hashobj model: cannot hash {type(x).__name__}")


def model_hashobj(obj):
    """injective model of util.hashobj"""
    return ("H", freeze(obj))


def aslist(v, what):
    if isinstance(v, L.Arr):
        return list(v.data)
    if isinstance(v, (list, tuple)):
        return list(v)
    raise L.ModelFault("TypeError", f"{what} is a {type(v).__name__}, "
                       f"expected an index array")


# ======================================================================
# environments

def make_envs(repo):
    it = L.Interp(repo)
    np_ = L.NPModel()
    warnings_ = L.namespace("warnings", warn=lambda *a, **k: None)
    menv = it.env(MAPPER, {"np": np_})

    def mapper_imports(rel):
        out = {}
        for st in repo.tree(rel).body:
            if isinstance(st, ast.ImportFrom) and (st.module or "").split(
                    ".")[-1] in ("mapper", "fmt_hierarchy"):
                for a in st.names:
                    if a.name.startswith("map_indices_"):
                        out[a.asname or a.name] = menv.lookup(a.name)
        return out

    def filter_init(obj, rtdc_ds):
        L.store_attr(it, obj, "size", len(rtdc_ds), None)
        L.lookup_attr(it, obj, "reset", None)()

    def filter_reset(obj):
        size = L.lookup_attr(it, obj, "size", None)
        L.store_attr(it, obj, "manual", L.Arr([True] * size), None)

    filt = L.PyBase("Filter", {"__init__": filter_init,
                               "reset": filter_reset})
    hext = {"np": np_, "hashobj": model_hashobj, "Filter": filt}
    hext.update(mapper_imports(HFILT))
    henv = it.env(HFILT, hext)
    eext = {"np": np_, "warnings": warnings_, "copy_if_needed": None,
            "collections": L.Opaque("collections")}
    eext.update(mapper_imports(EVENTS))
    eenv = it.env(EVENTS, eext)
    is_h = L.ModelType("RTDC_Hierarchy", lambda o: isinstance(o, MDS)
                       and not o.is_root())
    is_b = L.ModelType("RTDCBase", lambda o: isinstance(o, MDS))
    text = {"np": np_, "RTDC_Hierarchy": is_h, "RTDCBase": is_b,
            "feat_logic": L.namespace(
                "feat_logic", feature_exists=lambda f: True,
                check_feature_shape=lambda f, d: None)}
    text.update(mapper_imports(FTEMP))
    tenv = it.env(FTEMP, text)
    return it, menv, henv, eenv, tenv


# ======================================================================
# R4.8 refresh histories: RTDC_Hierarchy.apply_filter / _check_parent_filter
# / set_temporary_feature interpreted on a root -> A -> B hierarchy

class HRootFilter:
    _strict_attrs = True

    def __init__(self, n):
        self.manual = L.Arr([True] * n)
        self.all = L.Arr([True] * n)


class HRoot:
    """model root dataset; `box` = root events its own filter settings
    exclude (takes effect with apply_filter, like a changed min/max)"""
    _strict_attrs = True

    def __init__(self, n):
        self.n = n
        self.format = "dict"
        self.identifier = "mm-root"
        self.title = "root"
        self.path = "none"
        self.config = {"experiment": {}, "calculation": {},
                       "filtering": {"polygon filters": []}}
        self._usertemp = {}
        self.features_scalar = ["deform"]
        self.box = set()
        self.filter = HRootFilter(n)
        self.hash = "roothash"
        self.applied = 0

    def __len__(self):
        return self.n

    def __contains__(self, feat):
        return feat in ("deform",) or feat in self._usertemp

    def __getitem__(self, feat):
        if feat in self._usertemp:
            return self._usertemp[feat]
        return L.Arr([("deform", i) for i in range(self.n)])

    def apply_filter(self, *a, **k):
        self.applied += 1
        self.filter.all = L.Arr([m and i not in self.box for i, m in
                                 enumerate(self.filter.manual.data)])


def history_envs(repo, base_ext=None):
    """`base_ext(names)` -> overrides for the externals of base.py (names =
    what base.py imports from events.py)"""
    it = L.Interp(repo)
    np_ = L.NPModel()
    menv = it.env(MAPPER, {"np": np_})

    def imports(rel):
        out = {}
        for st in repo.tree(rel).body:
            if isinstance(st, ast.ImportFrom):
                for a in st.names:
                    if a.name.startswith("map_indices_"):
                        out[a.asname or a.name] = menv.lookup(a.name)
        return out

    def flt_of(ds):
        if isinstance(ds, HRoot):
            return ds.filter
        return ds._attrs["_ds_filter"]

    def all_of(ds):
        f = flt_of(ds)
        a = f.all if isinstance(ds, HRoot) else f._attrs["all"]
        return list(a.data)

    def spec_ids(ds):
        if isinstance(ds, HRoot):
            return list(range(ds.n))
        par = ds._attrs["hparent"]
        return [i for i, m in zip(spec_ids(par), all_of(par)) if m]

    def filter_init(obj, rtdc_ds):
        size = L._py_len(rtdc_ds)
        L.store_attr(it, obj, "size", size, None)
        L.store_attr(it, obj, "all", L.Arr([True] * size), None)
        L.lookup_attr(it, obj, "reset", None)()

    def filter_reset(obj):
        size = L.lookup_attr(it, obj, "size", None)
        L.store_attr(it, obj, "manual", L.Arr([True] * size), None)

    def filter_update(obj, rtdc_ds, force=None):
        size = L.lookup_attr(it, obj, "size", None)
        if L._py_len(rtdc_ds) != size:
            raise L.ModelFault("ValueError", "Change of RTDCBase size not "
                               "supported!")
        ids = spec_ids(rtdc_ds)
        box = rtdc_ds._attrs["box_excl"]
        man = L.lookup_attr(it, obj, "manual", None)
        if len(man.data) != len(ids):
            raise L.ModelFault("ValueError", "manual filter array of size "
                               f"{len(man.data)} for {len(ids)} events")
        L.store_attr(it, obj, "all", L.Arr(
            [bool(m) and i not in box for i, m in zip(ids, man.data)]), None)

    filt = L.PyBase("Filter", {"__init__": filter_init,
                               "reset": filter_reset,
                               "update": filter_update})
    quiet = {"logging": L.Opaque("logging"), "warnings": L.namespace(
        "warnings", warn=lambda *a, **k: None), "__name__": "dclab"}
    hext = {"np": np_, "hashobj": model_hashobj, "Filter": filt, **quiet}
    hext.update(imports(HFILT))
    henv = it.env(HFILT, hext)

    def base_filter(obj):
        L.lookup_attr(it, obj, "_assert_filter", None)()
        return L.lookup_attr(it, obj, "_ds_filter", None)

    def base_apply(obj, force=None):
        flt = base_filter(obj)
        L.lookup_attr(it, flt, "update", None)(rtdc_ds=obj,
                                               force=force or [])

    def base_reset_filter(obj):
        # RTDCBase.reset_filter: `self.filter.reset()` (anchored in r48)
        # + default filter settings of the configuration
        L.lookup_attr(it, base_filter(obj), "reset", None)()

    rbase = L.PyBase("RTDCBase", {"filter": base_filter,
                                  "apply_filter": base_apply,
                                  "reset_filter": base_reset_filter,
                                  "__init__": lambda obj, *a, **k: None},
                     props=("filter",))
    bext = {"np": np_, "hashobj": model_hashobj, "RTDCBase": rbase,
            **quiet,
            "dfn": L.namespace("dfn", FLUOR_TRACES=[]),
            "Configuration": L.Opaque("Configuration"),
            "HierarchyFilter": henv.lookup("HierarchyFilter")}
    wrappers = {}
    for st in repo.tree(BASE).body:
        if isinstance(st, ast.ImportFrom) and (st.module or "").endswith(
                "events"):
            for a in st.names:
                wrappers[a.asname or a.name] = a.name
                bext[a.asname or a.name] = L.Opaque(a.name)
    if base_ext is not None:
        bext.update(base_ext(wrappers))
    benv = it.env(BASE, bext)
    hcls = benv.lookup("RTDC_Hierarchy")
    text = {"np": np_, "RTDC_Hierarchy": hcls, **quiet,
            "RTDCBase": L.ModelType("RTDCBase", lambda o: True),
            "feat_logic": L.namespace(
                "feat_logic", feature_exists=lambda f: True,
                check_feature_shape=lambda f, d: None)}
    text.update(imports(FTEMP))
    tenv = it.env(FTEMP, text)
    return it, hcls, tenv, spec_ids, all_of, flt_of


def r48(ctx, repo):
    node = repo.func(BASE, "RTDC_Hierarchy._check_parent_filter")
    tnode = repo.func(FTEMP, "set_temporary_feature")
    rnode = repo.func(CORE, "RTDCBase.reset_filter")
    # the model of RTDCBase.reset_filter is `self.filter.reset()`
    if not any(txt(c.func.value) in ("self.filter", "self._ds_filter")
               for c in find_calls(rnode, attr="reset")
               if isinstance(c.func, ast.Attribute)):
        raise AnalysisError("RTDCBase.reset_filter: no `self.filter.reset()` "
                            "call (filter-reset idiom not recognised)")
    it, hcls, tenv, spec_ids, all_of, flt_of = history_envs(repo)
    set_temp = tenv.lookup("set_temporary_feature")
    n = 3

    def new_child(parent, name):
        obj = L.AstObject(hcls)
        obj._attrs.update({
            "hparent": parent, "_ds_filter": None, "_events": {},
            "_length": None, "format": "hierarchy", "identifier": name,
            "title": name, "path": "none", "_usertemp": {},
            "config": {"experiment": {}, "calculation": {},
                       "filtering": {"polygon filters": []}},
            "box_excl": set()})
        L.lookup_attr(it, obj, "apply_filter", None)()
        return obj

    def run_history(ops):
        """-> None or (step description, problem)"""
        root = HRoot(n)
        a = new_child(root, "A")
        b = new_child(a, "B")
        lv = {"A": a, "B": b}
        excl = {"A": set(), "B": set()}
        done = []
        for op in ops:
            done.append(op)
            kind = op[0]
            if kind == "R":
                root.box = set(op[1])
                continue
            if kind == "m":
                d = lv[op[1]]
                ids = spec_ids(d)
                man = flt_of(d)._attrs["manual"]
                if not ids or len(man.data) != len(ids):
                    continue       # nothing visible to exclude
                man.data[0] = False
                excl[op[1]].add(ids[0])
                continue
            if kind == "Z":
                # the user resets the filter of a hierarchy child: all of
                # its manual exclusions (visible and hidden) are gone
                L.lookup_attr(it, lv[op[1]], "reset_filter", None)()
                excl[op[1]] = set()
                continue
            if kind == "X":
                # the user evaluates the root filter directly and then tries
                # to set B's exclusions: the call is refused (the child is
                # not synchronised) and must leave no trace
                before = list(all_of(root))
                root.apply_filter()
                if list(all_of(root)) == before:
                    continue      # nothing changed: the call is legitimate
                flt = flt_of(b)
                res = L.run(lambda: L.lookup_attr(
                    it, flt, "apply_manual_indices", None)(b, list(op[1])))
                if res[0] != "raise":
                    return done, ("apply_manual_indices on the "
                                  "unsynchronised child is not refused: "
                                  f"{res[0]} {res[1]}")
                continue
            if kind == "F":
                L.lookup_attr(it, b, "rejuvenate", None)()
            elif kind == "T":
                data = L.Arr([50 + k for k in range(L._py_len(b))])
                set_temp(b, "tmp", data)
            # specification after a refresh of the youngest member
            if all_of(root) != [i not in root.box for i in range(n)]:
                return done, "the root filter was not evaluated"
            for name in ("A", "B"):
                d = lv[name]
                ids = spec_ids(d)
                f = flt_of(d)
                man = list(f._attrs["manual"].data)
                if L._py_len(d) != len(ids) or len(man) != len(ids):
                    return done, (f"{name} has {L._py_len(d)} events / a "
                                  f"manual array of {len(man)}, its parent "
                                  f"selects {len(ids)}")
                want = [i not in excl[name] for i in ids]
                if man != want:
                    lost = [i for i, m, w in zip(ids, man, want) if m != w]
                    return done, (
                        f"{name}.filter.manual is {man} for the root events "
                        f"{ids}, manually excluded root events "
                        f"{sorted(excl[name])}: wrong for root event(s) "
                        f"{lost}")
                if list(f._attrs["all"].data) != want:
                    return done, f"{name}.filter.all does not follow manual"
        return None

    def fmt(ops):
        names = {"R": lambda o: f"root filter excludes {sorted(o[1])}",
                 "m": lambda o: f"{o[1]}.filter.manual[0]=False",
                 "F": lambda o: "B.rejuvenate()",
                 "Z": lambda o: f"{o[1]}.reset_filter()",
                 "X": lambda o: (f"root.apply_filter(); B.filter."
                                 f"apply_manual_indices(B, {list(o[1])}) "
                                 f"-> refused"),
                 "T": lambda o: "set_temporary_feature(B, …)"}
        return "; ".join(names[o[0]](o) for o in ops)

    R = (lambda *s: ("R", tuple(s)))
    everything = R(0, 1, 2)
    hist_f, hist_t = [], []
    for m in (("m", "B"), ("m", "A")):
        for r in ((R(0), R(1), everything) if ctx.tier == "thorough"
                  else (R(0), everything)):
            hist_f.append([m, ("F",), r, ("F",), R(), ("F",)])
            hist_f.append([m, r, ("F",), R(), ("F",)])
            hist_t.append([m, r, ("T",), R(), ("F",)])
            if ctx.tier == "thorough":
                hist_f.append([r, ("F",), m, ("F",), R(), ("F",)])
                hist_t.append([m, ("T",), r, ("F",), R(), ("F",)])
    hist_f.append([("m", "A"), ("m", "B"), ("F",), everything, ("F",), R(),
                   ("F",)])
    # a refused call in the middle of a history
    hist_f.append([("m", "B"), ("F",), R(1), ("X", (2,)), ("F",), R(),
                   ("F",)])
    hist_f.append([("m", "B"), ("F",), R(0), ("X", (1, 2)), ("F",), R(),
                   ("F",)])
    # filter reset of a child in the middle of a history
    hist_z = []
    for z in (("Z", "B"), ("Z", "A")):
        for m in (("m", "B"), ("m", "A")):
            if ctx.tier != "thorough" and m[1] != z[1]:
                continue
            for r in ((R(0), R(1), everything) if ctx.tier == "thorough"
                      else (R(0), R(1))):
                hist_z.append([m, ("F",), z, ("F",), r, ("F",), R(), ("F",)])
                hist_z.append([m, ("F",), z, r, ("F",), R(), ("F",)])
                hist_z.append([m, z, r, ("F",), R(), ("F",)])
                # reset while the exclusion is hidden
                hist_z.append([m, ("F",), r, ("F",), z, ("F",), R(), ("F",)])
                # a new exclusion after the reset
                hist_z.append([m, ("F",), z, ("F",), R(0), ("F",), R(),
                               ("F",), m, ("F",), r, ("F",), R(), ("F",)])
    if ctx.tier == "thorough":
        edits = [("m", "B"), ("m", "A"), R(0), R(1), everything, R()]
        for seq in itertools.product(edits, repeat=3):
            h = []
            for e in seq:
                h += [e, ("F",)]
            hist_f.append(h)
    for label, hists, nd in (
            ("manual exclusions survive refresh histories", hist_f, node),
            ("manual exclusions survive a temporary-feature assignment",
             hist_t, tnode),
            ("manual exclusions of a child end with its reset_filter",
             hist_z, repo.cls(HFILT, "HierarchyFilter"))):
        bad = None
        for h in hists:
            res = L.run(lambda: run_history(h))
            if res[0] != "ok":
                bad = bad or (h, f"{res[0]} {res[1]}: {res[2]}")
            elif res[1] is not None:
                bad = bad or res[1]
            if bad:
                break
        ctx.ob("R4.8", bad is None,
               f"after every refresh of the youngest member each child "
               f"excludes exactly its manually excluded root events, also "
               f"when they were hidden or the child was empty in between "
               f"({len(hists)} histories on root(3) > A > B)"
               if bad is None else
               f"history [{fmt(bad[0])}]: {bad[1]}", node=nd, label=label)


# ======================================================================
# R4.9 re-population of the child's feature cache, evaluated for every
# content of the parent (which image-like features, which trace names)

DEFN = "dclab/definitions/feat_const.py"


class MWrap:
    """model of a Child* wrapper object: remembers class and arguments"""
    _strict_attrs = True

    def __init__(self, cname, args, kwargs):
        self.cname = cname
        self.args = tuple(args) + tuple(v for _, v in sorted(kwargs.items()))

    def __repr__(self):
        return f"{self.cname}{self.args[1:]}"


class MTraceDict(dict):
    """model of events.ChildTrace (a UserDict)"""


class CRoot(HRoot):
    """model root with a chosen set of non-scalar features / trace names"""
    _strict_attrs = True

    def __init__(self, n, content, traces):
        super().__init__(n)
        self.content = set(content) | ({"trace"} if traces else set())
        self.traces = {fl: L.Arr([("trace", fl, i) for i in range(n)])
                       for fl in traces}

    def __contains__(self, feat):
        return feat in self.content or super().__contains__(feat)

    def __getitem__(self, feat):
        if feat == "trace" and self.traces:
            return self.traces
        if feat in self.content:
            return L.Arr([(feat, i) for i in range(self.n)])
        return super().__getitem__(feat)


def r49(ctx, repo):
    node = repo.func(BASE, "RTDC_Hierarchy.apply_filter")
    tab = repo.module_assign(DEFN, "FLUOR_TRACES")
    if not (isinstance(tab, (ast.List, ast.Tuple)) and tab.elts and all(
            isinstance(e, ast.Constant) and isinstance(e.value, str)
            for e in tab.elts)):
        raise AnalysisError("definitions.FLUOR_TRACES is not a literal list "
                            "of names")
    flnames = [e.value for e in tab.elts]
    ndfeats = ("image", "image_bg", "mask", "contour")
    roles = {"ChildNDArray": "nd", "ChildContour": "contour",
             "ChildTrace": "tracedict", "ChildTraceItem": "traceitem"}

    def base_ext(imported):
        out = {"dfn": L.namespace("dfn", FLUOR_TRACES=list(flnames))}
        seen = set()
        for local, orig in imported.items():
            if orig not in roles:
                continue
            seen.add(orig)
            if roles[orig] == "tracedict":
                out[local] = MTraceDict
            else:
                out[local] = (lambda o: lambda *a, **k: MWrap(o, a, k))(orig)
        if seen != set(roles):
            raise AnalysisError(
                "base.py does not import the wrapper classes "
                f"{sorted(set(roles) - seen)} from events.py (re-population "
                "idiom not recognised)")
        return out

    it, hcls, tenv, spec_ids, all_of, flt_of = history_envs(repo, base_ext)

    def new_child(parent, name):
        obj = L.AstObject(hcls)
        obj._attrs.update({
            "hparent": parent, "_ds_filter": None, "_events": {},
            "_length": None, "format": "hierarchy", "identifier": name,
            "title": name, "path": "none", "_usertemp": {},
            "config": {"experiment": {}, "calculation": {},
                       "filtering": {"polygon filters": []}},
            "box_excl": set()})
        L.lookup_attr(it, obj, "apply_filter", None)()
        return obj

    def bound(w, cname, child, *rest):
        return (isinstance(w, MWrap) and w.cname == cname and w.args
                and w.args[0] is child and tuple(w.args[1:]) == rest)

    def evaluate(content, traces):
        """-> None or problem text"""
        root = CRoot(2, content, traces)
        a = new_child(root, "A")
        b = new_child(a, "B")
        L.lookup_attr(it, b, "rejuvenate", None)()
        for name, d in (("A", a), ("B", b)):
            ev = d._attrs["_events"]
            if not isinstance(ev, dict):
                raise AnalysisError("the child's feature cache `_events` is "
                                    "not a dict in the model")
            # wrappers that exist are bound to this child and their feature,
            # and exist only for features of the parent
            for feat in ndfeats:
                if feat not in ev:
                    continue
                if feat not in content:
                    return (f"{name} caches a wrapper for '{feat}', which "
                            f"its parent does not have")
                cname = "ChildContour" if feat == "contour" else "ChildNDArray"
                rest = () if feat == "contour" else (feat,)
                if not bound(ev[feat], cname, d, *rest):
                    return (f"{name}._events['{feat}'] is {ev[feat]!r}, "
                            f"expected {cname} of this child"
                            + (f" and '{feat}'" if rest else ""))
            if "contour" in content and "contour" not in ev:
                return (f"{name} has no contour wrapper although its parent "
                        f"has contours")
            # the trace container, as the user reads it
            if not traces:
                if "trace" in ev:
                    return (f"{name} caches a trace container, its parent "
                            f"has no traces")
                continue
            res = L.run(lambda: L.lookup_attr(it, d, "__getitem__", None)(
                "trace"))
            if res[0] != "ok":
                return f"{name}['trace']: {res[0]} {res[1]}: {res[2]}"
            td = res[1]
            if not isinstance(td, MTraceDict):
                return (f"{name}['trace'] is {td!r}, expected the trace "
                        f"container with the parent's trace names")
            if sorted(td) != sorted(traces):
                return (f"the parent has the traces {sorted(traces)}, "
                        f"{name}['trace'] only exposes {sorted(td)}"
                        if set(td) < set(traces) else
                        f"the parent has the traces {sorted(traces)}, "
                        f"{name}['trace'] exposes {sorted(td)}")
            for fl in traces:
                if not bound(td[fl], "ChildTraceItem", d, fl):
                    return (f"{name}['trace']['{fl}'] is {td[fl]!r}, "
                            f"expected ChildTraceItem of this child and "
                            f"'{fl}'")
        return None

    thorough = ctx.tier == "thorough"

    def subsets(names):
        for k in range(len(names) + 1):
            if thorough or k <= 2 or k == len(names):
                yield from itertools.combinations(names, k)

    for label, cases in (
            ("trace names of the parent", [((), t) for t in subsets(flnames)]),
            ("image-like features of the parent",
             [(c, t) for c in subsets(ndfeats)
              for t in (((), tuple(flnames[-1:])) if thorough else ((),))])):
        bad = None
        for content, traces in cases:
            res = L.run(lambda: evaluate(content, traces))
            if res[0] != "ok":
                bad = (content, traces, f"{res[0]} {res[1]}: {res[2]}")
            elif res[1] is not None:
                bad = (content, traces, res[1])
            if bad:
                break
        ctx.ob("R4.9", bad is None,
               f"after a refresh the child's cache holds a wrapper for every "
               f"trace name / contour of its parent and no wrapper for "
               f"anything else ({len(cases)} parent contents, root > A > B)"
               if bad is None else
               f"parent with features {sorted(bad[0])} and traces "
               f"{sorted(bad[1])}: {bad[2]}", node=node,
               label=f"re-population for all {label}")



# ======================================================================
# helper extraction: same-class method calls are inlined (two levels) so
# that the ordering rules see through `self._helper()` statements

KEEP_CALLS = {"apply_filter", "_update_config", "_check_parent_filter",
              "_assert_filter", "rejuvenate"}


def _clone(n):
    if isinstance(n, list):
        return [_clone(x) for x in n]
    if not isinstance(n, ast.AST):
        return n
    new = type(n)()
    for f in n._fields:
        setattr(new, f, _clone(getattr(n, f, None)))
    for a in n._attributes:
        if hasattr(n, a):
            setattr(new, a, getattr(n, a))
    return new


def _own_returns(stmts):
    out = []
    for st in stmts:
        for n in walk(st):
            if isinstance(n, ast.Return):
                out.append(n)
    return out


def _inline_body(target, call):
    """statements equivalent to the call `self.target(...)` or None"""
    a = target.args
    if a.vararg or a.kwarg or a.kwonlyargs or any(
            isinstance(x, ast.Starred) for x in call.args) or any(
            k.arg is None for k in call.keywords):
        return None
    params = [p.arg for p in a.args][1:]
    if len(call.args) > len(params):
        return None
    bound = {}
    for p, v in zip(params, call.args):
        bound[p] = v
    for k in call.keywords:
        if k.arg not in params or k.arg in bound:
            return None
        bound[k.arg] = k.value
    defaults = dict(zip(params[len(params) - len(a.defaults):], a.defaults))
    pre = []
    for p in params:
        v = bound.get(p, defaults.get(p))
        if v is None:
            return None
        asg = ast.Assign(targets=[ast.Name(id=p, ctx=ast.Store())],
                         value=_clone(v))
        ast.copy_location(asg, call)
        ast.fix_missing_locations(asg)
        pre.append(asg)
    body = _clone(list(target.body))
    if body and isinstance(body[0], ast.Expr) and isinstance(
            body[0].value, ast.Constant) and isinstance(
            body[0].value.value, str):
        body = body[1:]
    rets = _own_returns(body)
    if rets:
        last = body[-1] if body else None
        if len(rets) == 1 and rets[0] is last and last.value is None:
            body = body[:-1]
        else:
            return None
    if not body:
        p_ = ast.Pass()
        ast.copy_location(p_, call)
        body = [p_]
    return pre + body


def expand_self_aliases(func):
    """copy of `func` in which locals bound exactly once to an attribute
    chain of `self` (``hparent = self.hparent``, ``events = self._events``)
    are written out - also where the alias is the base of an item store or
    of a method call (those do not re-bind the name)"""
    new = _clone(func)
    cnt = {}

    def bind(t, k=1):
        if isinstance(t, ast.Name):
            cnt[t.id] = cnt.get(t.id, 0) + k
        elif isinstance(t, (ast.Tuple, ast.List)):
            for e in t.elts:
                bind(e, k)
        elif isinstance(t, ast.Starred):
            bind(t.value, k)
    for n in walk(new):
        if isinstance(n, ast.Assign):
            for t in n.targets:
                bind(t)
        elif isinstance(n, (ast.AugAssign, ast.AnnAssign, ast.For,
                            ast.NamedExpr, ast.comprehension)):
            bind(n.target, 2)
        elif isinstance(n, ast.With):
            for it_ in n.items:
                if it_.optional_vars is not None:
                    bind(it_.optional_vars, 2)
        elif isinstance(n, (ast.Global, ast.Nonlocal)):
            for nm in n.names:
                cnt[nm] = cnt.get(nm, 0) + 2
    for a in new.args.args + new.args.kwonlyargs:
        cnt[a.arg] = cnt.get(a.arg, 0) + 2

    def self_chain(e):
        while isinstance(e, ast.Attribute):
            e = e.value
        return isinstance(e, ast.Name) and e.id == "self"
    mapping, drop = {}, []
    for n in walk(new):
        if isinstance(n, ast.Assign) and len(n.targets) == 1 and isinstance(
                n.targets[0], ast.Name) and cnt.get(
                n.targets[0].id) == 1 and isinstance(
                n.value, ast.Attribute) and self_chain(n.value):
            mapping[n.targets[0].id] = n.value
            drop.append(n)
    if mapping:
        class T(ast.NodeTransformer):
            def visit_FunctionDef(self, node):
                if node is new:
                    self.generic_visit(node)
                return node

            visit_Lambda = visit_FunctionDef

            def visit_Assign(self, node):
                if any(node is d for d in drop):
                    return ast.copy_location(ast.Pass(), node)
                self.generic_visit(node)
                return node

            def visit_Name(self, node):
                if isinstance(node.ctx, ast.Load) and node.id in mapping:
                    return ast.copy_location(_clone(mapping[node.id]), node)
                return node
        new = T().visit(new)
        ast.fix_missing_locations(new)
    new.parent = getattr(func, "parent", None)
    for node in ast.walk(new):
        for child in ast.iter_child_nodes(node):
            child.parent = node
    return new


def inline_helpers(cls, func, keep=KEEP_CALLS, depth=2):
    """-> (copy of `func` with `self.<method>(…)` statements replaced by the
    method bodies, names of helper calls that could not be inlined)"""
    methods = {f.name: f for f in cls.body if isinstance(f, ast.FunctionDef)}
    opaque = []

    def helper_call(st):
        if isinstance(st, ast.Expr) and isinstance(st.value, ast.Call):
            c = st.value
            if isinstance(c.func, ast.Attribute) and is_self_attr(c.func) \
                    and c.func.attr in methods and c.func.attr not in keep \
                    and c.func.attr != func.name:
                if any(txt(d) in ("property", "staticmethod", "classmethod")
                       for d in methods[c.func.attr].decorator_list):
                    return None
                return c
        return None

    def expand(stmts, d, stack):
        out = []
        for st in stmts:
            c = helper_call(st)
            if c is not None:
                name = c.func.attr
                body = None
                if d > 0 and name not in stack:
                    body = _inline_body(methods[name], c)
                if body is not None:
                    out += expand(body, d - 1, stack + (name,))
                    continue
                opaque.append(name)
            if not isinstance(st, (ast.FunctionDef, ast.ClassDef,
                                   ast.AsyncFunctionDef)):
                for fld in ("body", "orelse", "finalbody"):
                    v = getattr(st, fld, None)
                    if isinstance(v, list) and v and isinstance(
                            v[0], ast.stmt):
                        setattr(st, fld, expand(v, d, stack))
                for h in getattr(st, "handlers", []) or []:
                    h.body = expand(h.body, d, stack)
            out.append(st)
        return out
    new = _clone(func)
    new.body = expand(new.body, depth, ())
    new.parent = getattr(func, "parent", cls)
    for node in ast.walk(new):
        for child in ast.iter_child_nodes(node):
            child.parent = node
    # local aliases of references (`hparent = self.hparent`, `events =
    # self._events`) are written out: the ordering rules name the attributes
    new = expand_self_aliases(expand_ref_locals(new))
    return new, opaque


# ======================================================================
# R4.1 / R4.5a  ordering on the CFG

def _stmts(func, pred):
    return [s for s in stmts_of(func) if not isinstance(
        s, (ast.If, ast.For, ast.While, ast.With, ast.Try)) and pred(s)]


def _has_call(st, pred):
    return any(isinstance(c, ast.Call) and pred(c) for c in walk(st))


class Order:
    def __init__(self, ctx, rule, func):
        self.ctx, self.rule, self.func = ctx, rule, func
        self.cfg = CFG(func)

    def ids(self, stmts):
        out = []
        for s in stmts:
            out += self.cfg.ids_of(s)
        return out

    def before(self, a, b, label, good, bad, avoid_edge=None):
        """every path entry -> (any statement of b) passes a statement of a"""
        if not b:
            raise AnalysisError(f"{self.func.name}: anchor for '{label}' lost")
        aid = set(self.ids(a))
        ok = bool(a) and all(self.cfg.always_before(
            i, lambda n: n.id in aid, avoid_edge=avoid_edge)
            for i in self.ids(b))
        self.ctx.ob(self.rule, ok, good if ok else bad, node=b[0], label=label)
        return ok

    def on_every_path(self, a, label, good, bad):
        aid = set(self.ids(a))
        ok = bool(a) and self.cfg.must_pass(
            lambda n: n.id in aid, avoid_edge=lambda s, lab, d: lab == "x")
        self.ctx.ob(self.rule, ok, good if ok else bad,
                    node=a[0] if a else self.func, label=label)
        return ok


def r41(ctx, repo):
    cls = repo.cls(BASE, "RTDC_Hierarchy")
    af, opaque = inline_helpers(cls, repo.func(
        BASE, "RTDC_Hierarchy.apply_filter"))
    o = Order(ctx, "R4.1", af)
    retr = _stmts(af, lambda s: _has_call(
        s, lambda c: last_attr(c) == "retrieve_manual_indices"))
    pref = _stmts(af, lambda s: _has_call(
        s, lambda c: call_name(c) == "self.hparent.apply_filter"))
    lreset = _stmts(af, lambda s: isinstance(s, ast.Assign) and any(
        is_self_attr(t, "_length") for t in s.targets)
        and isinstance(s.value, ast.Constant) and s.value.value is None)
    eclear = _stmts(af, lambda s: _has_call(
        s, lambda c: call_name(c) == "self._events.clear")
        or (isinstance(s, ast.Assign) and any(
            is_self_attr(t, "_events") for t in s.targets)))
    lenuse = _stmts(af, lambda s: _has_call(
        s, lambda c: call_name(c) == "len" and c.args
        and txt(c.args[0]) == "self"))
    estore = _stmts(af, lambda s: isinstance(s, ast.Assign) and any(
        isinstance(t, ast.Subscript) and is_self_attr(t.value, "_events")
        for t in s.targets))
    ucfg = _stmts(af, lambda s: _has_call(
        s, lambda c: call_name(c) == "self._update_config"))
    chk = _stmts(af, lambda s: _has_call(
        s, lambda c: call_name(c) == "self._check_parent_filter"))
    sup = _stmts(af, lambda s: _has_call(
        s, lambda c: last_attr(c) == "apply_filter" and isinstance(
            c.func, ast.Attribute) and isinstance(c.func.value, ast.Call)
        and call_name(c.func.value) == "super"))
    if not pref:
        raise AnalysisError("RTDC_Hierarchy.apply_filter: parent refresh "
                            "(self.hparent.apply_filter) lost")

    def no_filter_yet(s, lab, d):
        # the edge on which `self._ds_filter is None` holds: nothing to keep
        if s.kind != "test" or lab not in ("T", "F"):
            return False
        t = s.ast.test
        if isinstance(t, ast.Compare) and len(t.ops) == 1 and is_self_attr(
                t.left, "_ds_filter") and isinstance(
                t.comparators[0], ast.Constant) \
                and t.comparators[0].value is None:
            if isinstance(t.ops[0], ast.IsNot):
                return lab == "F"
            if isinstance(t.ops[0], ast.Is):
                return lab == "T"
        return False

    o.before(retr, pref, "manual indices retrieved before parent refresh",
             "the manual exclusions are translated to root indices while the "
             "index maps still describe the child",
             "the parent is refreshed before the child's manual exclusions "
             "were translated to root indices: exclusions made since the "
             "last refresh are lost or mapped through the new parent filter",
             avoid_edge=no_filter_yet)
    if (not lreset or not eclear) and opaque:
        raise AnalysisError(
            f"RTDC_Hierarchy.apply_filter: cache invalidation not found and "
            f"the helper call(s) {sorted(set(opaque))} could not be inlined")
    if not lreset or not eclear:
        ctx.ob("R4.1", False, "the refresh does not invalidate "
               + ("the cached length" if not lreset else "the cached events"),
               node=af, label="caches invalidated")
    else:
        o.before(pref, lreset, "parent refreshed before length reset",
                 "the cached length is dropped after the parent refresh",
                 "the cached length is dropped before the parent refresh (it "
                 "can be re-computed from the stale parent filter)")
        o.before(pref, eclear, "parent refreshed before event cache cleared",
                 "cached child features are dropped after the parent refresh",
                 "cached child features are dropped before the parent "
                 "refresh: features read in between are cached from the "
                 "stale parent")
        if lenuse:
            o.before(lreset, lenuse, "length reset before len(self)",
                     "the event count is recomputed from the new parent "
                     "filter", "len(self) is evaluated before the cached "
                     "length is dropped: stale event count")
        if estore:
            o.before(eclear, estore, "event cache cleared before repopulated",
                     "the cache is cleared before new entries are stored",
                     "entries are stored before the cache is cleared")
    for what, got, meth in (("config update", ucfg, "_update_config"),
                            ("parent-change test", chk,
                             "_check_parent_filter")):
        if got:
            continue
        # the helper still exists but the refresh no longer runs it
        repo.func(BASE, "RTDC_Hierarchy." + meth)
        ctx.ob("R4.1", False, f"the refresh does not call {meth}(): "
               + ("the child's filter is never re-created for a changed "
                  "parent" if meth == "_check_parent_filter" else
                  "event count and [calculation] of the child stay stale"),
               node=af, label=f"{what} on every path")
    if not sup:
        ctx.ob("R4.1", False, "the refresh does not evaluate the child's own "
               "filter (super().apply_filter)", node=af,
               label="filter update on every path")
    if not ucfg or not chk or not sup:
        return
    o.before(pref, ucfg, "parent refreshed before config update",
             "the child's event count is taken from the refreshed parent",
             "the child's configuration is updated from the stale parent")
    o.on_every_path(ucfg, "config update on every path",
                    "every refresh updates the child's configuration",
                    "a path through the refresh skips the config update")
    if lreset:
        o.before(lreset, chk, "length reset before filter re-creation",
                 "the new filter is sized with the new event count",
                 "the filter is re-created before the cached length is "
                 "dropped: filter arrays have the old size")
    o.before(pref, chk, "parent refreshed before filter re-creation",
             "the parent-change test sees the refreshed parent",
             "the parent-change test runs before the parent is refreshed")
    o.before(chk, sup, "filter re-creation before filter update",
             "the child's filter is re-created before it is evaluated",
             "the child's filter is evaluated before it is re-created for "
             "the changed parent")
    o.on_every_path(sup, "filter update on every path",
                    "every refresh evaluates the child's own filter",
                    "a path through the refresh skips the child's filter "
                    "update")
    o.on_every_path(chk, "parent-change test on every path",
                    "every refresh tests whether the parent changed",
                    "a path through the refresh skips the parent-change "
                    "test")
    # every parameter of apply_filter (`force`: features whose ranges must
    # be re-evaluated because their data changed) reaches the parent refresh
    # AND the evaluation of the child's own filter
    a_ = af.args
    plain = [x.arg for x in a_.args[1:] + a_.kwonlyargs]

    def forwards(call):
        miss = []
        used = set()
        for x in list(call.args) + [k.value for k in call.keywords]:
            used |= names_in(x)
        if a_.vararg and not any(isinstance(x, ast.Starred) and names_in(
                x) == {a_.vararg.arg} for x in call.args):
            miss.append("*" + a_.vararg.arg)
        if a_.kwarg and not any(k.arg is None and names_in(k.value) == {
                a_.kwarg.arg} for k in call.keywords):
            miss.append("**" + a_.kwarg.arg)
        miss += [p_ for p_ in plain if p_ not in used]
        return miss
    for what, stmts, pred in (
            ("the parent refresh", pref,
             lambda c: call_name(c) == "self.hparent.apply_filter"),
            ("the child's own filter update", sup,
             lambda c: last_attr(c) == "apply_filter" and isinstance(
                 c.func, ast.Attribute) and isinstance(
                 c.func.value, ast.Call) and call_name(c.func.value)
             == "super")):
        calls = [c for st in stmts for c in walk(st)
                 if isinstance(c, ast.Call) and pred(c)]
        miss = sorted({m for c in calls for m in forwards(c)})
        ctx.ob("R4.1", bool(calls) and not miss,
               f"all arguments of apply_filter are passed on to {what}"
               if calls and not miss else
               f"{what} does not receive {miss} of apply_filter: "
               f"`force=[feature]` (re-evaluate a range after the feature "
               f"data changed) has no effect at that level, the stale box "
               f"filter keeps selecting the child's events",
               node=(calls or [af])[0],
               label=f"arguments forwarded to {what}")
    rj = repo.func(BASE, "RTDC_Hierarchy.rejuvenate")
    ok = any(call_name(c) == "self.apply_filter" for c in find_calls(
        rj, attr="apply_filter"))
    ctx.ob("R4.1", ok, "rejuvenate() runs the refresh" if ok else
           "rejuvenate() no longer runs apply_filter()", node=rj,
           label="rejuvenate refreshes")


def r45a(ctx, repo):
    cp, _opaque = inline_helpers(
        repo.cls(BASE, "RTDC_Hierarchy"),
        repo.func(BASE, "RTDC_Hierarchy._check_parent_filter"))
    o = Order(ctx, "R4.5", cp)
    retr = _stmts(cp, lambda s: isinstance(s, ast.Assign) and _has_call(
        s.value, lambda c: last_attr(c) == "retrieve_manual_indices"))
    reset = _stmts(cp, lambda s: isinstance(s, ast.Assign) and any(
        is_self_attr(t, "_ds_filter") for t in s.targets))
    recr = _stmts(cp, lambda s: _has_call(
        s, lambda c: call_name(c) == "self._assert_filter"))
    appl = _stmts(cp, lambda s: _has_call(
        s, lambda c: last_attr(c) == "apply_manual_indices"))
    if not reset:
        raise AnalysisError("_check_parent_filter: filter reset lost")
    if not appl or not retr:
        ctx.ob("R4.5", False, "the manual indices are not "
               + ("re-applied to" if retr else "retrieved before")
               + " the re-created filter: manual exclusions are lost when "
               "the parent changes", node=cp,
               label="manual indices handed over")
        return
    o.before(retr, reset, "retrieve before filter reset",
             "manual indices are read from the old filter",
             "the filter is dropped before its manual indices were read")
    # the filter is re-created before the indices are applied: explicit
    # _assert_filter() or the `filter` property (which asserts)
    via_prop = all("self.filter" in txt(s) for s in appl)
    if recr:
        o.before(reset, recr, "reset before re-creation",
                 "the filter is re-created after the reset",
                 "the filter is re-created before the reset")
    elif not via_prop:
        ctx.ob("R4.5", False, "the filter is not re-created before the "
               "manual indices are applied", node=cp,
               label="reset before re-creation")
    o.before(reset, appl, "apply after filter reset",
             "manual indices are written to the new filter",
             "manual indices are applied to the old filter, then dropped")
    # same value
    names = set()
    for s in retr:
        for t in s.targets:
            names |= names_in(t)
    ok = True
    for s in appl:
        for c in walk(s):
            if isinstance(c, ast.Call) and last_attr(c) \
                    == "apply_manual_indices":
                args = list(c.args) + [k.value for k in c.keywords]
                if not any(names_in(a) & names for a in args):
                    ok = False
    ctx.ob("R4.5", ok, "the retrieved indices are the ones applied" if ok
           else "apply_manual_indices does not receive the retrieved "
           "indices", node=appl[0], label="handed-over value")
    # called with the dataset itself
    ok = all(any(txt(a) == "self" for a in list(c.args) + [
        k.value for k in c.keywords]) for s in retr + appl for c in walk(s)
        if isinstance(c, ast.Call) and last_attr(c) in (
            "retrieve_manual_indices", "apply_manual_indices"))
    ctx.ob("R4.5", ok, "both calls translate indices for this dataset" if ok
           else "retrieve/apply is called for another dataset", node=cp,
           label="hand-over dataset", nontrivial=False)


# ======================================================================
# R4.2 reset-set ⊇ memo-set

def memo_attrs(cls):
    """{attr: [(method, kind, value expr)]} for the memo idioms
    ``if self.X is None: self.X = v`` and ``k in self.X … self.X[k] = v``"""
    out = {}
    for fn in cls.body:
        if not isinstance(fn, ast.FunctionDef) or fn.name == "__init__":
            continue
        for n in walk(fn):
            if isinstance(n, ast.If):
                t = n.test
                if isinstance(t, ast.Compare) and len(t.ops) == 1 \
                        and isinstance(t.ops[0], ast.Is) and is_self_attr(
                        t.left) and isinstance(t.comparators[0], ast.Constant
                                               ) and t.comparators[0].value \
                        is None:
                    x = t.left.attr
                    for s in n.body:
                        for a in walk(s):
                            if isinstance(a, ast.Assign) and any(
                                    is_self_attr(tt, x) for tt in a.targets):
                                out.setdefault(x, []).append(
                                    (fn, "lazy", a.value))
        tested = set()
        for n in walk(fn):
            if isinstance(n, ast.Compare) and any(isinstance(
                    op, (ast.In, ast.NotIn)) for op in n.ops):
                for c in n.comparators:
                    if is_self_attr(c):
                        tested.add(c.attr)
            if isinstance(n, ast.Call) and last_attr(n) == "get" \
                    and isinstance(n.func, ast.Attribute) and is_self_attr(
                    n.func.value):
                tested.add(n.func.value.attr)
        for n in walk(fn):
            if isinstance(n, ast.Assign):
                for t in n.targets:
                    if isinstance(t, ast.Subscript) and is_self_attr(
                            t.value) and t.value.attr in tested:
                        out.setdefault(t.value.attr, []).append(
                            (fn, "dict", n.value))
    return out


def resets_in(func):
    """attributes of self that the function resets -> statement"""
    out = {}
    for s in stmts_of(func):
        if isinstance(s, ast.Assign):
            for t in s.targets:
                if is_self_attr(t) and (
                        (isinstance(s.value, ast.Constant)
                         and s.value.value is None)
                        or isinstance(s.value, (ast.Dict, ast.List))
                        and not (getattr(s.value, "keys", None)
                                 or getattr(s.value, "elts", None))):
                    out.setdefault(t.attr, s)
        for c in walk(s):
            if isinstance(c, ast.Call) and last_attr(c) == "clear" \
                    and isinstance(c.func, ast.Attribute) and is_self_attr(
                    c.func.value) and isinstance(s, ast.Expr):
                out.setdefault(c.func.value.attr, s)
    return out


def is_passthrough(v):
    """``self.hparent.<attr>`` – a reference to the parent's own object"""
    return (isinstance(v, ast.Attribute) and isinstance(
        v.value, ast.Attribute) and is_self_attr(v.value, "hparent")
        and v.attr != "filter")


def r42(ctx, repo):
    cls = repo.cls(BASE, "RTDC_Hierarchy")
    af, _opaque = inline_helpers(cls, repo.func(
        BASE, "RTDC_Hierarchy.apply_filter"))
    memo = memo_attrs(cls)
    if "_length" not in memo or "_events" not in memo:
        raise AnalysisError("RTDC_Hierarchy: memo idioms of _length / "
                            "_events not recognised")
    methods = {f.name: f for f in cls.body if isinstance(f, ast.FunctionDef)}
    # resets performed by apply_filter directly or in self-methods it calls
    direct = resets_in(af)
    callee = {}
    todo = [(af, 0)]
    seen = {"apply_filter"}
    while todo:
        f, d = todo.pop(0)
        for c in walk(f):
            if isinstance(c, ast.Call) and isinstance(
                    c.func, ast.Attribute) and is_self_attr(c.func) \
                    and c.func.attr in methods and c.func.attr not in seen:
                seen.add(c.func.attr)
                m = methods[c.func.attr]
                for a, s in resets_in(m).items():
                    callee.setdefault(a, (c.func.attr, s))
                if d < 3:
                    todo.append((m, d + 1))
    for x in sorted(memo):
        fn, kind, val = memo[x][0]
        if x in EXEMPT:
            ok = all(is_passthrough(v) for (_f, _k, v) in memo[x])
            ctx.ob("R4.2", ok,
                   f"`{x}` is exempt: {EXEMPT[x]}" if ok else
                   f"`{x}` is listed as a parent pass-through but caches "
                   f"`{short(val, 50)}`", node=fn,
                   key=f"{BASE}::RTDC_Hierarchy::memo {x}")
            continue
        ok = x in direct or x in callee
        where = ("apply_filter" if x in direct else
                 callee[x][0] if x in callee else None)
        ctx.ob("R4.2", ok,
               f"memoised `{x}` ({fn.name}) is reset on refresh in {where}"
               if ok else
               f"`{x}` is memoised in {fn.name}() from "
               f"`{short(val, 50)}` and never reset by the refresh: the "
               f"child keeps the value of the old parent filter",
               node=fn, key=f"{BASE}::RTDC_Hierarchy::memo {x}")
    ctx.stat("R4.2 memo attributes of RTDC_Hierarchy", sorted(memo))

    # Child* objects memoise data; they must live in self._events only
    ecls = {c.name: c for c in repo.tree(EVENTS).body
            if isinstance(c, ast.ClassDef)}
    stateful = set()
    for name, c in ecls.items():
        if memo_attrs(c):
            stateful.add(name)
        init = [f for f in c.body if isinstance(f, ast.FunctionDef)
                and f.name == "__init__"]
        if init and any(call_name(k) == "len" for k in find_calls(
                init[0], name="len")):
            stateful.add(name)
    if "ChildScalar" not in stateful:
        raise AnalysisError("events.py: memo state of ChildScalar not "
                            "recognised")
    # a memo is computed once and handed out for every later call: its
    # value must not depend on the arguments of the call that filled it
    for cname, c in list(ecls.items()) + [("RTDC_Hierarchy", cls)]:
        for x, items in memo_attrs(c).items():
            for mfn, kind, val in items:
                if kind != "lazy":
                    continue
                a_ = mfn.args
                margs = {p_.arg for p_ in a_.args[1:] + a_.kwonlyargs}
                if a_.vararg:
                    margs.add(a_.vararg.arg)
                if a_.kwarg:
                    margs.add(a_.kwarg.arg)
                # locals derived from arguments
                derived = set(margs)
                for _ in range(3):
                    for st_ in walk(mfn):
                        if isinstance(st_, ast.Assign) and names_in(
                                st_.value) & derived:
                            for t_ in st_.targets:
                                if isinstance(t_, ast.Name):
                                    derived.add(t_.id)
                used = sorted(names_in(val) & derived)
                rel_ = EVENTS if cname in ecls else BASE
                ctx.ob("R4.2", not used,
                       f"the memoised value of `{x}` does not depend on the "
                       f"arguments of {mfn.name}()" if not used else
                       f"`{x}` is memoised from `{short(val, 50)}`, which "
                       f"depends on the argument(s) {used} of the call that "
                       f"happens to come first: every later caller (and the "
                       f"child's feature data) gets that conversion",
                       node=mfn, key=f"{rel_}::{cname}.{mfn.name}::memo {x} "
                       f"independent of call arguments")
    child_names = {n for n in ecls if n.startswith("Child")}
    n_sites = 0
    for rel in repo.files("dclab/"):
        src = repo.src(rel)
        if rel == EVENTS or not any(n in src for n in child_names):
            continue
        for q, fn in repo.all_functions(rel):
            fn = expand_self_aliases(expand_ref_locals(fn))
            # locals that hold one of the classes (`cls = A if c else B`)
            holders = {}
            for a in walk(fn):
                if isinstance(a, ast.Assign) and len(a.targets) == 1 \
                        and isinstance(a.targets[0], ast.Name):
                    v = a.value
                    alts = [v.body, v.orelse] if isinstance(
                        v, ast.IfExp) else [v]
                    if alts and all(isinstance(x, ast.Name)
                                    and x.id in child_names for x in alts):
                        holders.setdefault(a.targets[0].id, set()).update(
                            x.id for x in alts)
            for c in walk(fn):
                if not (isinstance(c, ast.Call) and isinstance(
                        c.func, ast.Name)):
                    continue
                if c.func.id in child_names:
                    what = c.func.id
                elif c.func.id in holders:
                    what = "/".join(sorted(holders[c.func.id]))
                else:
                    continue
                n_sites += 1
                ok = _flows_to_events(fn, c) and rel == BASE
                ctx.ob("R4.2", ok,
                       f"{what} object is kept in self._events only "
                       f"(dropped by the refresh)" if ok else
                       f"{what} object (memoises parent data) is "
                       f"created outside the refreshed cache self._events",
                       node=c, label=f"cache holds {short(c, 40)}")
    if n_sites < 4:
        raise AnalysisError("construction sites of Child* objects lost")

    # inherited memo state
    bcls = repo.cls(CORE, "RTDCBase")
    bmemo = memo_attrs(bcls)
    for need in ("_ancillaries", "_length"):
        if need not in bmemo:
            raise AnalysisError(f"RTDCBase: memo idiom of {need} lost")
    bmethods = {f.name: f for f in bcls.body
                if isinstance(f, ast.FunctionDef)}

    def overridden_clean(m):
        f = methods.get(m)
        if f is None:
            return False
        for c in walk(f):
            if isinstance(c, ast.Attribute) and c.attr == m and isinstance(
                    c.value, ast.Call) and call_name(c.value) == "super":
                return False
        return True

    def unreachable(m, seen=()):
        if overridden_clean(m):
            return True
        if m in seen:
            return True
        callers = [n for n, f in bmethods.items() if n != m and any(
            isinstance(a, ast.Attribute) and is_self_attr(a, m)
            for a in walk(f))]
        if not callers or m.startswith("__") or not m.startswith("_"):
            return False     # public entry point or never called
        return all(unreachable(c, seen + (m,)) for c in callers)

    for x in sorted(bmemo):
        writers = sorted({fn.name for fn, _k, _v in bmemo[x]})
        if x in BASE_EXEMPT:
            ctx.ob("R4.2", True, f"inherited `{x}`: {BASE_EXEMPT[x]}",
                   node=bmemo[x][0][0], nontrivial=False,
                   key=f"{CORE}::RTDCBase::inherited memo {x}")
            continue
        bad = [w for w in writers if not unreachable(w)]
        ok = not bad
        ctx.ob("R4.2", ok,
               f"inherited memo `{x}` (written by {', '.join(writers)}) is "
               f"unreachable in a hierarchy child (overridden without "
               f"super call)" if ok else
               f"inherited memo `{x}` is written by RTDCBase."
               f"{bad[0]}(), which a hierarchy child can reach; the child "
               f"never resets it on refresh",
               node=bmemo[x][0][0],
               key=f"{CORE}::RTDCBase::inherited memo {x}")
    # readers of the ancillary cache
    for n, f in bmethods.items():
        if n == "__init__":
            continue
        reads = any(is_self_attr(a, "_ancillaries") for a in walk(f))
        if reads and n not in {fn.name for fn, _k, _v in bmemo[
                "_ancillaries"]}:
            ok = unreachable(n)
            ctx.ob("R4.2", ok,
                   f"RTDCBase.{n} reads the ancillary cache and is "
                   f"overridden in the child" if ok else
                   f"RTDCBase.{n} reads the (never refreshed) ancillary "
                   f"cache of a hierarchy child", node=f,
                   key=f"{CORE}::RTDCBase::ancillary cache reader {n}")


def _flows_to_events(fn, call):
    """value flow: the constructed object ends up in the value stored into
    ``self._events[...]`` - directly, nested in the stored expression
    (container constructor argument, comprehension), through local names or
    local containers - on every normal path from its creation to the exit"""
    st = call
    while not isinstance(st, ast.stmt):
        st = st.parent

    def events_call(c):
        """self._events.update(...) / .setdefault(...) / .__setitem__(...)"""
        return isinstance(c, ast.Call) and isinstance(
            c.func, ast.Attribute) and c.func.attr in (
            "update", "setdefault", "__setitem__") and is_self_attr(
            c.func.value, "_events")
    if isinstance(st, ast.Expr) and events_call(st.value):
        return True       # built inside the argument of the cache update
    if not isinstance(st, ast.Assign):
        return False

    def is_events_store(t):
        return isinstance(t, ast.Subscript) and is_self_attr(
            t.value, "_events")

    def bound(stmt):
        out = set()
        for t in stmt.targets:
            if isinstance(t, ast.Name):
                out.add(t.id)
            elif isinstance(t, ast.Subscript) and isinstance(
                    t.value, ast.Name):
                out.add(t.value.id)      # container[key] = ...
            elif isinstance(t, (ast.Tuple, ast.List)):
                out |= {e.id for e in t.elts if isinstance(e, ast.Name)}
        return out
    if any(is_events_store(t) for t in st.targets):
        return True
    carriers = bound(st)
    if not carriers:
        return False
    assigns = [a for a in walk(fn) if isinstance(a, ast.Assign)]
    changed = True
    while changed:
        changed = False
        for a in assigns:
            if names_in(a.value) & carriers:
                new = bound(a) - carriers
                if new:
                    carriers |= new
                    changed = True
        for c in walk(fn):
            # container.update(x) / container.append(x) / setdefault
            if isinstance(c, ast.Call) and isinstance(
                    c.func, ast.Attribute) and c.func.attr in (
                    "update", "append", "extend", "setdefault", "add") \
                    and isinstance(c.func.value, ast.Name) and any(
                    names_in(x) & carriers for x in list(c.args) + [
                        k.value for k in c.keywords]):
                if c.func.value.id not in carriers:
                    carriers.add(c.func.value.id)
                    changed = True
    stores = [a for a in assigns if any(
        is_events_store(t) for t in a.targets)
        and names_in(a.value) & carriers]
    stores += [e for e in walk(fn) if isinstance(e, ast.Expr)
               and events_call(e.value) and any(
                   names_in(x) & carriers for x in list(e.value.args) + [
                       k.value for k in e.value.keywords])]
    if not stores:
        return False
    # on every normal path from the construction to the exit
    cfg = CFG(fn)
    sid = {i for a in stores for i in cfg.ids_of(a)}
    return all(cfg.must_pass(lambda n: n.id in sid, src=i,
                             avoid_edge=lambda a, lab, b: lab == "x")
               for i in cfg.ids_of(st))


# ======================================================================
# R4.4 mapper functions on all small hierarchies

def r44(ctx, repo, menv, n):
    fnames = ["map_indices_child2parent", "map_indices_parent2child",
              "map_indices_child2root", "map_indices_root2child"]
    for fname in fnames:
        repo.func(MAPPER, fname)
    fns = {k: menv.lookup(k) for k in fnames}
    tot = 0
    for depth in (1, 2, 3):
        bad = {k: None for k in fnames}
        cnt = {k: 0 for k in fnames}
        for ch in chains(n, depth):
            child = ch[-1]
            par = ch[-2]
            cids = child.ids()
            pids = par.ids()
            m = len(cids)
            pos = [j for j, x in enumerate(par.filter.all.data) if x]
            full = list(range(m))
            cargs = [full, full[::-1]] + [[k] for k in full]
            if depth == 1:
                cargs.append(slice(None))
            for ia in cargs:
                arg = L.Arr(ia) if isinstance(ia, list) else ia
                sel = ia if isinstance(ia, list) else full
                for fname, want in (
                        ("map_indices_child2parent", [pos[i] for i in sel]),
                        ("map_indices_child2root", [cids[i] for i in sel])):
                    if isinstance(ia, slice) and fname.endswith("root"):
                        continue
                    if bad[fname]:
                        continue
                    cnt[fname] += 1
                    res = L.run(lambda: aslist(fns[fname](
                        child=child, child_indices=arg), "result"))
                    if res != ("ok", want):
                        bad[fname] = (_show(ch), f"child_indices={ia}",
                                      res, want)
            # to-child direction: every subset of parent / root indices
            for fname, univ, own, kw in (
                    ("map_indices_parent2child", list(range(len(pids))), pos,
                     "parent_indices"),
                    ("map_indices_root2child", list(range(n)), cids,
                     "root_indices")):
                for r in range(len(univ) + 1):
                    for sub in itertools.combinations(univ, r):
                        if bad[fname]:
                            break
                        sub = list(sub)[::-1]    # order must not matter
                        want = [k for k, x in enumerate(own) if x in sub]
                        cnt[fname] += 1
                        res = L.run(lambda: aslist(fns[fname](
                            child, L.Arr(sub)), "result"))
                        if res != ("ok", want):
                            bad[fname] = (_show(ch), f"{kw}={sub}", res, want)
        for fname in fnames:
            b = bad[fname]
            tot += cnt[fname]
            ctx.ob("R4.4", b is None,
                   f"equals its specification on all hierarchies of depth "
                   f"{depth} over a root of {n} events ({cnt[fname]} "
                   f"evaluations)" if b is None else
                   f"differs from its specification at depth {depth}: "
                   f"hierarchy {b[0]}, {b[1]}: code gives {_res(b[2])}, "
                   f"specification {b[3]}",
                   node=repo.func(MAPPER, fname),
                   label=f"specification, depth {depth}")
    # histories: the same dataset / filter objects are evaluated, the
    # ancestors' filters are changed in place (as Filter.update does) and
    # the maps are evaluated again - a memo keyed too weakly (e.g. by the
    # number of selected events) shows up as a stale translation
    hn = min(n, 3)
    hbad = {k: None for k in fnames}
    hcnt = 0

    def check_all(ch, tag):
        nonlocal hcnt
        child, par = ch[-1], ch[-2]
        cids, pids = child.ids(), par.ids()
        pos = [j for j, x in enumerate(par.mask()) if x]
        full = list(range(len(cids)))
        jobs = [
            ("map_indices_child2parent",
             dict(child=child, child_indices=L.Arr(full)),
             [pos[i] for i in full]),
            ("map_indices_child2root",
             dict(child=child, child_indices=L.Arr(full)), list(cids)),
            ("map_indices_parent2child",
             dict(child=child, parent_indices=L.Arr(
                 list(range(len(pids))))), full),
            ("map_indices_root2child",
             dict(child=child, root_indices=L.Arr(list(range(hn)))), full),
        ]
        if cids:
            jobs.append(("map_indices_root2child", dict(
                child=child, root_indices=L.Arr([cids[-1]])),
                [len(cids) - 1]))
            jobs.append(("map_indices_parent2child", dict(
                child=child, parent_indices=L.Arr([pos[0]])), [0]))
        for fname, kw, want in jobs:
            if hbad[fname]:
                continue
            hcnt += 1
            res = L.run(lambda: aslist(fns[fname](**kw), "result"))
            if res != ("ok", want):
                hbad[fname] = (tag, res, want)

    for depth in (1, 2):
        sts = states(hn, depth)
        for s1 in sts:
            sig1 = [sum(m) for m in s1]
            for s2 in sts:
                if s1 == s2:
                    continue
                if depth > 1 and not thorough_hist(ctx) and [
                        sum(m) for m in s2] != sig1:
                    continue
                ch = build(hn, s1)
                check_all(ch, f"hierarchy {_show(ch)}")
                before = _show(ch)
                for d, mask in zip(ch[:-1], s2):
                    d.filter.set_all(list(mask))
                check_all(ch, f"ancestor filters changed in place {before} "
                          f"-> {_show(ch)} (same objects)")
    for fname in fnames:
        b = hbad[fname]
        ctx.ob("R4.4", b is None,
               f"still equals its specification after the ancestors' "
               f"filters were changed on the same objects ({hcnt} "
               f"evaluations over all filter pairs)" if b is None else
               f"{b[0]}: code gives {_res(b[1])}, specification {b[2]} - "
               f"the index translation uses state remembered from the "
               f"previous filter", node=repo.func(MAPPER, fname),
               label="specification after a filter change (history)")
    tot += hcnt
    ctx.stat("R4.4 evaluations", tot)


def thorough_hist(ctx):
    return ctx.tier == "thorough"


def _show(ch):
    return " > ".join("".join("1" if m else "0" for m in d.mask())
                      for d in ch[:-1])


def _res(r):
    if r[0] == "ok":
        return repr(r[1])
    return f"{r[0]} {r[1]}: {r[2]}"


# ======================================================================
# R4.3 Child* accessors

def r43(ctx, repo, eenv, n):
    tree = repo.tree(EVENTS)
    classes = [c for c in tree.body if isinstance(c, ast.ClassDef)
               and c.name.startswith("Child")]
    accessors = ("__getitem__", "__array__")
    known_params = {"child": None, "feat": "image", "flname": "fl1_raw"}
    n_cls = 0
    for c in classes:
        meths = [f.name for f in c.body if isinstance(f, ast.FunctionDef)]
        if not any(a in meths for a in accessors):
            continue
        if c.name == "ChildTrace":
            continue
        init = [f for f in c.body if isinstance(f, ast.FunctionDef)
                and f.name == "__init__"]
        if not init:
            raise AnalysisError(f"{c.name}: constructor lost")
        params = [a.arg for a in init[0].args.args][1:]
        for p in params:
            if p not in known_params:
                raise AnalysisError(f"{c.name}.__init__: parameter `{p}` is "
                                    f"not known to the analyser")
        n_cls += 1
        acls = eenv.lookup(c.name)
        feat = "deform" if c.name == "ChildScalar" else "image"
        for meth in accessors:
            if meth not in meths:
                continue
            bad = None
            cnt = 0
            for depth in (1, 2):
                for ch in chains(n, depth):
                    if bad:
                        break
                    child, par = ch[-1], ch[-2]
                    args = []
                    for p in params:
                        args.append(child if p == "child" else
                                    feat if p == "feat" else known_params[p])
                    res = L.run(lambda: acls(*args))
                    if res[0] != "ok":
                        bad = (_show(ch), "construction", res, "an object")
                        break
                    obj = res[1]
                    pdata = _parent_data(par, c, feat)
                    pos = [j for j, x in enumerate(par.filter.all.data) if x]
                    m = len(pos)
                    if meth == "__array__":
                        idxs = [None]
                    else:
                        idxs = list(range(m)) + [slice(None)]
                        if m:
                            idxs.append(L.Arr(list(range(m))[::-1]))
                    for idx in idxs:
                        if idx is None:
                            want = [pdata[j] for j in pos]
                            call = (lambda: _plain(L.lookup_attr(
                                eenv.interp, obj, "__array__", None)()))
                        else:
                            sel = (idx if isinstance(idx, int) else
                                   list(range(m))[::-1] if isinstance(
                                       idx, L.Arr) else list(range(m)))
                            want = (pdata[pos[sel]] if isinstance(sel, int)
                                    else [pdata[pos[i]] for i in sel])
                            call = (lambda: _plain(L.lookup_attr(
                                eenv.interp, obj, "__getitem__", None)(idx)))
                        cnt += 1
                        res = L.run(call)
                        if res != ("ok", want):
                            bad = (_show(ch), f"index {_idx(idx)}", res, want)
                            break
            ctx.ob("R4.3", bad is None,
                   f"returns the parent's data at the mapped positions for "
                   f"every parent filter of up to {n} events, depth 1-2 "
                   f"({cnt} evaluations)" if bad is None else
                   f"does not return the parent's data restricted to the "
                   f"selected events: parent filter {bad[0]}, {bad[1]}: code "
                   f"gives {_res(bad[2])}, specification {bad[3]}",
                   node=[f for f in c.body if isinstance(f, ast.FunctionDef)
                         and f.name == meth][0],
                   label="parent data at mapped positions")
        # length
        if "__len__" in meths or any(isinstance(b, ast.Name) and b.id
                                     == "ChildBase" for b in c.bases):
            bad = None
            for ch in chains(n, 1):
                child = ch[-1]
                args = [child if p == "child" else feat if p == "feat"
                        else known_params[p] for p in params]
                res = L.run(lambda: L._py_len(acls(*args)))
                if res != ("ok", len(child)):
                    bad = (_show(ch), res, len(child))
                    break
            ctx.ob("R4.3", bad is None,
                   "its length is the child's event count" if bad is None
                   else f"len() is {_res(bad[1])} for parent filter {bad[0]}"
                   f", the child has {bad[2]} events",
                   node=c, label="length is the child's length")
    if n_cls < 4:
        raise AnalysisError("events.py: fewer than 4 Child* accessor classes")


def _parent_data(par, cls, feat):
    if cls.name == "ChildContour":
        return par["contour"].data
    if cls.name == "ChildTraceItem":
        return par["trace"]["fl1_raw"].data
    return par[feat].data


def _plain(v):
    if isinstance(v, L.Arr):
        return list(v.data)
    return v


def _idx(i):
    if isinstance(i, slice):
        return "[:]"
    if isinstance(i, L.Arr):
        return str(i.data)
    return str(i)


# ======================================================================
# R4.6 / R4.7 HierarchyFilter

def states(n, depth):
    """all (ancestor filter tuple) states of a hierarchy root(n) -> … ->
    youngest at `depth`"""
    out = []
    for ch in chains(n, depth):
        out.append(tuple(tuple(d.filter.all.data) for d in ch[:-1]))
    return out


def build(n, state):
    root = MDS(n=n)
    ch = [root]
    for mask in state:
        ch[-1].filter = MFilter(list(mask), ch[-1])
        ch.append(MDS(hparent=ch[-1]))
    return ch


def set_state(ch, state):
    for d, mask in zip(ch[:-1], state):
        d.filter = MFilter(list(mask), d)


def r46(ctx, repo, henv, n, depths):
    hf_cls = henv.lookup("HierarchyFilter")
    repo.func(HFILT, "HierarchyFilter.update_parent")
    node = repo.func(HFILT, "HierarchyFilter.parent_changed")
    it = henv.interp

    def fmt(s):
        return " > ".join("".join("1" if m else "0" for m in x) for x in s)

    def live(state):
        """hierarchy whose members (not the root) carry an interpreted
        HierarchyFilter, all synchronised top-down"""
        root = MDS(n=n)
        root.filter = MFilter(list(state[0]), root)
        ch = [root]
        for k in range(1, len(state) + 1):
            d = MDS(hparent=ch[-1])
            d.filter = hf_cls(d)
            own = state[k] if k < len(state) else [True] * len(d)
            d.filter._attrs["all"] = L.Arr(list(own))
            ch.append(d)
        return ch

    def refresh(ch, state):
        """RTDC_Hierarchy.apply_filter of the youngest member: every
        ancestor is refreshed first (root first), each member re-creates
        its filter when its parent-change witness says so and then
        evaluates its own filter; returns the youngest member's witness"""
        ch[0].filter.set_all(list(state[0]))
        for k in range(1, len(ch)):
            d = ch[k]
            changed = bool(L.lookup_attr(it, d.filter, "parent_changed",
                                         None))
            if k == len(ch) - 1:
                return changed
            if changed:
                d.filter = hf_cls(d)
            size = len(d)
            own = list(state[k])
            if len(own) != size:
                # witness of an intermediate member missed a change of its
                # size: reported by the scan at that depth
                return None
            d.filter._attrs["all"] = L.Arr(own)
        return None

    def scan(depth):
        sts = states(n, depth)
        cnt = 0
        def snap(v):
            if isinstance(v, L.Arr):
                return v.copy()
            return list(v) if isinstance(v, list) else v
        for s1 in sts:
            res = L.run(lambda: live(s1))
            if res[0] != "ok":
                return cnt, (s1, s1, res, "construction")
            ch = res[1]
            ids1 = ch[-1].ids()
            saved = [(d, d.filter, {k: snap(v) for k, v in
                                    d.filter._attrs.items()})
                     for d in ch[1:]]
            for s2 in sts:
                # back to the synchronised state s1 (same filter objects)
                ch[0].filter.set_all(list(s1[0]))
                for d, f, attrs in saved:
                    d.filter = f
                    f._attrs.clear()
                    f._attrs.update({k: snap(v) for k, v in attrs.items()})
                res = L.run(lambda: refresh(ch, s2))
                cnt += 1
                if res[0] != "ok":
                    return cnt, (s1, s2, res, None)
                if res[1] is None:
                    continue
                ids2 = ch[-1].ids()
                if ids1 != ids2 and res[1] is not True:
                    return cnt, (s1, s2, res, True)
                if s1 == s2 and res[1] is not False:
                    return cnt, (s1, s2, res, False)
        return cnt, None

    def report(label, cnt, bad, what):
        ctx.ob("R4.6", bad is None,
               f"the parent-change witness is true for every change of the "
               f"child's underlying events and false after update_parent "
               f"({cnt} state pairs, {what})" if bad is None else
               (f"the parent-change witness misses a change: ancestor "
                f"filters {fmt(bad[0])} -> {fmt(bad[1])} give the child "
                f"different underlying events, but after the ancestors "
                f"were refreshed (root first) the child's parent_changed is "
                f"{_res(bad[2])}: its filter (manual exclusions, cached box "
                f"filters) keeps describing the old events"
                if bad[3] is True else
                f"parent_changed is {_res(bad[2])} for ancestor filters "
                f"{fmt(bad[0])} -> {fmt(bad[1])}, expected {bad[3]}"),
               node=node, label=label)
    cnt, bad = scan(1)
    report("parent-change witness [direct parent]", cnt, bad, "depth 1")
    tot, first = 0, None
    deep = [d for d in depths if d > 1]
    for depth in deep:
        cnt, bad = scan(depth)
        tot += cnt
        first = first or bad
    report("parent-change witness covers ancestors", tot, first,
           f"depth {', '.join(map(str, deep))}")


UTIL = "dclab/util.py"


def r46_digest(ctx, repo, it):
    """the parent-change witness compares digests (util.hashobj) of the
    ancestors' filter arrays: the byte representation that is hashed must
    depend on every element, also for datasets with more than a million
    events"""
    node = repo.func(UTIL, "obj2bytes")
    ho = repo.func(UTIL, "hashobj")
    ok = any(call_name(c) == "obj2bytes" for c in find_calls(
        ho, name="obj2bytes")) and "hexdigest" in txt(ho)
    if not ok:
        raise AnalysisError("util.hashobj: digest of obj2bytes(obj) lost")
    imp = any(isinstance(st, ast.ImportFrom) and (st.module or "").endswith(
        "util") and any(a.name == "hashobj" for a in st.names)
        for st in repo.tree(HFILT).body)
    if not imp:
        raise AnalysisError("hfilter.py: hashobj is not util.hashobj")
    number = L.ModelType("numbers.Number", lambda o: isinstance(
        o, (int, float)) and not isinstance(o, bool))
    never = L.ModelType("never", lambda o: False)
    env = it.env(UTIL, {
        "np": L.NPModel(), "numbers": L.namespace("numbers", Number=number),
        "pathlib": L.namespace("pathlib", Path=never),
        "h5py": L.namespace("h5py", Dataset=never),
        "Configuration": never, "ConfigurationDict": never,
        "hashlib": L.Opaque("hashlib")})
    fn = env.lookup("obj2bytes")
    bad = None
    cnt = 0
    def wrap(data):
        a = L.Arr(())
        a.data = data          # no copy
        return a
    for size in (5, 70000, 1200000):
        arr = [True] * size
        ref = L.run(lambda: fn(wrap(arr)))
        if ref[0] != "ok" or not isinstance(ref[1], bytes):
            bad = (size, "-", ref)
            break
        where = {0, size // 3, size // 2, size - 1} if size > 10**6 else {
            0, 1, size // 3, size // 2, size - 2, size - 1}
        for pos in sorted(where):
            arr[pos] = False
            cnt += 1
            res = L.run(lambda: fn(wrap(arr)))
            arr[pos] = True
            if res[0] != "ok" or res[1] == ref[1]:
                bad = bad or (size, pos, res if res[0] != "ok" else
                              ("ok", "the same bytes as without the change"))
    ctx.ob("R4.6", bad is None,
           f"the hashed byte representation of a boolean filter array "
           f"changes with every element (sizes up to 1.2 million events, "
           f"{cnt} single-element changes)" if bad is None else
           f"obj2bytes of a filter array with {bad[0]} events: excluding "
           f"event {bad[1]} gives {_res(bad[2])} - a filter change there "
           f"leaves the parent-change witness of all hierarchy children "
           f"unchanged", node=node, label="filter digest covers every event")



def r47(ctx, repo, henv, n, depths, n_deep):
    hf_cls = henv.lookup("HierarchyFilter")
    it = henv.interp
    rnode = repo.func(HFILT, "HierarchyFilter.retrieve_manual_indices")
    anode = repo.func(HFILT, "HierarchyFilter.apply_manual_indices")

    def subsets(u):
        for r in range(len(u) + 1):
            for c in itertools.combinations(u, r):
                yield list(c)

    for depth in depths:
        nn = n if depth == 1 else n_deep
        bad_r = bad_a = None
        cnt_r = cnt_a = 0
        for st in states(nn, depth):
            ch = build(nn, st)
            child = ch[-1]
            ids = child.ids()
            m = len(ids)
            res = L.run(lambda: hf_cls(child))
            if res[0] != "ok":
                bad_r = (st, "construction of the filter", res, None, None)
                bad_a = (st, "construction of the filter", res, None, None)
                break
            hf = res[1]
            for old in subsets(list(range(nn))):
                # apply_manual_indices(ids=old)
                if not bad_a:
                    hf._attrs["manual"] = L.Arr([True] * m)
                    hf._attrs["_man_root_ids"] = []
                    cnt_a += 1
                    res = L.run(lambda: L.lookup_attr(
                        it, hf, "apply_manual_indices", None)(
                            child, list(old)))
                    got = (res[0], _plain(hf._attrs.get("manual")),
                           sorted(aslist(hf._attrs.get("_man_root_ids"),
                                         "_man_root_ids")))
                    want = ("ok", [i not in old for i in ids], sorted(old))
                    if got != want:
                        bad_a = (st, f"indices {old}", res, got, want)
                if bad_r:
                    continue
                for man in itertools.product([True, False], repeat=m):
                    hf._attrs["manual"] = L.Arr(list(man))
                    hf._attrs["_man_root_ids"] = list(old)
                    excl = {i for i, k in zip(ids, man) if not k}
                    want = (set(old) if not excl
                            else excl | (set(old) - set(ids)))
                    cnt_r += 1
                    res = L.run(lambda: aslist(L.lookup_attr(
                        it, hf, "retrieve_manual_indices", None)(child),
                        "result"))
                    stored = hf._attrs.get("_man_root_ids")
                    ok = (res[0] == "ok" and set(res[1]) == want
                          and len(res[1]) == len(want)
                          and sorted(aslist(stored, "_man_root_ids"))
                          == sorted(want))
                    if not ok:
                        bad_r = (st, f"manual={list(man)} stored={old}", res,
                                 sorted(want), stored)
                        break

        def fmt(s):
            return " > ".join("".join("1" if m_ else "0" for m_ in x)
                              for x in s)
        ctx.ob("R4.7", bad_r is None,
               f"returns and stores (visible exclusions) ∪ (stored ∖ "
               f"visible) for every filter, manual array and stored set "
               f"({cnt_r} evaluations, depth {depth}, root of {nn})"
               if bad_r is None else
               f"ancestor filters {fmt(bad_r[0])}, {bad_r[1]}: returns "
               f"{_res(bad_r[2])} (stored afterwards: {bad_r[4]}), "
               f"specification {bad_r[3]}", node=rnode,
               label=f"hidden-exclusion algebra [depth {depth}]")
        ctx.ob("R4.7", bad_a is None,
               f"marks exactly the visible events of the given root indices "
               f"and stores all of them ({cnt_a} evaluations, depth {depth})"
               if bad_a is None else
               f"ancestor filters {fmt(bad_a[0])}, {bad_a[1]}: "
               f"{_res(bad_a[2])}; (status, manual, stored) = {bad_a[3]}, "
               f"specification {bad_a[4]}", node=anode,
               label=f"root indices applied [depth {depth}]")

    # larger index values: sets of small integers are not iterated in
    # ascending order ({1, 8} -> 8, 1), so any step that relies on sorted
    # input without sorting shows up only beyond 8 events
    big = 17
    bad_b = None
    cnt_b = 0
    for depth_b in (1, 2):
        ch_b = build(big, ((True,) * big,) * depth_b)
        child_b = ch_b[-1]
        res = L.run(lambda: hf_cls(child_b))
        if res[0] != "ok":
            bad_b = bad_b or ("construction of the filter", res, None)
            continue
        hf_b = res[1]
        for excl, old in (((1, 8), ()), ((1, 16), ()), ((8, 1), (16,)),
                          ((3, 16), (1, 8)), ((0, 8, 16), ())):
            man = [i not in excl for i in range(big)]
            hf_b._attrs["manual"] = L.Arr(man)
            hf_b._attrs["_man_root_ids"] = list(old)
            # all events visible: stored ids that are not excluded any more
            # are dropped, the result is exactly the excluded set
            want = sorted(excl)
            cnt_b += 1
            res = L.run(lambda: sorted(aslist(L.lookup_attr(
                it, hf_b, "retrieve_manual_indices", None)(child_b),
                "result")))
            if res != ("ok", want) and bad_b is None:
                bad_b = (f"depth {depth_b}, {big} events, events "
                         f"{list(excl)} excluded, stored {list(old)}", res,
                         want)
            hf_b._attrs["manual"] = L.Arr([True] * big)
            hf_b._attrs["_man_root_ids"] = []
            cnt_b += 1
            res = L.run(lambda: L.lookup_attr(
                it, hf_b, "apply_manual_indices", None)(
                    child_b, list(set(excl))))
            got = [i for i, k in enumerate(hf_b._attrs["manual"].data)
                   if not k]
            if (res[0] != "ok" or got != want) and bad_b is None:
                bad_b = (f"depth {depth_b}, apply_manual_indices("
                         f"{list(set(excl))})",
                         res if res[0] != "ok" else ("ok", got), want)
    # indices handed over as an array (RTDC_Hierarchy passes whatever
    # retrieve returned; users pass numpy arrays): the stored ids must behave
    # like a list in the next retrieval
    for depth_b in (1, 2):
        ch_b = build(big, ((True,) * big,) * depth_b)
        child_b = ch_b[-1]
        res = L.run(lambda: hf_cls(child_b))
        if res[0] != "ok":
            continue
        hf_b = res[1]
        for given, extra in (((1, 8), 3), ((2,), 5), ((0, 4, 16), 9)):
            hf_b._attrs["manual"] = L.Arr([True] * big)
            hf_b._attrs["_man_root_ids"] = []
            cnt_b += 1
            r1 = L.run(lambda: L.lookup_attr(
                it, hf_b, "apply_manual_indices", None)(
                    child_b, L.Arr(list(given))))
            hf_b._attrs["manual"].data[extra] = False
            r2 = L.run(lambda: sorted(aslist(L.lookup_attr(
                it, hf_b, "retrieve_manual_indices", None)(child_b),
                "result")))
            want = sorted(set(given) | {extra})
            if (r1[0] != "ok" or r2 != ("ok", want)) and bad_b is None:
                bad_b = (f"depth {depth_b}: apply_manual_indices(ndarray "
                         f"{list(given)}), then event {extra} excluded and "
                         f"retrieve_manual_indices",
                         r2 if r1[0] == "ok" else r1, want)
    ctx.ob("R4.7", bad_b is None,
           f"index sets beyond 8 events (unordered set iteration) are "
           f"translated correctly ({cnt_b} evaluations)" if bad_b is None
           else f"{bad_b[0]}: {_res(bad_b[1])}, specification {bad_b[2]} - "
           f"an index translation assumes sorted input that is not sorted "
           f"(set iteration order)", node=rnode,
           label="index sets in set-iteration order")

    # instance isolation: the state of one child's filter (created by its
    # constructor, never overwritten by the analyser here) must not show up
    # in the filter of an unrelated child
    def fresh():
        ch_ = build(n, ((True,) * n,))
        return ch_[-1], hf_cls(ch_[-1])
    bad_i = None
    res = L.run(lambda: (fresh(), fresh(), fresh()))
    if res[0] != "ok":
        bad_i = ("construction of three independent filters", res, None)
    else:
        (ca, fa), (cb, fb), (cc_, fc) = res[1]
        steps = [("child A excludes its event 0", ca, fa, 0, [0]),
                 ("unrelated child B excludes its event 1", cb, fb, 1, [1]),
                 ("child A again", ca, fa, 0, [0]),
                 ("fresh child C without exclusions", cc_, fc, None, [])]
        for what, c_, f_, k, want in steps:
            if k is not None:
                f_._attrs["manual"].data[k] = False
            r_ = L.run(lambda: sorted(aslist(L.lookup_attr(
                it, f_, "retrieve_manual_indices", None)(c_), "result")))
            st_ = L.run(lambda: sorted(aslist(L.lookup_attr(
                it, f_, "_man_root_ids", None), "_man_root_ids")))
            if (r_ != ("ok", want) or st_ != ("ok", want)) and bad_i is None:
                bad_i = (what, r_, want, st_)
    ctx.ob("R4.7", bad_i is None,
           "the stored root indices are per-instance state: exclusions of one "
           "child never appear in an unrelated child (3 independent "
           "hierarchies, 4 steps)" if bad_i is None else
           f"{bad_i[0]}: retrieve_manual_indices returns {_res(bad_i[1])}"
           + (f" (stored: {_res(bad_i[3])})" if len(bad_i) > 3 else "")
           + f", specification {bad_i[2]} - manual exclusions leak between "
           f"unrelated hierarchy children (state shared on the class / "
           f"mutated in place)", node=rnode,
           label="manual indices are per-instance state")

    # changed parent: retrieve keeps the stored indices and does not map,
    # apply refuses
    bad_r = bad_a = None
    cnt = 0
    sts = states(n, 1)
    for s1 in sts:
        ch = build(n, s1)
        child = ch[-1]
        hf = hf_cls(child)
        m = len(child.ids())
        for s2 in sts:
            if s1 == s2:
                continue
            set_state(ch, s2)
            for old in ([], [0], list(range(n))):
                for man in ([True] * m, [False] * m):
                    cnt += 1
                    hf._attrs["manual"] = L.Arr(list(man))
                    hf._attrs["_man_root_ids"] = list(old)
                    res = L.run(lambda: aslist(L.lookup_attr(
                        it, hf, "retrieve_manual_indices", None)(child),
                        "result"))
                    if res != ("ok", list(old)) or list(aslist(
                            hf._attrs["_man_root_ids"], "stored")) != old:
                        bad_r = bad_r or (s1, s2, man, old, res)
                    res = L.run(lambda: L.lookup_attr(
                        it, hf, "apply_manual_indices", None)(child, [0]))
                    if res[0] != "raise":
                        bad_a = bad_a or (s1, s2, res)
            set_state(ch, s1)
    ctx.ob("R4.7", bad_r is None,
           f"with an unsynchronised parent the stored root indices are "
           f"returned untouched ({cnt} evaluations)" if bad_r is None else
           f"parent filter changed {bad_r[0]} -> {bad_r[1]} without "
           f"refresh, manual={bad_r[2]}, stored={bad_r[3]}: returns "
           f"{_res(bad_r[4])} – indices are mapped through a filter the "
           f"child does not correspond to", node=rnode,
           label="no mapping while parent changed")
    ctx.ob("R4.7", bad_a is None,
           "applying indices to an unsynchronised child is refused"
           if bad_a is None else
           f"parent filter changed {bad_a[0]} -> {bad_a[1]} without refresh: "
           f"apply_manual_indices does not refuse ({_res(bad_a[2])})",
           node=anode, label="apply refuses while parent changed")


# ======================================================================
# R4.5b set_temporary_feature on a child

def r45b(ctx, repo, tenv, n):
    node = repo.func(FTEMP, "set_temporary_feature")
    fn = tenv.lookup("set_temporary_feature")
    bad = None
    cnt = 0
    for depth in (1, 2):
        for ch in chains(n, depth):
            if bad:
                break
            log = []
            for d in ch:
                d._log = log
                d._usertemp = {}
            child, root = ch[-1], ch[0]
            ids = child.ids()
            data = L.Arr([100 + k for k in range(len(ids))])
            cnt += 1
            res = L.run(lambda: fn(child, "tmp", data))
            got = root._usertemp.get("tmp")
            want = [math.nan] * n
            for k, i in enumerate(ids):
                want[i] = 100 + k
            same = isinstance(got, L.Arr) and len(got.data) == n and all(
                (isinstance(a, float) and math.isnan(a) and isinstance(
                    b, float) and math.isnan(b)) or a == b
                for a, b in zip(got.data, want))
            rej = [e for e in log if e == ("rejuvenate", id(child))]
            if res[0] != "ok" or not same or len(rej) < 1:
                bad = (_show(ch), res, None if got is None else got.data,
                       want, len(rej))
            elif any(k in d._usertemp for d in ch[1:] for k in ["tmp"]):
                bad = (_show(ch), res, "stored in a hierarchy child", want,
                       len(rej))
    ctx.ob("R4.5", bad is None,
           f"temporary data of a child are stored in the root at the child's "
           f"root positions (NaN elsewhere) and the child is rejuvenated "
           f"({cnt} hierarchies)" if bad is None else
           f"ancestor filters {bad[0]}: {_res(bad[1])}; root data "
           f"{bad[2]}, specification {bad[3]}; rejuvenate() calls: {bad[4]}",
           node=node, label="child data placed at root positions, "
           "then rejuvenate")
    # wrong length is refused
    ch = build(n, ((True,) * n,))
    res = L.run(lambda: fn(ch[-1], "tmp", L.Arr([1])))
    ok = res[0] == "raise" if n != 1 else True
    ctx.ob("R4.5", ok, "data of the wrong length are refused" if ok else
           f"data of the wrong length are accepted ({_res(res)})", node=node,
           label="length check", nontrivial=False)


# ======================================================================

def run(ctx):
    repo = ctx.repo
    thorough = ctx.tier == "thorough"
    ctx.rule("R4.1", "refresh order in RTDC_Hierarchy.apply_filter "
             "(retrieve ≺ parent refresh ≺ invalidate ≺ repopulate/config ≺ "
             "filter re-creation ≺ filter update); arguments forwarded",
             minimum=14)
    ctx.rule("R4.2", "reset-set ⊇ memo-set (own, Child* objects, inherited)",
             minimum=14)
    ctx.rule("R4.3", "Child* accessors return the parent's data at the "
             "mapped positions (all small hierarchies)", minimum=10)
    ctx.rule("R4.4", "map_indices_* equal their specification on all small "
             "hierarchies, depth 1..3, and after in-place filter changes",
             minimum=16)
    ctx.rule("R4.5", "manual indices handed over the filter re-creation; "
             "set_temporary_feature on a child", minimum=6)
    ctx.rule("R4.6", "parent-change witness covers every ancestor and "
             "every event of their filters", minimum=3)
    ctx.rule("R4.7", "retrieve/apply of manual indices equal the root-index "
             "set model; per-instance state", minimum=8)
    ctx.rule("R4.8", "refresh histories on root > A > B: manual exclusions "
             "follow the measurement events through hiding, emptying and "
             "temporary-feature assignment and filter reset", minimum=3)
    ctx.rule("R4.9", "refresh re-populates the child's cache for every "
             "content of the parent (each trace name, each image-like "
             "feature: one item never ends the loop for the others)",
             minimum=2)
    r41(ctx, repo)
    r45a(ctx, repo)
    r42(ctx, repo)
    it, menv, henv, eenv, tenv = make_envs(repo)
    n = 4 if thorough else 3
    r44(ctx, repo, menv, n)
    r43(ctx, repo, eenv, n)
    r45b(ctx, repo, tenv, 3)
    r46(ctx, repo, henv, 3, (1, 2, 3) if thorough else (1, 2))
    r46_digest(ctx, repo, it)
    r47(ctx, repo, henv, 3, (1, 2), 3 if thorough else 2)
    r48(ctx, repo)
    r49(ctx, repo)
    ctx.stat("interpreter steps", it.steps)


# ======================================================================

MUTANTS = [
    ("parent refreshed after the cache clear", BASE,
     [("        # Copy event data from hierarchy parent\n"
       "        self.hparent.apply_filter(*args, **kwargs)\n", ""),
      ("        self._events.clear()\n",
       "        self._events.clear()\n"
       "        self.hparent.apply_filter(*args, **kwargs)\n")], "R4.1"),
    ("cached length not dropped", BASE,
     ("        # Clear anything that has been cached until now\n"
      "        self._length = None\n", ""), "R4."),
    ("cached events not dropped", BASE,
     ("        self._events.clear()\n", ""), "R4."),
    ("manual indices not retrieved before refresh", BASE,
     ("        if self._ds_filter is not None:\n"
      "            # make sure self.filter knows about root manual indices\n"
      "            # (stored in self.filter._man_root_ids)\n"
      "            self.filter.retrieve_manual_indices(self)\n", ""), "R4.1"),
    ("filter evaluated before re-creation", BASE,
     ("        self._check_parent_filter()\n"
      "        super(RTDC_Hierarchy, self).apply_filter(*args, **kwargs)\n",
      "        super(RTDC_Hierarchy, self).apply_filter(*args, **kwargs)\n"
      "        self._check_parent_filter()\n"), "R4.1"),
    ("parent-change test dropped", BASE,
     ("        # create a new filter if the parent changed\n"
      "        self._check_parent_filter()\n", ""), "R4.1"),
    ("config updated before parent refresh", BASE,
     [("        # Update configuration\n        self._update_config()\n", ""),
      ("        # Copy event data from hierarchy parent\n",
       "        self._update_config()\n"
       "        # Copy event data from hierarchy parent\n")], "R4.1"),
    ("manual indices not re-applied", BASE,
     ("            self.filter.apply_manual_indices(self, manual_pidx)\n",
      ""), "R4.5"),
    ("manual indices read after filter reset", BASE,
     ("            manual_pidx = self.filter.retrieve_manual_indices(self)\n"
      "            self._ds_filter = None  # forces recreation of "
      "HierarchyFilter\n",
      "            self._ds_filter = None  # forces recreation of "
      "HierarchyFilter\n"
      "            manual_pidx = self.filter.retrieve_manual_indices(self)\n"),
     "R4.5"),
    ("new memoised attribute never reset", BASE,
     ("    @property\n    def basins(self):",
      "    @property\n    def n_selected(self):\n"
      "        if self._nsel is None:\n"
      "            self._nsel = int(np.sum(self.hparent.filter.all))\n"
      "        return self._nsel\n\n"
      "    @property\n    def basins(self):"), "R4.2"),
    ("child falls back to RTDCBase feature lookup", BASE,
     ("        else:\n            raise KeyError(\n"
      "                f\"The dataset {self} does not contain the feature "
      "'{feat}'! \"",
      "        elif feat in self.features_ancillary:\n"
      "            data = super(RTDC_Hierarchy, self).__getitem__(feat)\n"
      "        else:\n            raise KeyError(\n"
      "                f\"The dataset {self} does not contain the feature "
      "'{feat}'! \""), "R4.2"),
    ("Child object kept outside the cache", BASE,
     ("                data = ChildScalar(self, feat)\n",
      "                data = ChildScalar(self, feat)\n"
      "                return data\n"), "R4.2"),
    ("ChildNDArray indexes parent with child indices", EVENTS,
     ("        return hp[self.feat][pidx]", "        return hp[self.feat][idx]"),
     "R4.3"),
    ("ChildScalar uses the child's own filter", EVENTS,
     ("            filt_arr = hparent.filter.all\n",
      "            filt_arr = self.child.filter.all\n"), "R4.3"),
    ("ChildTraceItem skips the mapping", EVENTS,
     ("        return hp[\"trace\"][self.flname][pidx]",
      "        return hp[\"trace\"][self.flname][idx]"), "R4.3"),
    ("ChildContour maps from the parent's view", EVENTS,
     ("        pidx = map_indices_child2parent(child=self.child,\n"
      "                                        child_indices=idx)\n"
      "        hp = self.child.hparent\n        return hp[\"contour\"][pidx]",
      "        pidx = map_indices_child2parent(child=self.child.hparent,\n"
      "                                        child_indices=idx)\n"
      "        hp = self.child.hparent\n        return hp[\"contour\"][pidx]"),
     "R4.3"),
    ("ChildScalar item access bypasses the restriction", EVENTS,
     ("        return self.__array__()[idx]",
      "        return self.child.hparent[self.feat][idx]"), "R4.3"),
    ("child2root does not carry the mapped indices", MAPPER,
     ("            child_indices = indices\n", ""), "R4.4"),
    ("root2child walks the tree bottom-up", MAPPER,
     ("    for hp in hierarchy[::-1]:  # reverse order",
      "    for hp in hierarchy:"), "R4.4"),
    ("parent2child returns parent positions", MAPPER,
     ("    return np.where(same)[0]", "    return pf_loc[same]"), "R4.4"),
    ("child2parent counts deselected events", MAPPER,
     ("    idx = np.where(pf)[0]  # True means present in the child",
      "    idx = np.arange(len(pf))"), "R4.4"),
    ("root2child stops one level early", MAPPER,
     ("    hierarchy = [child]\n", "    hierarchy = []\n"), "R4.4"),
    ("retrieve forgets hidden exclusions", HFILT,
     ("            all_idx = list(set(pbool + phid))",
      "            all_idx = list(set(pbool))"), "R4.7"),
    ("retrieve keeps taken-back exclusions", HFILT,
     ("            all_idx = list(set(pbool + phid))",
      "            all_idx = list(set(pall))"), "R4.7"),
    ("hidden set computed against child indices", HFILT,
     ("            phid = list(set(pall) - set(pvis_p))",
      "            phid = list(set(pall) - set(pvis_c))"), "R4.7"),
    ("apply does not remember the root indices", HFILT,
     ("            self._man_root_ids = list(manual_indices)\n", ""), "R4.7"),
    ("apply re-includes instead of excluding", HFILT,
     ("                self.manual[cidx] = False",
      "                self.manual[cidx] = True"), "R4.7"),
    ("retrieve maps although the parent changed", HFILT,
     ("        if self.parent_changed:\n            # ignore\n"
      "            pass\n        elif np.all(self.manual):",
      "        if np.all(self.manual):"), "R4.7"),
    ("apply does not refuse an unsynchronised child", HFILT,
     ("        if self.parent_changed:\n            msg =",
      "        if False:\n            msg ="), "R4.7"),
    ("update_parent keeps the old witness", HFILT,
     ("        self._parent_rtdc_ds = parent_rtdc_ds\n        self._parent_hash",
      "        self._parent_rtdc_ds = parent_rtdc_ds\n        self._unused"),
     "R4.6"),
    ("temporary feature of a child without rejuvenate", FTEMP,
     ("        rtdc_ds.rejuvenate()\n", "        pass\n"), "R4.5"),
    ("temporary feature placed at child positions", FTEMP,
     ("        root_feat_data[root_ids] = data",
      "        root_feat_data[:len(data)] = data"), "R4.5"),
]

TWINS = [
    ("child2root written recursively", MAPPER,
     ("    while True:\n"
      "        indices = map_indices_child2parent(child=child,\n"
      "                                           child_indices=child_indices)"
      "\n        if child.hparent.format == \"hierarchy\":\n"
      "            child = child.hparent\n"
      "            child_indices = indices\n"
      "        else:\n            break\n    return indices",
      "    indices = map_indices_child2parent(child=child,\n"
      "                                       child_indices=child_indices)\n"
      "    if child.hparent.format == \"hierarchy\":\n"
      "        return map_indices_child2root(child.hparent, indices)\n"
      "    return indices")),
    ("child2parent via flatnonzero", MAPPER,
     ("    idx = np.where(pf)[0]  # True means present in the child",
      "    idx = np.flatnonzero(pf)")),
    ("root2child with reversed()", MAPPER,
     ("    for hp in hierarchy[::-1]:  # reverse order",
      "    for hp in reversed(hierarchy):")),
    ("event cache replaced instead of cleared", BASE,
     ("        self._events.clear()\n", "        self._events = {}\n")),
    ("config update after the parent-change test", BASE,
     [("        # Update configuration\n        self._update_config()\n", ""),
      ("        self._check_parent_filter()\n",
       "        self._check_parent_filter()\n        self._update_config()\n"
       )]),
    ("_check_parent_filter with early return", BASE,
     ("        if self.filter.parent_changed:\n"
      "            manual_pidx = self.filter.retrieve_manual_indices(self)\n"
      "            self._ds_filter = None  # forces recreation of "
      "HierarchyFilter\n"
      "            self._assert_filter()\n"
      "            self.filter.apply_manual_indices(self, manual_pidx)\n",
      "        if not self.filter.parent_changed:\n            return\n"
      "        manual_pidx = self.filter.retrieve_manual_indices(self)\n"
      "        self._ds_filter = None\n"
      "        self.filter.apply_manual_indices(self, manual_pidx)\n")),
    ("retrieve with early return and comprehension", HFILT,
     [("        if self.parent_changed:\n            # ignore\n"
       "            pass\n        elif np.all(self.manual):",
       "        if self.parent_changed:\n"
       "            return self._man_root_ids\n"
       "        if np.all(self.manual):"),
      ("            phid = list(set(pall) - set(pvis_p))",
       "            phid = [pp for pp in pall if pp not in pvis_p]")]),
    ("ChildNDArray accessor inlined", EVENTS,
     ("        pidx = map_indices_child2parent(child=self.child,\n"
      "                                        child_indices=idx)\n"
      "        hp = self.child.hparent\n        return hp[self.feat][pidx]",
      "        return self.child.hparent[self.feat][\n"
      "            map_indices_child2parent(self.child, idx)]")),
]

# mutant that re-introduces the repaired defect F04 (applies to the fixed tree)
MUTANTS = list(MUTANTS) + [
    ("parent-change witness of the direct parent only (F04 returns)",
     "dclab/rtdc_dataset/fmt_hierarchy/hfilter.py",
     ('            if ds.format == "hierarchy":\n'
      '                ds = ds.hparent\n'
      '            else:\n'
      '                break\n',
      '            break\n'), "R4.6"),
]

# helper extraction (refactoring /tmp/seed/rfout_C04/refactor3): the ordering
# rules follow same-class method calls
_REPOP = (
    "        # update event index\n"
    "        event_count = len(self)\n"
    "        self._events.clear()\n"
    "        self._events[\"index\"] = np.arange(1, event_count + 1)\n"
    "        # set non-scalar column data\n"
    "        for feat in [\"image\", \"image_bg\", \"mask\"]:\n"
    "            if feat in self.hparent:\n"
    "                self._events[feat] = ChildNDArray(self, feat)\n"
    "        if \"contour\" in self.hparent:\n"
    "            self._events[\"contour\"] = ChildContour(self)\n"
    "        if \"trace\" in self.hparent:\n"
    "            trdict = ChildTrace()\n"
    "            for flname in dfn.FLUOR_TRACES:\n"
    "                if flname in self.hparent[\"trace\"]:\n"
    "                    trdict[flname] = ChildTraceItem(self, flname)\n"
    "            self._events[\"trace\"] = trdict\n")
_HELPER_HEAD = ("    def _repopulate_events(self):\n"
                "        \"\"\"Clear the feature cache and set index and "
                "non-scalar features\"\"\"\n")
_UPD = "    def _update_config(self):\n"

TWINS = list(TWINS) + [
    ("cache re-population extracted into a helper method", BASE,
     [(_REPOP, "        self._repopulate_events()\n"),
      (_UPD, _HELPER_HEAD + _REPOP + "\n" + _UPD)]),
    ("cache invalidation and re-population extracted, two levels", BASE,
     [("        # Clear anything that has been cached until now\n"
       "        self._length = None\n\n" + _REPOP,
       "        self._invalidate()\n"),
      (_UPD,
       "    def _invalidate(self):\n"
       "        self._length = None\n"
       "        self._repopulate_events()\n\n"
       + _HELPER_HEAD + _REPOP + "\n" + _UPD)]),
    ("parent-change hand-over extracted into a helper", BASE,
     [("            manual_pidx = self.filter.retrieve_manual_indices(self)\n"
       "            self._ds_filter = None  # forces recreation of "
       "HierarchyFilter\n"
       "            self._assert_filter()\n"
       "            self.filter.apply_manual_indices(self, manual_pidx)\n",
       "            self._recreate_filter()\n"),
      (_UPD,
       "    def _recreate_filter(self):\n"
       "        manual_pidx = self.filter.retrieve_manual_indices(self)\n"
       "        self._ds_filter = None\n"
       "        self._assert_filter()\n"
       "        self.filter.apply_manual_indices(self, manual_pidx)\n\n"
       + _UPD)]),
]

MUTANTS = list(MUTANTS) + [
    ("helper re-populates the cache without clearing it", BASE,
     [(_REPOP, "        self._repopulate_events()\n"),
      (_UPD, _HELPER_HEAD + _REPOP.replace(
          "        self._events.clear()\n", "") + "\n" + _UPD)], "R4."),
    ("helper (cache refresh) called before the parent refresh", BASE,
     [(_REPOP, ""),
      ("        # Copy event data from hierarchy parent\n",
       "        self._repopulate_events()\n"
       "        # Copy event data from hierarchy parent\n"),
      (_UPD, _HELPER_HEAD + _REPOP + "\n" + _UPD)], "R4.1"),
    ("helper evaluates len(self) before the length reset", BASE,
     [("        # Clear anything that has been cached until now\n"
       "        self._length = None\n\n" + _REPOP,
       "        self._repopulate_events()\n        self._length = None\n"),
      (_UPD, _HELPER_HEAD + _REPOP + "\n" + _UPD)], "R4.1"),
]

# round-2 seeded changes (/verif/seeded/C04_4, C04_5) and relatives
_CACHE_HELPER = (
    "def _child_locations(parent, pf):\n"
    "    \"\"\"Cached `np.where(pf)[0]`\"\"\"\n"
    "    loc = getattr(parent.filter, \"_child_loc\", None)\n"
    "    if loc is None or loc.size != np.count_nonzero(pf):\n"
    "        loc = parent.filter._child_loc = np.where(pf)[0]\n"
    "    return loc\n\n\n")
_PLAIN_HELPER = (
    "def _child_locations(parent, pf):\n"
    "    \"\"\"`np.where(pf)[0]`: parent indices of the child's events\"\"\"\n"
    "    return np.where(pf)[0]\n\n\n")
_USE_HELPER = [
    ("    idx = np.where(pf)[0]  # True means present in the child",
     "    idx = _child_locations(parent, pf)"),
    ("    pf_loc = np.where(pf)[0]", "    pf_loc = _child_locations(parent, pf)"),
]
_WALK_OLD = ("            if ds.format == \"hierarchy\":\n"
             "                ds = ds.hparent\n"
             "            else:\n"
             "                break\n")

MUTANTS = list(MUTANTS) + [
    ("index table cached on the parent filter, keyed by its length (seeded)",
     MAPPER,
     _USE_HELPER + [("def map_indices_child2parent(",
                     _CACHE_HELPER + "def map_indices_child2parent(")],
     "R4.4"),
    ("index table cached on the child, never refreshed", MAPPER,
     [("    idx = np.where(pf)[0]  # True means present in the child",
       "    idx = getattr(child, \"_ploc\", None)\n"
       "    if idx is None:\n"
       "        idx = child._ploc = np.where(pf)[0]")], "R4.4"),
    ("ancestor walk stops at synchronised parents (seeded)", HFILT,
     (_WALK_OLD,
      "            if ds.format == \"hierarchy\" and "
      "ds.filter.parent_changed:\n"
      "                ds = ds.hparent\n"
      "            else:\n"
      "                break\n"), "R4.6"),
    ("ancestor walk skips the root", HFILT,
     (_WALK_OLD,
      "            if ds.format == \"hierarchy\" and "
      "ds.hparent.format == \"hierarchy\":\n"
      "                ds = ds.hparent\n"
      "            else:\n"
      "                break\n"), "R4.6"),
]

TWINS = list(TWINS) + [
    ("index table computed in an extracted helper (no memo)", MAPPER,
     _USE_HELPER + [("def map_indices_child2parent(",
                     _PLAIN_HELPER + "def map_indices_child2parent(")]),
    ("ancestor walk as a while-condition loop", HFILT,
     ("        hashes = []\n"
      "        ds = self._parent_rtdc_ds\n"
      "        while True:\n"
      "            hashes.append(hashobj(ds.filter.all))\n" + _WALK_OLD,
      "        ds = self._parent_rtdc_ds\n"
      "        hashes = [hashobj(ds.filter.all)]\n"
      "        while ds.format == \"hierarchy\":\n"
      "            ds = ds.hparent\n"
      "            hashes.append(hashobj(ds.filter.all))\n")),
]

# round-2 refactoring: trace items built by a comprehension and handed to the
# container constructor
TWINS = list(TWINS) + [
    ("trace wrappers built by a dict comprehension", BASE,
     ("            trdict = ChildTrace()\n"
      "            for flname in dfn.FLUOR_TRACES:\n"
      "                if flname in self.hparent[\"trace\"]:\n"
      "                    trdict[flname] = ChildTraceItem(self, flname)\n"
      "            self._events[\"trace\"] = trdict\n",
      "            trace_items = {\n"
      "                flname: ChildTraceItem(self, flname)\n"
      "                for flname in dfn.FLUOR_TRACES\n"
      "                if flname in self.hparent[\"trace\"]\n"
      "            }\n"
      "            self._events[\"trace\"] = ChildTrace(trace_items)\n")),
    ("trace wrappers nested in the stored expression", BASE,
     ("            trdict = ChildTrace()\n"
      "            for flname in dfn.FLUOR_TRACES:\n"
      "                if flname in self.hparent[\"trace\"]:\n"
      "                    trdict[flname] = ChildTraceItem(self, flname)\n"
      "            self._events[\"trace\"] = trdict\n",
      "            self._events[\"trace\"] = ChildTrace({\n"
      "                flname: ChildTraceItem(self, flname)\n"
      "                for flname in dfn.FLUOR_TRACES\n"
      "                if flname in self.hparent[\"trace\"]})\n")),
]

MUTANTS = list(MUTANTS) + [
    ("trace wrappers built but kept in an attribute outside the cache", BASE,
     ("            self._events[\"trace\"] = trdict\n",
      "            self._trace_items = trdict\n"
      "            self._events[\"trace\"] = ChildTrace()\n"), "R4.2"),
]

# round-3 seeded changes (/verif/seeded/C04_7, C04_8)
MUTANTS = list(MUTANTS) + [
    ("stored root indices as a shared class-level list (seeded)", HFILT,
     [("class HierarchyFilter(Filter):\n",
       "class HierarchyFilter(Filter):\n    _man_root_ids = []\n\n"),
      ("        self._man_root_ids = []\n"
       "        super(HierarchyFilter, self).__init__(rtdc_ds)",
       "        super(HierarchyFilter, self).__init__(rtdc_ds)"),
      ("            pall = sorted(list(set(pbool + pold)))",
       "            pold += pbool\n            pall = sorted(set(pold))")],
     "R4.7"),
    ("reset keeps the shared list and only the constructor default is "
     "class-level", HFILT,
     [("class HierarchyFilter(Filter):\n",
       "class HierarchyFilter(Filter):\n    _man_root_ids = []\n\n"),
      ("        self._man_root_ids = []\n"
       "        super(HierarchyFilter, self).__init__(rtdc_ds)",
       "        super(HierarchyFilter, self).__init__(rtdc_ds)"),
      ("            self._man_root_ids = sorted(all_idx)",
       "            self._man_root_ids[:] = sorted(all_idx)")], "R4.7"),
    ("large filter arrays hashed by their first and last block (seeded)",
     UTIL,
     ("    elif isinstance(obj, np.ndarray):\n        return obj.tobytes()\n",
      "    elif isinstance(obj, np.ndarray):\n"
      "        if obj.nbytes > 16 * 65536:\n"
      "            flat = obj.reshape(-1)\n"
      "            nel = max(1, 65536 // obj.itemsize)\n"
      "            return (obj2bytes([str(obj.dtype), list(obj.shape)])\n"
      "                    + flat[:nel].tobytes() + flat[-nel:].tobytes())\n"
      "        return obj.tobytes()\n"), "R4.6"),
]

TWINS = list(TWINS) + [
    ("stored root indices: class-level None default, list per instance",
     HFILT,
     [("class HierarchyFilter(Filter):\n",
       "class HierarchyFilter(Filter):\n    _man_root_ids = None\n\n")]),
    ("hidden-set union without the temporary list", HFILT,
     ("            pall = sorted(list(set(pbool + pold)))",
      "            pall = sorted(set(pbool) | set(pold))")),
]

# round-3 refactorings (campaign/refactorings_round3: C04/refactor1,
# C02/refactor5)
TWINS = list(TWINS) + [
    ("ancestor walk through a module-level generator", HFILT,
     [("class HierarchyFilter(Filter):\n",
       "def _iter_ancestors(ds):\n"
       "    \"\"\"Yield `ds` and then all of its hierarchy parents\"\"\"\n"
       "    yield ds\n"
       "    while ds.format == \"hierarchy\":\n"
       "        ds = ds.hparent\n"
       "        yield ds\n\n\n"
       "class HierarchyFilter(Filter):\n"),
      ("        hashes = []\n"
       "        ds = self._parent_rtdc_ds\n"
       "        while True:\n"
       "            hashes.append(hashobj(ds.filter.all))\n" + _WALK_OLD,
       "        hashes = [hashobj(ds.filter.all)\n"
       "                  for ds in _iter_ancestors(self._parent_rtdc_ds)]\n"
       )]),
    ("feature wrapper class chosen by a conditional expression", BASE,
     ("            if len(self.hparent[feat].shape) > 1:\n"
      "                # non-scalar feature\n"
      "                data = ChildNDArray(self, feat)\n"
      "            else:\n"
      "                # scalar feature\n"
      "                data = ChildScalar(self, feat)\n",
      "            feat_ndim = len(self.hparent[feat].shape)\n"
      "            child_cls = ChildNDArray if feat_ndim > 1 else "
      "ChildScalar\n"
      "            data = child_cls(self, feat)\n")),
]

MUTANTS = list(MUTANTS) + [
    ("generator of ancestors stops at the direct parent", HFILT,
     [("class HierarchyFilter(Filter):\n",
       "def _iter_ancestors(ds):\n"
       "    yield ds\n\n\n"
       "class HierarchyFilter(Filter):\n"),
      ("        hashes = []\n"
       "        ds = self._parent_rtdc_ds\n"
       "        while True:\n"
       "            hashes.append(hashobj(ds.filter.all))\n" + _WALK_OLD,
       "        hashes = [hashobj(ds.filter.all)\n"
       "                  for ds in _iter_ancestors(self._parent_rtdc_ds)]\n"
       )], "R4.6"),
    ("wrapper from a class-valued local returned without caching", BASE,
     ("            if len(self.hparent[feat].shape) > 1:\n"
      "                # non-scalar feature\n"
      "                data = ChildNDArray(self, feat)\n"
      "            else:\n"
      "                # scalar feature\n"
      "                data = ChildScalar(self, feat)\n",
      "            child_cls = ChildNDArray if len(\n"
      "                self.hparent[feat].shape) > 1 else ChildScalar\n"
      "            return child_cls(self, feat)\n"), "R4.2"),
]

# round-4 seeded changes (/verif/seeded/C04_10 .. C04_12, C06_11)
MUTANTS = list(MUTANTS) + [
    ("manual indices not re-applied to an empty child (seeded)", BASE,
     ("            self.filter.apply_manual_indices(self, manual_pidx)\n",
      "            if len(self):\n"
      "                self.filter.apply_manual_indices(self, manual_pidx)\n"),
     "R4.8"),
    ("root filter applied before the child translated its manual edits "
     "(seeded)", FTEMP,
     ("        rtdc_ds.rejuvenate()\n",
      "        root_parent.apply_filter()\n        rtdc_ds.rejuvenate()\n"),
     "R4.8"),
    ("parent2child by bisection of possibly unsorted indices (seeded)",
     MAPPER,
     ("    same = np.isin(pf_loc, parent_indices)\n",
      "    pidx = np.asarray(parent_indices, dtype=int)\n"
      "    if pidx.size == 0:\n"
      "        return np.zeros(0, dtype=int)\n"
      "    pos = np.minimum(np.searchsorted(pidx, pf_loc), pidx.size - 1)\n"
      "    same = pidx[pos] == pf_loc\n"), "R4."),
    ("filter arrays above 1 MiB hashed by a strided sample (seeded C06_11)",
     UTIL,
     ("    elif isinstance(obj, np.ndarray):\n        return obj.tobytes()\n",
      "    elif isinstance(obj, np.ndarray):\n"
      "        if obj.nbytes > 2**20:\n"
      "            step = int(np.ceil(obj.nbytes / 2**20))\n"
      "            return obj2bytes([str(obj.shape), str(obj.dtype)]) \\\n"
      "                + obj.reshape(-1)[::step].tobytes()\n"
      "        return obj.tobytes()\n"), "R4.6"),
    ("manual indices of a re-created filter applied only when the parent "
     "is non-empty", BASE,
     ("            self.filter.apply_manual_indices(self, manual_pidx)\n",
      "            if np.any(self.hparent.filter.all):\n"
      "                self.filter.apply_manual_indices(self, manual_pidx)\n"),
     "R4.8"),
]

TWINS = list(TWINS) + [
    ("stored root indices kept unsorted (translation by np.isin)", HFILT,
     [("            pall = sorted(list(set(pbool + pold)))",
       "            pall = list(set(pbool + pold))"),
      ("            self._man_root_ids = sorted(all_idx)",
       "            self._man_root_ids = all_idx")]),
    ("manual indices re-applied under a None guard", BASE,
     ("            self.filter.apply_manual_indices(self, manual_pidx)\n",
      "            if manual_pidx is not None:\n"
      "                self.filter.apply_manual_indices(self, manual_pidx)\n"
      )),
]

# round-5 refactoring campaign/refactorings_round5/C20/refactor5: local
# aliases of self.hparent / self._events in the refresh
def _alias_refresh(src, drop_clear=False):
    a = src.index("        # Copy event data from hierarchy parent\n")
    b = src.index("        # Update configuration\n        self._update_config()")
    body = src[a:b]
    body = body.replace("self.hparent", "hparent").replace(
        "self._events", "events")
    if drop_clear:
        body = body.replace("        events.clear()\n", "")
    return (src[:a] + "        hparent = self.hparent\n"
            "        events = self._events\n\n" + body + src[b:])


TWINS = list(TWINS) + [
    ("refresh through local aliases of self.hparent and self._events", BASE,
     _alias_refresh),
]

MUTANTS = list(MUTANTS) + [
    ("aliased refresh without clearing the event cache", BASE,
     lambda s: _alias_refresh(s, drop_clear=True), "R4."),
    ("aliased feature cache filled before the parent refresh", BASE,
     lambda s: _alias_refresh(s).replace(
         "        # Copy event data from hierarchy parent\n"
         "        hparent.apply_filter(*args, **kwargs)\n", "").replace(
         "        # Update configuration\n        self._update_config()",
         "        hparent.apply_filter(*args, **kwargs)\n"
         "        # Update configuration\n        self._update_config()", 1),
     "R4.1"),
]

# round-5 seeded changes (/verif/seeded/C04_13, C04_14)
MUTANTS = list(MUTANTS) + [
    ("ChildScalar caches the dtype-converted array of the first caller "
     "(seeded)", EVENTS,
     ("            self._array = hparent[self.feat][filt_arr]\n",
      "            self._array = np.asarray(hparent[self.feat][filt_arr],\n"
      "                                     dtype=dtype)\n"), "R4.2"),
    ("refused apply_manual_indices still replaces the stored indices "
     "(seeded)", HFILT,
     [("        if self.parent_changed:\n            msg = ",
       "        self._man_root_ids = list(manual_indices)\n"
       "        if self.parent_changed:\n            msg = "),
      ("        else:\n            self._man_root_ids = list(manual_indices)\n"
       "            cidx",
       "        else:\n            cidx")], "R4.8"),
]

TWINS = list(TWINS) + [
    ("apply_manual_indices with an early raise instead of if/else", HFILT,
     lambda s: s.replace(
         "            raise HierarchyFilterError(msg)\n"
         "        else:\n"
         "            self._man_root_ids = list(manual_indices)\n"
         "            cidx = map_indices_root2child(child=rtdc_ds,\n"
         "                                          root_indices="
         "manual_indices)\n"
         "            if len(cidx):\n"
         "                self.manual[cidx] = False\n",
         "            raise HierarchyFilterError(msg)\n"
         "        self._man_root_ids = list(manual_indices)\n"
         "        cidx = map_indices_root2child(child=rtdc_ds,\n"
         "                                      root_indices=manual_indices)"
         "\n"
         "        if len(cidx):\n"
         "            self.manual[cidx] = False\n")),
]

# seed /verif/seeded/C03_15
MUTANTS = list(MUTANTS) + [
    ("force not passed to the child's own filter update (seeded)", BASE,
     ("        super(RTDC_Hierarchy, self).apply_filter(*args, **kwargs)",
      "        super(RTDC_Hierarchy, self).apply_filter()"), "R4.1"),
    ("force not passed to the parent refresh", BASE,
     ("        self.hparent.apply_filter(*args, **kwargs)",
      "        self.hparent.apply_filter()"), "R4.1"),
]

TWINS = list(TWINS) + [
    ("apply_filter with an explicit force parameter", BASE,
     [("    def apply_filter(self, *args, **kwargs):",
       "    def apply_filter(self, force=None):"),
      ("        self.hparent.apply_filter(*args, **kwargs)",
       "        self.hparent.apply_filter(force=force)"),
      ("        super(RTDC_Hierarchy, self).apply_filter(*args, **kwargs)",
       "        super(RTDC_Hierarchy, self).apply_filter(force)")]),
]

# round-6 refactoring campaign/refactorings_round6/C04/refactor4
TWINS = list(TWINS) + [
    ("image wrappers stored through self._events.update(<generator>)", BASE,
     ("        for feat in [\"image\", \"image_bg\", \"mask\"]:\n"
      "            if feat in self.hparent:\n"
      "                self._events[feat] = ChildNDArray(self, feat)\n",
      "        self._events.update(\n"
      "            (feat, ChildNDArray(self, feat))\n"
      "            for feat in (\"image\", \"image_bg\", \"mask\")\n"
      "            if feat in self.hparent)\n")),
]

MUTANTS = list(MUTANTS) + [
    ("image wrappers collected in a side dictionary", BASE,
     ("        for feat in [\"image\", \"image_bg\", \"mask\"]:\n"
      "            if feat in self.hparent:\n"
      "                self._events[feat] = ChildNDArray(self, feat)\n",
      "        self._nd_wrappers = {}\n"
      "        self._nd_wrappers.update(\n"
      "            (feat, ChildNDArray(self, feat))\n"
      "            for feat in (\"image\", \"image_bg\", \"mask\")\n"
      "            if feat in self.hparent)\n"), "R4.2"),
]

# seed /verif/seeded/C04_16
MUTANTS = list(MUTANTS) + [
    ("apply_manual_indices keeps the caller's (array) object (seeded)", HFILT,
     ("            self._man_root_ids = list(manual_indices)\n",
      "            self._man_root_ids = manual_indices\n"), "R4.7"),
]

# round-7 seeded changes (/verif/seeded/C04_19, C04_20)
_TRACE_LOOP = (
    "            for flname in dfn.FLUOR_TRACES:\n"
    "                if flname in self.hparent[\"trace\"]:\n"
    "                    trdict[flname] = ChildTraceItem(self, flname)\n")
_HF_INIT = ("        self._man_root_ids = []\n"
            "        super(HierarchyFilter, self).__init__(rtdc_ds)\n")
_HF_RESET = ("    def reset(self):\n"
             "        super(HierarchyFilter, self).reset()\n"
             "        self._man_root_ids.clear()\n\n")

MUTANTS = list(MUTANTS) + [
    ("trace loop ends at the first trace name the parent lacks (seeded)",
     BASE,
     (_TRACE_LOOP,
      "            for flname in dfn.FLUOR_TRACES:\n"
      "                if flname not in self.hparent[\"trace\"]:\n"
      "                    break\n"
      "                trdict[flname] = ChildTraceItem(self, flname)\n"),
     "R4.9"),
    ("trace loop returns early when a trace name is missing", BASE,
     (_TRACE_LOOP + "            self._events[\"trace\"] = trdict\n",
      "            self._events[\"trace\"] = trdict\n"
      "            for flname in dfn.FLUOR_TRACES:\n"
      "                if flname not in self.hparent[\"trace\"]:\n"
      "                    return\n"
      "                trdict[flname] = ChildTraceItem(self, flname)\n"),
     "R4."),
    ("contour wrapper only for parents that also have a mask", BASE,
     ("        if \"contour\" in self.hparent:\n",
      "        if \"contour\" in self.hparent and \"mask\" in self.hparent:\n"),
     "R4.9"),
    ("trace items bound to the first trace name", BASE,
     ("                    trdict[flname] = ChildTraceItem(self, flname)\n",
      "                    trdict[flname] = ChildTraceItem(\n"
      "                        self, dfn.FLUOR_TRACES[0])\n"), "R4.9"),
    ("filter reset keeps the stored root indices (seeded)", HFILT,
     [(_HF_INIT,
       "        super(HierarchyFilter, self).__init__(rtdc_ds)\n"
       "        self._man_root_ids = []\n"),
      (_HF_RESET, "")], "R4.8"),
    ("filter reset override dropped, constructor unchanged", HFILT,
     (_HF_RESET, ""), "R4.8"),
    ("filter reset clears the stored root indices before the base reset "
     "re-creates them from a class default", HFILT,
     (_HF_RESET,
      "    def reset(self):\n"
      "        stored = list(self._man_root_ids)\n"
      "        super(HierarchyFilter, self).reset()\n"
      "        self._man_root_ids = stored\n\n"), "R4.8"),
]

TWINS = list(TWINS) + [
    ("trace loop with a guard clause that skips a missing name", BASE,
     (_TRACE_LOOP,
      "            for flname in dfn.FLUOR_TRACES:\n"
      "                if flname not in self.hparent[\"trace\"]:\n"
      "                    continue\n"
      "                trdict[flname] = ChildTraceItem(self, flname)\n")),
    ("trace loop over the names the parent has", BASE,
     (_TRACE_LOOP,
      "            for flname in self.hparent[\"trace\"]:\n"
      "                if flname in dfn.FLUOR_TRACES:\n"
      "                    trdict[flname] = ChildTraceItem(self, flname)\n")),
    ("filter reset assigns a new list, constructor relies on it", HFILT,
     [(_HF_INIT,
       "        super(HierarchyFilter, self).__init__(rtdc_ds)\n"),
      (_HF_RESET,
       "    def reset(self):\n"
       "        self._man_root_ids = []\n"
       "        super(HierarchyFilter, self).reset()\n\n")]),
]
