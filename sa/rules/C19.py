"""C19 – remote range-cached access returns the bytes of the resource.

R19.1 range arithmetic as affine forms: chunk k covers [k·c, min((k+1)·c,
      length)); the Range header is ``bytes={start}-{stop-1}`` in both
      sibling implementations; read_range_cached iterates chunk indices
      start//c … stop//c and slices with pos % c / stop % c, consuming the
      same amount from `toread` that it adds to `pos`.
R19.2 eviction safety: the chunk returned is bound before the eviction (or
      the eviction skips it); chunk 0 pinned; one insertion and at most one
      eviction per call after the size test.
R19.3 bounded read: the range handed to read_range_cached is clamped to the
      resource length; a negative/None size means "to the end".
R19.4 position protocol: seek handles SET/CUR/END, tell returns the
      position, read advances it by the number of bytes returned.
R19.7 identity: url / session / s3 object are bound in __init__ only; in
      fmt_s3 an explicit argument beats the URL, the URL beats the
      environment default.
R19.5 hand-over: RTDC_HTTP / RTDC_S3 pass their file object as h5path to
      RTDC_HDF5.__init__ and are not of format "hdf5".
"""
from __future__ import annotations

import ast

from ..absval import Poly, Rat, ratfun
from ..normalize import canon, expand_locals, inline_helpers
from ..core import (AnalysisError, call_name, const_str, dotted, find_calls,
                    is_self_attr, kwarg, last_attr, names_in, short, txt,
                    walk)

ASSUMPTIONS = [
    "NOT decided: byte equality for arbitrary access sequences (needs a "
    "server and execution); equality of a dataset opened over HTTP with the "
    "local file; server behaviour for range requests.",
    "The chunk loop of read_range_cached is decided piecewise (index range, "
    "offsets, consumed amounts as affine forms), not by executing it.",
]

HU = "dclab/http_utils.py"
S3 = "dclab/rtdc_dataset/fmt_s3.py"
HT = "dclab/rtdc_dataset/fmt_http.py"
H5 = "dclab/rtdc_dataset/fmt_hdf5/base.py"
CORE = "dclab/rtdc_dataset/core.py"


def _sym_resolver(mapping):
    """resolve(node) for ratfun: text of node -> symbol"""
    def res(node):
        t = txt(node)
        if t in mapping:
            return mapping[t]
        if isinstance(node, ast.Call) and call_name(node) in (
                "np.int64", "int", "np.uint64"):
            return None if not node.args else ratfun(node.args[0], res)
        if isinstance(node, ast.Name):
            return node.id
        return None
    return res


def _namedtuple_fields(repo, rel, name):
    """field names of ``name = collections.namedtuple("..", [...])`` at
    module level of `rel`, else None"""
    v = repo.module_assign(rel, name, missing_ok=True) if name else None
    if isinstance(v, ast.Call) and (call_name(v) or "").split(".")[-1] == \
            "namedtuple" and len(v.args) >= 2:
        f = v.args[1]
        if isinstance(f, (ast.List, ast.Tuple)) and all(
                const_str(x) for x in f.elts):
            return [const_str(x) for x in f.elts]
        if const_str(f):
            return const_str(f).replace(",", " ").split()
    return None


def _same(a, b):
    try:
        return a.same(b)
    except Exception:
        return False


def _sole_assign(func, name):
    outs = [n for n in walk(func) if isinstance(n, ast.Assign)
            and len(n.targets) == 1 and isinstance(n.targets[0], ast.Name)
            and n.targets[0].id == name]
    return outs


def r195(ctx, repo):
    for rel, cls, attr in ((HT, "RTDC_HTTP", "_fhttp"),
                           (S3, "RTDC_S3", "_s3file")):
        init = repo.func(rel, f"{cls}.__init__")
        sup = [c for c in find_calls(init, attr="__init__")
               if "super" in txt(c.func)]
        ok = bool(sup) and kwarg(sup[-1], "h5path") is not None and \
            is_self_attr(kwarg(sup[-1], "h5path"), attr)
        ctx.ob("R19.5", ok, f"{cls} hands its range-cached file object to "
               f"the HDF5 reader" if ok else
               f"{cls} does not pass its file object as h5path", node=init,
               label="hand-over h5path")
        fmt = cls.split("_")[-1].lower()
        ctx.ob("R19.5", fmt != "hdf5", f"{cls} has format '{fmt}' (not "
               f"'hdf5'): local basins stay disabled", node=init,
               label="non-local format", nontrivial=False)
    base = repo.func(CORE, "RTDCBase.__init__")
    f = [n for n in walk(base) if isinstance(n, ast.Assign)
         and is_self_attr(n.targets[0], "format")]
    fsrc = expand_locals(base, f[0].value) if f else ""
    ok = bool(f) and "__class__.__name__" in fsrc and \
        "split('_')" in fsrc and "[-1]" in fsrc and ".lower()" in fsrc
    ctx.ob("R19.5", ok, "format derives from the class-name suffix" if ok
           else "format derivation changed – re-confirm non-local formats",
           node=f[0] if f else base, label="format from class name")
    h5 = repo.func(H5, "RTDC_HDF5.__init__")
    lb = [n for n in walk(h5) if isinstance(n, ast.Assign)
          and is_self_attr(n.targets[0], "_local_basins_allowed")]
    ok = len(lb) == 1 and "self.format == 'hdf5'" in txt(lb[0].value)
    ctx.ob("R19.5", ok, "local basins are enabled only for format 'hdf5'"
           if ok else "local basins enabled for formats other than 'hdf5'",
           node=lb[0] if lb else h5, label="local basins only hdf5")
    # the restriction concerns basins of type "file" only: a remote
    # dataset still follows its internal and remote basins (what the same
    # bytes expose when opened locally)
    br = repo.func(CORE, "RTDCBase.basins_retrieve")
    guards = [n for n in walk(br) if isinstance(n, ast.If)
              and "_local_basins_allowed" in txt(n.test)]
    if not guards:
        raise AnalysisError("basins_retrieve: _local_basins_allowed test "
                            "lost")

    def type_sets(test):
        """sets of basin types a test restricts to ('type' == const / in
        literal table), None if it does not restrict the type"""
        out = []
        for c in ast.walk(test):
            if not (isinstance(c, ast.Compare) and len(c.ops) == 1):
                continue
            left = expand_locals(br, c.left)
            if "type" in left and "[" in left and "basin_type" not in left:
                rhs = c.comparators[0]
                if isinstance(c.ops[0], ast.Eq) and const_str(rhs):
                    out.append({const_str(rhs)})
                elif isinstance(c.ops[0], ast.In):
                    lit = rhs
                    if isinstance(rhs, (ast.Name, ast.Attribute)):
                        nm = rhs.id if isinstance(rhs, ast.Name) else rhs.attr
                        lit = None
                        for rel_ in (CORE,
                                     "dclab/rtdc_dataset/feat_basin.py"):
                            v = repo.module_assign(rel_, nm, missing_ok=True)
                            if v is not None:
                                lit = v
                    if isinstance(lit, (ast.List, ast.Tuple, ast.Set)) and \
                            all(const_str(e) for e in lit.elts):
                        out.append({const_str(e) for e in lit.elts})
                    else:
                        raise AnalysisError(
                            "basins_retrieve: basin-type table "
                            f"`{short(rhs, 30)}` cannot be folded")
        return out
    for g in guards:
        sets = type_sets(g.test)
        n_ = g.parent
        while n_ is not None and n_ is not br:
            if isinstance(n_, ast.If) and any(
                    x is g or any(y is g for y in ast.walk(x))
                    for x in n_.body):
                sets += type_sets(n_.test)
            n_ = getattr(n_, "parent", None)
        if not sets:
            raise AnalysisError("basins_retrieve: the _local_basins_allowed "
                                "test is not tied to a basin type")
        types = set.intersection(*sets)
        ok = types <= {"file"}
        ctx.ob("R19.5", ok, "only basins of type 'file' are refused for "
               "non-local formats" if ok else
               f"basins of type {sorted(types - {'file'})} are refused for "
               f"remote formats as well: a dataset opened over HTTP/S3 loses "
               f"features the same file exposes when opened locally",
               node=g, label="local restriction = file basins only")


def r196(ctx, repo):
    """Per-instance state and a single chunk store.

    (a) every attribute of the file object that methods mutate or re-bind
        (chunk cache, length, etag, position) is created per instance in
        __init__ – a class-level mutable default is shared by every open
        resource;
    (b) the chunk cache `self.cache` is the only place that holds downloaded
        bytes: no memoising decorator on the download / chunk routines of
        HTTPFile and its subclasses (a memo keeps every chunk ever downloaded
        alive although the cache evicts them)."""
    cls = repo.cls(HU, "HTTPFile")
    init = repo.func(HU, "HTTPFile.__init__")
    inited = {t.attr for n in walk(init) if isinstance(n, ast.Assign)
              for t in n.targets if is_self_attr(t)}
    # attributes written / mutated through self in the other methods
    touched = {}
    inplace = set()
    for f in [x for x in cls.body if isinstance(x, ast.FunctionDef)
              and x.name != "__init__"]:
        for n in walk(f):
            if isinstance(n, (ast.Assign, ast.AugAssign)):
                tg = n.targets if isinstance(n, ast.Assign) else [n.target]
                for t in tg:
                    if is_self_attr(t):
                        touched.setdefault(t.attr, n)
                    if isinstance(t, ast.Subscript) and is_self_attr(t.value):
                        touched.setdefault(t.value.attr, n)
                        inplace.add(t.value.attr)
            if isinstance(n, ast.Call) and isinstance(
                    n.func, ast.Attribute) and is_self_attr(
                    n.func.value) and n.func.attr in (
                    "pop", "clear", "update", "append", "setdefault",
                    "popitem"):
                touched.setdefault(n.func.value.attr, n)
                inplace.add(n.func.value.attr)
    class_level = {}
    for st in cls.body:
        if isinstance(st, ast.Assign):
            for t in st.targets:
                if isinstance(t, ast.Name):
                    class_level[t.id] = st.value
    for attr, node in sorted(touched.items()):
        shared = attr in class_level and isinstance(
            class_level[attr], (ast.Dict, ast.List, ast.Set, ast.Call,
                                ast.ListComp, ast.DictComp))
        # an immutable class-level default that methods only re-bind is
        # per-instance in effect
        benign_default = (attr in class_level and isinstance(
            class_level[attr], ast.Constant) and attr not in inplace)
        ok = attr in inited or benign_default
        ctx.ob("R19.6", ok,
               f"state `{attr}` is created per instance in __init__" if ok
               else f"state `{attr}` is not created in __init__"
               + (" but is a class-level mutable object: every open "
                  "resource shares it (chunks of one file are served for "
                  "another)" if shared else
                  ": it is shared through the class / missing"),
               node=node, key=f"{HU}::HTTPFile::per-instance {attr}")
    # (b) no memoising decorator on the byte-moving routines
    MEMO = ("lru_cache", "cache", "cached_property", "Cache", "memoize")
    for rel, cname in ((HU, "HTTPFile"), (S3, "S3File")):
        c = repo.cls(rel, cname)
        for f in [x for x in c.body if isinstance(x, ast.FunctionDef)]:
            if f.name not in ("download_range", "get_cache_chunk",
                              "read_range_cached", "read"):
                continue
            bad = [txt(d) for d in f.decorator_list
                   if any(m in txt(d) for m in MEMO)]
            ctx.ob("R19.6", not bad,
                   f"{cname}.{f.name} is not memoised (the chunk cache is "
                   f"the only store)" if not bad else
                   f"{cname}.{f.name} is wrapped by `{bad[0]}`: the memo "
                   f"keeps every downloaded chunk alive although the chunk "
                   f"cache evicts them – the configured memory bound is "
                   f"broken", node=f,
                   key=f"{rel}::{cname}.{f.name}::not memoised")


def r197(ctx, repo):
    """The resource that is read is the one that was named.

    (a) the attributes that identify the remote resource (`url`, `session`
        for HTTPFile; `s3_object`, `s3_resource`, `s3_session`, `s3_client`
        for S3File) are bound in ``__init__`` only – re-binding them later
        (e.g. to a redirect target) makes later range requests address
        something else than what the length / etag / cached chunks belong to;
    (b) where fmt_s3 combines an endpoint or credential from several
        sources with ``or``, the explicit argument comes first, a value
        derived from the URL second, the environment default last."""
    ident = {HU: ("HTTPFile", {"url", "session"}),
             S3: ("S3File", {"url", "session", "s3_object", "s3_resource",
                             "s3_session", "s3_client"})}
    for rel, (cname, attrs) in ident.items():
        c = repo.cls(rel, cname)
        seen_init = set()
        for f in [x for x in c.body if isinstance(x, ast.FunctionDef)]:
            for n in walk(f):
                tg = []
                if isinstance(n, ast.Assign):
                    tg = n.targets
                elif isinstance(n, (ast.AugAssign, ast.AnnAssign)):
                    tg = [n.target]
                elif isinstance(n, ast.Delete):
                    tg = n.targets
                elif isinstance(n, ast.Call) and call_name(n) == "setattr" \
                        and len(n.args) >= 2 and txt(n.args[0]) == "self":
                    nm = const_str(n.args[1])
                    if nm is None:
                        raise AnalysisError(
                            f"{cname}.{f.name}: setattr(self, <computed>)")
                    if nm in attrs and f.name != "__init__":
                        ctx.ob("R19.7", False,
                               f"{cname}.{f.name} re-binds the resource "
                               f"identity `{nm}` through setattr", node=n,
                               key=f"{rel}::{cname}::identity {nm} fixed")
                for t in tg:
                    for el in (t.elts if isinstance(t, (ast.Tuple, ast.List))
                               else [t]):
                        if is_self_attr(el) and el.attr in attrs:
                            if f.name == "__init__":
                                seen_init.add(el.attr)
                            else:
                                ctx.ob("R19.7", False,
                                       f"{cname}.{f.name} re-binds "
                                       f"`self.{el.attr}` after construction:"
                                       f" later range requests address "
                                       f"another location than the one the "
                                       f"length, etag and cached chunks "
                                       f"belong to", node=n,
                                       key=f"{rel}::{cname}::identity "
                                           f"{el.attr} fixed")
        for a in sorted(seen_init):
            ctx.ob("R19.7", True, f"{cname}: `{a}` is bound in __init__ only",
                   node=c, key=f"{rel}::{cname}::identity {a} fixed")
        if not seen_init:
            raise AnalysisError(f"{cname}.__init__ binds no identity "
                                f"attribute")
    # (b) precedence in or-chains of fmt_s3
    tree = repo.tree(S3)
    env_names = set()
    for st in tree.body:
        if isinstance(st, ast.Assign) and isinstance(st.value, ast.Call) \
                and "environ" in txt(st.value.func):
            env_names |= {t.id for t in st.targets if isinstance(t, ast.Name)}
    if not env_names:
        raise AnalysisError("fmt_s3: environment defaults not found")
    n_chain = 0
    for q, f in repo.all_functions(S3):
        params = {a.arg for a in f.args.args + f.args.kwonlyargs}
        for n in walk(f):
            if not (isinstance(n, ast.BoolOp) and isinstance(n.op, ast.Or)):
                continue
            kinds = []
            for v in n.values:
                if isinstance(v, ast.Name) and v.id in env_names:
                    kinds.append("env")
                elif isinstance(v, ast.Name) and v.id in params:
                    kinds.append("arg")
                elif isinstance(v, ast.Call) and (call_name(v) or "") \
                        .startswith("get_"):
                    kinds.append("url")
                elif isinstance(v, ast.Constant):
                    kinds.append("lit")      # last-resort literal
                else:
                    kinds.append("other")
            if "env" not in kinds:
                continue
            n_chain += 1
            rank = {"arg": 0, "url": 1, "other": 1, "env": 2, "lit": 3}
            ok = [rank[k] for k in kinds] == sorted(rank[k] for k in kinds)
            ctx.ob("R19.7", ok,
                   f"{q}: `{short(n, 50)}` prefers the explicit argument, "
                   f"then the URL, then the environment default" if ok else
                   f"{q}: `{short(n, 60)}` lets the environment default "
                   f"override what the URL (or the caller) names: the object "
                   f"is read from another server", node=n,
                   key=f"{S3}::{q}::source precedence "
                       f"{'/'.join(sorted(set(txt(v) for v in n.values if isinstance(v, ast.Name) and v.id in env_names)))}"
                       )
    if n_chain < 4:
        raise AnalysisError(f"fmt_s3: only {n_chain} source-precedence "
                            f"chains found (6 confirmed by hand)")


# ----------------------------------------------------------------------
# finite-model evaluation (R19.1 – R19.4)

def _family(tier):
    if tier == "thorough":
        return [(L_, c, k) for L_ in (1, 2, 7, 8, 9, 12)
                for c in (1, 2, 3, 4, 5) for k in (1, 2, 3)]
    return [(L_, c, k) for L_ in (1, 7, 8) for c in (3, 4) for k in (1, 2)]


def r19_eval(ctx, repo):
    """HTTPFile (loaded from its syntax tree) evaluated on a family of small
    resources: every byte range, every seek/read/tell combination, the cache
    bound and the request log are compared with the specification."""
    from ..lib_C19 import Model, Session, HU as _HU, S3 as _S3
    from .. import lib_C04 as L_
    cls_node = repo.cls(HU, "HTTPFile")
    fn = {f.name: f for f in cls_node.body if isinstance(f, ast.FunctionDef)}
    for need in ("read", "seek", "tell", "read_range_cached",
                 "get_cache_chunk", "download_range"):
        if need not in fn:
            raise AnalysisError(f"HTTPFile.{need} vanished")
    fails = {}

    def fail(key, msg):
        fails.setdefault(key, msg)
    n_eval = 0
    for (Ln, c, keep) in _family(ctx.tier):
        res = bytes(range(1, Ln + 1))
        cfg = f"resource of {Ln} bytes, chunk size {c}, keep_chunks {keep}"
        # (A) every byte range through read_range_cached
        m = Model(repo, res, c, keep)
        had0 = False
        for a in range(Ln + 1):
            for b in range(a, Ln + 1):
                r = m.call("read_range_cached", a, b)
                n_eval += 1
                if r != ("ok", res[a:b]):
                    fail("range bytes", f"{cfg}: read_range_cached({a}, {b}) "
                         f"-> {r!r}, expected {res[a:b]!r}")
                cache = m.cache
                if len(cache) > keep:
                    fail("cache bound", f"{cfg}: {len(cache)} chunks held "
                         f"after read_range_cached({a}, {b})")
                if had0 and 0 not in cache:
                    fail("first chunk pinned", f"{cfg}: chunk 0 evicted by "
                         f"read_range_cached({a}, {b})")
                had0 = had0 or 0 in cache
                for k_, v_ in cache.items():
                    if v_ != res[k_ * c:(k_ + 1) * c]:
                        fail("chunk content", f"{cfg}: cache[{k_}] = {v_!r}, "
                             f"expected {res[k_ * c:(k_ + 1) * c]!r}")
        ses = m.session
        if ses.bad:
            fail("requests valid", f"{cfg}: invalid / unsatisfiable range "
                 f"request `{ses.bad[0]}` (a server ignores it and sends the "
                 f"whole resource; S3 raises InvalidRange)")
        for (fa, la) in ses.log:
            if fa % c or la != min(fa + c, Ln) - 1:
                fail("requests chunk aligned", f"{cfg}: request bytes="
                     f"{fa}-{la} is not chunk k = [k·c, min((k+1)·c, L))")
        if ses.other_url:
            fail("requests address the resource", f"{cfg}: request sent to "
                 f"{ses.other_url[0]!r}")
        # (B) file protocol: seek / read / tell
        m = Model(repo, res, c, keep)
        sizes = [None, -1, 0, 1, c, c + 1, Ln + 3]
        for pos in range(Ln + 2):
            for size in sizes:
                r = m.call("seek", pos)
                r = m.call("read") if size is None and pos % 2 else \
                    m.call("read", size)
                n_eval += 1
                want = res[pos:] if size is None or size < 0 else \
                    res[pos:pos + size]
                if r != ("ok", want):
                    fail("read bytes", f"{cfg}: seek({pos}); read({size}) "
                         f"-> {r!r}, expected {want!r}")
                t = m.call("tell")
                if t != ("ok", pos + len(want)):
                    fail("position advances", f"{cfg}: after seek({pos}); "
                         f"read({size}) tell() -> {t!r}, expected "
                         f"{pos + len(want)}")
                if len(m.cache) > keep:
                    fail("cache bound", f"{cfg}: {len(m.cache)} chunks held "
                         f"after read({size}) at {pos}")
        if m.session.bad:
            fail("requests valid", f"{cfg}: read() issued the invalid / "
                 f"unsatisfiable range request `{m.session.bad[0]}`")
        # seek modes
        for whence, base in ((0, 0), (1, 2), (2, Ln)):
            for off in (0, 1, -1):
                if base + off < 0:
                    continue
                m.call("seek", 2)
                r = m.call("seek", off, whence)
                t = m.call("tell")
                if t != ("ok", base + off):
                    fail("seek modes", f"{cfg}: seek(2); seek({off}, "
                         f"{whence}); tell() -> {t!r}, expected {base + off}")
    # servers that label the resource with a weak validator or with none
    from ..lib_C19 import WEAK_ETAG
    for etag in (WEAK_ETAG, None):
        for (Ln, c, keep) in ((7, 3, 2), (8, 4, 1)):
            res = bytes(range(1, Ln + 1))
            cfg = (f"resource of {Ln} bytes, chunk size {c}, keep_chunks "
                   f"{keep}, server ETag {etag}")
            m = Model(repo, res, c, keep, etag=etag)
            for a in range(Ln + 1):
                for b in range(a, Ln + 1):
                    r = m.call("read_range_cached", a, b)
                    n_eval += 1
                    if r != ("ok", res[a:b]):
                        why = ""
                        if m.session.if_range_failed:
                            why = (" (the request carried If-Range: "
                                   f"{m.session.if_range_failed[0]}, which "
                                   "fails the strong comparison: the server "
                                   "ignores Range and sends the whole "
                                   "resource)")
                        fail("range bytes", f"{cfg}: read_range_cached({a}, "
                             f"{b}) -> {r!r}, expected {res[a:b]!r}{why}")
    # the server answers the first request with an error page, then
    # recovers: the same file object must read the resource afterwards
    for (Ln, c, keep) in ((7, 3, 2), (60, 16, 2)):
        res = bytes((i % 251) + 1 for i in range(Ln))
        try:
            m = Model(repo, res, c, keep, outage=1)
            first = m.call("read", 2)
        except AnalysisError as e:
            if "cannot be evaluated" not in str(e):
                raise
            # the constructor itself contacts the server: a new object
            # after the outage is the only way on – nothing to check
            continue
        n_eval += 1
        m.call("seek", 0)
        r = m.call("read")
        m.call("seek", 0, 2)
        t = m.call("tell")
        if r != ("ok", res) or t != ("ok", Ln):
            fail("read bytes", f"resource of {Ln} bytes, chunk size {c}: the "
                 f"first request is answered with a 503 error page (read(2) "
                 f"-> {first!r}); after the server recovered read() -> "
                 f"{r!r}, seek(0, 2); tell() -> {t!r}; expected the "
                 f"resource's {Ln} bytes: the length of the error page was "
                 "kept as the length of the resource")
    # two open resources do not see each other's chunks
    resA, resB = bytes(range(1, 9)), bytes(range(101, 109))
    ma = Model(repo, resA, 3, 2)
    mb = ma.second(resB, 3, 2)
    for a_, b_ in ((0, 8), (2, 5), (0, 3)):
        ra = ma.call("read_range_cached", a_, b_)
        rb = mb.call("read_range_cached", a_, b_)
        n_eval += 2
        if ra != ("ok", resA[a_:b_]) or rb != ("ok", resB[a_:b_]):
            fail("resources independent", "two open resources (8 bytes each,"
                 f" chunk size 3): reading [{a_}, {b_}) gives {ra!r} and "
                 f"{rb!r}, expected {resA[a_:b_]!r} and {resB[a_:b_]!r}: "
                 f"state is shared between file objects")
    ma.call("seek", 5)
    if mb.call("tell") != ("ok", 0):
        fail("resources independent", "seek on one file object moves the "
             "position of another")
    # a file object opened later on the same URL reads the resource as it
    # is then (the resource was replaced in between: other length, other
    # validator) – nothing a previous object learnt about the URL survives
    # outside that object
    for newres, what in ((bytes(range(201, 212)), "longer"),
                         (bytes(range(201, 206)), "shorter")):
        m1 = Model(repo, resA, 3, 2)
        r1 = m1.call("read_range_cached", 0, len(resA))
        m1.call("seek", 0, 2)
        m1.session.res = newres
        m1.session.etag = '"0123456789abcdef-new"'
        m2 = m1.again(3, 2)
        m2.call("seek", 0, 2)
        t2 = m2.call("tell")
        m2.call("seek", 0)
        r2 = m2.call("read")
        n_eval += 4
        if r1 != ("ok", resA) or t2 != ("ok", len(newres)) \
                or r2 != ("ok", newres):
            fail("resources independent", f"a resource of {len(resA)} bytes "
                 f"is read through one file object, replaced on the server "
                 f"by a {what} one ({len(newres)} bytes, new ETag) and "
                 f"opened again through a new file object on the same URL: "
                 f"seek(0, 2); tell() -> {t2!r}, read() -> {r2!r}; expected "
                 f"{len(newres)} and the new bytes: length / ETag of the "
                 "URL are remembered outside the file object")
    ctx.stat("R19 model evaluations", n_eval)
    ctx.stat("R19 model family", [list(x) for x in _family(ctx.tier)])
    rd, rr, gc = fn["read"], fn["read_range_cached"], fn["get_cache_chunk"]
    obs = [
        ("R19.1", "range bytes", rr, "every byte range [a, b) of every model "
         "resource is returned exactly"),
        ("R19.1", "chunk content", gc, "every cached chunk k holds the bytes "
         "[k·c, min((k+1)·c, L))"),
        ("R19.1", "requests chunk aligned", gc, "every request is one whole "
         "chunk"),
        ("R19.1", "requests valid", rr, "no invalid or unsatisfiable range "
         "is ever requested"),
        ("R19.1", "requests address the resource", fn["download_range"],
         "every request goes to the URL of the resource"),
        ("R19.6", "resources independent", fn["__init__"] if "__init__"
         in fn else gc, "two open resources never see each other's chunks "
         "or position"),
        ("R19.2", "cache bound", gc, "never more than keep_chunks chunks are "
         "held"),
        ("R19.2", "first chunk pinned", gc, "chunk 0 is never evicted"),
        ("R19.3", "read bytes", rd, "read(n) at every position returns the "
         "bytes up to n / the end"),
        ("R19.4", "position advances", rd, "read advances the position by "
         "the number of bytes returned"),
        ("R19.4", "seek modes", fn["seek"], "seek handles SET / CUR / END"),
    ]
    for rule, key, node, good in obs:
        ok = key not in fails
        ctx.ob(rule, ok, good + f" ({len(_family(ctx.tier))} models)"
               if ok else fails[key], node=node, label=key)
    # sibling: S3File.download_range sends the same inclusive range
    scls = repo.cls(S3, "S3File")
    it = L_.Interp(repo)

    class _Body:
        def __init__(self, data):
            self.data = data

        def read(self):
            return self.data

    class _S3Object:
        def __init__(self, res_):
            self.res = res_
            self.bad = []
            self.content_length = len(res_)
            self.e_tag = '"0123456789abcdef"'

        def get(self, Range=None, **kw):
            if not (isinstance(Range, str) and Range.startswith("bytes=")):
                self.bad.append(Range)
                return {"Body": _Body(self.res)}
            a, _, b = Range[6:].partition("-")
            a, b = int(a), int(b)
            if b < a or a >= len(self.res):
                self.bad.append(Range)
                return {"Body": _Body(self.res)}
            return {"Body": _Body(self.res[a:b + 1])}
    env = it.env(S3, {"HTTPFile": L_.PyBase("HTTPFile"),
                      "boto3": L_.Opaque("boto3"),
                      "botocore": L_.Opaque("botocore"),
                      "functools": L_.namespace(
                          "functools", lru_cache=lambda *a, **k: (
                              a[0] if a and callable(a[0])
                              else (lambda f: f)))})
    # names fmt_s3 imports from http_utils resolve to their definitions
    hu_env = it.env(HU, {"io": L_.namespace("io", IOBase=L_.PyBase("IOBase")),
                         "os": L_.namespace("os", SEEK_SET=0, SEEK_CUR=1,
                                            SEEK_END=2)})
    for st_ in repo.tree(S3).body:
        if isinstance(st_, ast.ImportFrom) and (st_.module or "").endswith(
                "http_utils"):
            for al in st_.names:
                if al.name != "HTTPFile":
                    env.ext[al.asname or al.name] = hu_env.lookup(al.name)
    c3 = env.lookup("S3File")
    res = bytes(range(1, 10))
    obj = L_.AstObject(c3)
    so = _S3Object(res)
    obj._attrs["s3_object"] = so
    bad = None
    for a in range(len(res)):
        for b in range(a + 1, len(res) + 1):
            r = L_.run(lambda: L_.lookup_attr(it, obj, "download_range",
                                              None)(a, b))
            if r != ("ok", res[a:b]) and bad is None:
                bad = (f"S3File.download_range({a}, {b}) -> {r!r}, expected "
                       f"{res[a:b]!r}")
    if so.bad and bad is None:
        bad = f"S3File.download_range sent the Range {so.bad[0]!r}"
    s3dl = [f for f in scls.body if isinstance(f, ast.FunctionDef)
            and f.name == "download_range"]
    if not s3dl:
        raise AnalysisError("S3File.download_range vanished")
    ctx.ob("R19.1", bad is None, "S3File.download_range(a, b) returns the "
           "bytes [a, b) of the object for every range" if bad is None
           else bad, node=s3dl[0], label="s3 range bytes")


MUTATORS = {"append", "extend", "insert", "remove", "pop", "clear", "sort",
            "reverse", "update", "add", "discard", "setdefault", "popitem",
            "appendleft", "extendleft", "fill", "resize", "put"}


def _lazy_memo_sites(func):
    """[(attr, publishing Assign, [later statements that still change the
    published object])] for the lazy-memo idiom ``if self.X is None: ...
    self.X = V`` (or the early return ``if self.X is not None: return``)."""
    out = []

    def is_none_test(t):
        """(attr, polarity) for ``self.X is None`` / ``self.X is not None``"""
        if isinstance(t, ast.Compare) and len(t.ops) == 1 and isinstance(
                t.comparators[0], ast.Constant) \
                and t.comparators[0].value is None \
                and isinstance(t.left, ast.Attribute) \
                and isinstance(t.left.value, ast.Name) \
                and t.left.value.id == "self":
            if isinstance(t.ops[0], ast.Is):
                return t.left.attr, True
            if isinstance(t.ops[0], ast.IsNot):
                return t.left.attr, False
        return None

    def region(stmts):
        return [n for st in stmts for n in ast.walk(st)]

    def later(stmt, top):
        """statements that may execute after `stmt` inside `top` (a list of
        statements): later siblings on every nesting level and, inside a
        loop, the whole loop"""
        res = []

        def rec(stmts):
            for i, st in enumerate(stmts):
                if st is stmt:
                    res.extend(stmts[i + 1:])
                    return True
                for fld in ("body", "orelse", "finalbody", "handlers"):
                    sub = getattr(st, fld, None)
                    if isinstance(sub, list) and sub and isinstance(
                            sub[0], ast.AST):
                        sl = []
                        for x in sub:
                            sl.append(x)
                        if isinstance(sub[0], ast.ExceptHandler):
                            hit = any(rec(h.body) for h in sub)
                        else:
                            hit = rec(sl)
                        if hit:
                            if isinstance(st, (ast.For, ast.While)) \
                                    and fld == "body":
                                res.append(st)
                            else:
                                res.extend(stmts[i + 1:])
                            if isinstance(st, (ast.For, ast.While)):
                                res.extend(stmts[i + 1:])
                            return True
            return False
        rec(top)
        return res

    def scan(attr, body):
        pubs = [n for n in region(body) if isinstance(n, ast.Assign) and any(
            isinstance(t, ast.Attribute) and isinstance(t.value, ast.Name)
            and t.value.id == "self" and t.attr == attr for t in n.targets)]
        pubs += [n for n in region(body) if isinstance(n, ast.AnnAssign)
                 and n.value is not None
                 and isinstance(n.target, ast.Attribute)
                 and isinstance(n.target.value, ast.Name)
                 and n.target.value.id == "self" and n.target.attr == attr]
        if not pubs:
            return
        pub = min(pubs, key=lambda n: (n.lineno, n.col_offset))
        alias = {f"self.{attr}"}
        tg = pub.targets if isinstance(pub, ast.Assign) else [pub.target]
        for t in tg:
            if isinstance(t, ast.Name):
                alias.add(t.id)
        if isinstance(pub.value, ast.Name):
            alias.add(pub.value.id)
        after = later(pub, body)
        changes = []
        for st in after:
            for n in ast.walk(st):
                if isinstance(n, ast.Call) and isinstance(
                        n.func, ast.Attribute) and n.func.attr in MUTATORS \
                        and txt(n.func.value) in alias:
                    changes.append(n)
                elif isinstance(n, (ast.Assign, ast.AugAssign, ast.Delete)):
                    tgs = n.targets if not isinstance(n, ast.AugAssign) \
                        else [n.target]
                    for t in tgs:
                        if isinstance(t, ast.Subscript) and txt(
                                t.value) in alias:
                            changes.append(n)
                        elif txt(t) == f"self.{attr}" and n is not pub \
                                and not (isinstance(n, ast.Assign)
                                         and isinstance(n.value, ast.Constant)
                                         and n.value.value is None):
                            changes.append(n)
        out.append((attr, pub, changes))

    stmts = list(func.body)
    for i, st in enumerate(stmts):
        for n in ast.walk(st):
            if isinstance(n, ast.If):
                t = is_none_test(n.test)
                if t and t[1]:
                    scan(t[0], n.body)
                elif t and not t[1] and n is st and any(
                        isinstance(x, ast.Return) for x in n.body):
                    scan(t[0], stmts[i + 1:] + n.orelse)
                elif t and not t[1] and n.orelse:
                    scan(t[0], n.orelse)
    return out


READER_DIR = "dclab/rtdc_dataset/fmt_hdf5/"


def r198(ctx, repo):
    """The HDF5 reader that RTDC_HTTP / RTDC_S3 inherit memoises what it
    lists (feature names, log and table names, lengths, shapes).  Filling
    the memo performs I/O – range requests for a remote file – which can
    fail at any point; a memo that is bound before it is complete keeps the
    partial listing for good, and the remote dataset then exposes fewer /
    other features, logs or tables than the file has.  Rule: after the
    statement that publishes ``self.X`` inside ``if self.X is None:``,
    nothing changes the published object any more."""
    ctrl = ast.parse(
        "def keys(self):\n"
        "    if self._k is None:\n"
        "        self._k = names = []\n"
        "        for key in self.h5['logs']:\n"
        "            names.append(key)\n"
        "    return self._k\n"
        "def good(self):\n"
        "    if self._k is None:\n"
        "        names = []\n"
        "        for key in self.h5['logs']:\n"
        "            names.append(key)\n"
        "        self._k = names\n"
        "    return self._k\n")
    got = [len(_lazy_memo_sites(f)[0][2]) for f in ctrl.body]
    if got != [1, 0]:
        raise AnalysisError(f"R19.8 positive control failed: {got}")
    n = 0
    for rel in repo.files(READER_DIR):
        tree = repo.tree(rel)
        for cls in [c for c in ast.walk(tree) if isinstance(c, ast.ClassDef)]:
            for f in [x for x in cls.body if isinstance(x, ast.FunctionDef)]:
                for attr, pub, changes in _lazy_memo_sites(f):
                    n += 1
                    ok = not changes
                    ctx.ob("R19.8", ok,
                           f"{cls.name}.{f.name}: the memo self.{attr} is "
                           "published complete" if ok else
                           f"{cls.name}.{f.name}: `{short(pub, 50)}` "
                           f"publishes the memo self.{attr}, then "
                           f"`{short(changes[0], 50)}` still changes it: a "
                           "failing range request in between leaves the "
                           "partial listing memoised and the remote dataset "
                           "exposes other features / logs / tables than the "
                           "file has", node=pub,
                           key=f"{rel}::{cls.name}.{f.name}::memo self."
                               f"{attr} published complete")
    ctx.stat("R19.8 lazy memos", n)


def r199(ctx, repo):
    """Every place that derives a TCP port from a parsed URL (the
    reachability probes of http_utils and fmt_s3, the endpoint
    normalisation of fmt_s3) computes: explicit port of the URL if it has
    one, else 80 for http, else 443.  A probe that knocks at another port
    than the one the data are fetched from reports a reachable resource as
    unavailable (the dataset / basin then silently lacks its remote
    features).  The parsed expression is evaluated on the table."""
    import types
    sites = []
    for rel in (HU, S3):
        for fn in [n for n in ast.walk(repo.tree(rel))
                   if isinstance(n, (ast.FunctionDef, ast.AsyncFunctionDef))]:
            for st in ast.walk(fn):
                if not isinstance(st, ast.Assign) or len(st.targets) != 1 \
                        or not isinstance(st.targets[0], ast.Name):
                    continue
                ports = [a for a in ast.walk(st.value)
                         if isinstance(a, ast.Attribute) and a.attr == "port"
                         and isinstance(a.value, ast.Name)]
                if ports and "port" in st.targets[0].id:
                    sites.append((rel, fn, st, ports[0].value.id))
    if len(sites) < 3:
        raise AnalysisError(f"only {len(sites)} port computations found "
                            "(3 confirmed by reading)")
    for rel, fn, st, obj in sites:
        # single-assignment locals the expression reads besides the URL
        # object (e.g. `scheme = urlp.scheme or "https"`)
        need = names_in(st.value) - {obj}
        pre = []
        for nm in sorted(need):
            defs = [a for a in ast.walk(fn) if isinstance(a, ast.Assign)
                    and len(a.targets) == 1 and txt(a.targets[0]) == nm]
            if len(defs) != 1 or names_in(defs[0].value) - {obj}:
                raise AnalysisError(f"{rel}::{fn.name}: `{nm}` read by the "
                                    "port expression is not a single "
                                    "assignment from the parsed URL")
            pre.append((nm, defs[0].value))
        bad = None
        for scheme in ("http", "https", ""):
            for port in (None, 80, 443, 8443):
                env = {obj: types.SimpleNamespace(
                    port=port, scheme=scheme, hostname="host",
                    netloc="host" if port is None else f"host:{port}")}
                try:
                    for nm, val in pre:
                        env[nm] = eval(compile(ast.Expression(val), "<m>",
                                               "eval"), {"__builtins__": {}},
                                       env)
                    got = eval(compile(ast.Expression(st.value), "<m>",
                                       "eval"), {"__builtins__": {"int": int,
                                                                  "str": str}},
                               env)
                except Exception as e:   # noqa: BLE001
                    raise AnalysisError(f"{rel}::{fn.name}: port expression "
                                        f"not evaluable on the table: {e}")
                want = port if port is not None else (
                    80 if scheme == "http" else 443)
                if got != want and bad is None:
                    bad = (scheme, port, got, want)
        ctx.ob("R19.9", bad is None,
               f"`{short(st, 60)}`: explicit port, else 80 for http, else "
               "443 (12 table rows)" if bad is None else
               f"`{short(st, 70)}`: URL with scheme {bad[0]!r} and "
               f"{'no port' if bad[1] is None else 'port ' + str(bad[1])} "
               f"-> port {bad[2]!r}, expected {bad[3]} (operator precedence "
               "of `or` / conditional expression?) – the resource is probed "
               "at another port than it is served from",
               node=st, key=f"{rel}::{fn.name}::port of the URL")


def run(ctx):
    repo = ctx.repo
    ctx.rule("R19.7", "resource identity bound in __init__ only; explicit "
             "argument > URL > environment default", minimum=6)
    r197(ctx, repo)
    ctx.rule("R19.6", "per-instance state; the chunk cache is the only "
             "store of downloaded bytes", minimum=8)
    r196(ctx, repo)
    ctx.rule("R19.1", "range arithmetic of chunks, Range header (both "
             "siblings) and the chunk loop as affine forms", minimum=6)
    ctx.rule("R19.2", "eviction cannot remove the chunk being returned; "
             "chunk 0 pinned; bound inductive", minimum=2)
    ctx.rule("R19.3", "read range clamped to the resource; negative size = "
             "to the end", minimum=1)
    ctx.rule("R19.4", "seek/tell/read position protocol", minimum=2)
    ctx.rule("R19.5", "hand-over of the file object; non-local formats",
             minimum=5)
    r19_eval(ctx, repo)
    r195(ctx, repo)
    ctx.rule("R19.8", "lazy listings of the HDF5 reader are published "
             "complete", minimum=6)
    r198(ctx, repo)
    ctx.rule("R19.9", "the port a URL is probed / addressed at is the port "
             "of the URL, else the default of its scheme – all sibling "
             "sites, evaluated on the scheme x port table", minimum=3)
    r199(ctx, repo)


H5EVENTS = "dclab/rtdc_dataset/fmt_hdf5/events.py"
H5LOGS = "dclab/rtdc_dataset/fmt_hdf5/logs.py"

MUTANTS = [
    ("feature list published before the trace check (F19e returns)",
     H5EVENTS,
     [("            features = sorted(self.h5file[\"events\"].keys())\n",
       "            self._features_list = features = sorted(\n"
       "                self.h5file[\"events\"].keys())\n"),
      ("            self._features_list = features\n", "")], "R19.8"),
    ("log names memo bound first, filled in place (seeded C19_11)", H5LOGS,
     [("            names = []\n", "            self._cache_keys = names = "
       "[]\n"),
      ("            self._cache_keys = names\n", "")], "R19.8"),
    ("internal basins refused for remote formats (seeded C19_9)", CORE,
     ("            elif bdict[\"type\"] == \"file\":\n"
      "                if not self._local_basins_allowed:",
      "            elif bdict[\"type\"] in (\"file\", \"internal\") and "
      "not self._local_basins_allowed:\n"
      "                continue\n"
      "            elif bdict[\"type\"] == \"file\":\n"
      "                if not self._local_basins_allowed:"), "R19.5"),
    ("redirect target pinned as url (seeded C19_7)", HU,
     ('            self._len = int(resp.headers["content-length"])\n',
      '            self._len = int(resp.headers["content-length"])\n'
      '            self.url = resp.url\n'), "R19.7"),
    ("environment endpoint overrides the URL's (seeded C19_8)", S3,
     ("                          or get_endpoint_url(url)\n"
      "                          or S3_ENDPOINT_URL),",
      "                          or S3_ENDPOINT_URL\n"
      "                          or get_endpoint_url(url)),"), "R19.7"),
    ("environment credentials override the caller's", S3,
     ("            access_key_id=(access_key_id\n"
      "                           or S3_ACCESS_KEY_ID\n",
      "            access_key_id=(S3_ACCESS_KEY_ID\n"
      "                           or access_key_id\n"), "R19.7"),
    ("chunk cache as class attribute (seeded C19_5)", HU,
     [("        self.cache = {}\n", ""),
      ("class HTTPFile(io.IOBase):\n",
       "class HTTPFile(io.IOBase):\n    cache = {}\n")], "R19.6"),
    ("s3 download memoised (seeded C19_6)", S3,
     ("    def download_range(self, start, stop):\n"
      "        \"\"\"Download bytes given by the range (`start`, `stop`)\n\n"
      "        `stop` is not inclusive (In the HTTP range request it normally "
      "is).\n        \"\"\"\n        stream = self.s3_object",
      "    @functools.lru_cache(maxsize=None)\n"
      "    def download_range(self, start, stop):\n"
      "        stream = self.s3_object"), "R19.6"),
    ("s3: empty-range short-cut off by one (seeded C19_3)", S3,
     ('        stream = self.s3_object.get(',
      '        last = stop - 1\n        if last <= start:\n'
      '            return b""\n        stream = self.s3_object.get('),
     "R19.1"),
    ("range header inclusive stop", HU,
     ('headers={"Range": f"bytes={start}-{stop-1}"}',
      'headers={"Range": f"bytes={start}-{stop}"}'), "R19.1"),
    ("s3 range header off by one", S3,
     ('Range=f"bytes={start}-{stop-1}"', 'Range=f"bytes={start}-{stop}"'),
     "R19.1"),
    ("s3 range header start+1", S3,
     ('Range=f"bytes={start}-{stop-1}"', 'Range=f"bytes={start+1}-{stop-1}"'),
     "R19.1"),
    ("chunk start off", HU,
     ("            start = index*self._chunk_size\n",
      "            start = index*self._chunk_size + 1\n"), "R19.1"),
    ("chunk end unclamped", HU,
     ("stop = min((index+1)*self._chunk_size, self.length)",
      "stop = (index+1)*self._chunk_size"), "R19.1"),
    ("chunk end short", HU,
     ("stop = min((index+1)*self._chunk_size, self.length)",
      "stop = min((index+1)*self._chunk_size - 1, self.length)"), "R19.1"),
    ("boundary test strict", HU,
     ("elif chunk_start + toread >= self._chunk_size:",
      "elif chunk_start + toread > self._chunk_size:"), "R19.1"),
    ("last chunk index excluded", HU,
     ("chunk_stop = np.int64(stop // self._chunk_size + 1)",
      "chunk_stop = np.int64(stop // self._chunk_size)"), "R19.1"),
    ("offset from start not pos", HU,
     ("            chunk_start = pos % self._chunk_size\n",
      "            chunk_start = start % self._chunk_size\n"), "R19.1"),
    ("pos not advanced", HU,
     ("            pos += chunks_read\n", ""), "R19.1"),
    ("partial chunk end from pos", HU,
     ("                chunk_end = stop % self._chunk_size\n",
      "                chunk_end = (stop - 1) % self._chunk_size\n"),
     "R19.1"),
    ("wrong chunk fetched", HU,
     ("chunk = self.get_cache_chunk(chunk_index)",
      "chunk = self.get_cache_chunk(chunk_start)"), "R19.1"),
    ("eviction before binding (F19a returns)", HU,
     [("        chunk = self.cache[index]\n", ""),
      ("        return chunk\n", "        return self.cache[index]\n")],
     "R19."),
    ("eviction also skips the requested chunk (seeded C19_2)", HU,
     ("                if kk != 0:  # always keep the first chunk\n",
      "                if kk != 0 and kk != index:\n"), "R19.2"),
    ("first chunk unpinned", HU,
     ("                if kk != 0:  # always keep the first chunk\n"
      "                    self.cache.pop(kk)\n"
      "                    break\n",
      "                if True:\n"
      "                    self.cache.pop(kk)\n"
      "                    break\n"), "R19.2"),
    ("eviction loop without break", HU,
     ("                    self.cache.pop(kk)\n                    break\n",
      "                    self.cache.pop(kk)\n"), "R19."),
    ("size test removed", HU,
     ("        if len(self.cache) > self._keep_chunks:\n",
      "        if len(self.cache) > self._keep_chunks + 100:\n"), "R19.2"),
    ("read unclamped (F19c returns)", HU,
     ("            stop = min(self._pos + size, self.length)\n",
      "            stop = self._pos + size\n"), "R19.3"),
    ("negative size not to end (F19b returns)", HU,
     ("        if size is None or size < 0:\n"
      "            # read until the end of the file\n"
      "            stop = self.length\n"
      "        else:\n"
      "            # never read beyond the end of the file\n"
      "            stop = min(self._pos + size, self.length)\n",
      "        stop = min(self._pos + size, self.length)\n"), "R19.3"),
    ("position advanced by requested size", HU,
     ("        self._pos += len(data)\n", "        self._pos += size\n"),
     "R19.4"),
    ("seek end ignores offset", HU,
     ("            self._pos = self.length + offset\n",
      "            self._pos = self.length\n"), "R19.4"),
    ("seek cur absolute", HU,
     ("            self._pos += offset\n", "            self._pos = offset\n"),
     "R19.4"),
    ("http hands over url", HT,
     ("            h5path=self._fhttp,\n", "            h5path=url,\n"),
     "R19.5"),
    ("local basins for all hdf5 subclasses", H5,
     ('self._local_basins_allowed = True if self.format == "hdf5" else False',
      'self._local_basins_allowed = True'), "R19.5"),
]

TWINS = [
    ("log names: comprehension, published at once", H5LOGS,
     ("            names = []\n"
      "            if \"logs\" in self.h5file:\n"
      "                for key in self.h5file[\"logs\"]:\n"
      "                    if self.h5file[\"logs\"][key].size:\n"
      "                        names.append(key)\n"
      "            self._cache_keys = names\n",
      "            logs = self.h5file[\"logs\"] if \"logs\" in self.h5file "
      "else {}\n"
      "            self._cache_keys = [k for k in logs if logs[k].size]\n")),
    ("immutable defaults declared at class level", HU,
     [("        self._len = None\n        self._etag = None\n"
       "        self._pos = 0\n", ""),
      ("class HTTPFile(io.IOBase):\n",
       "class HTTPFile(io.IOBase):\n    _len = None\n    _etag = None\n"
       "    _pos = 0\n")]),
    ("s3: correct empty-range short-cut", S3,
     ('        stream = self.s3_object.get(',
      '        last = stop - 1\n        if last < start:\n'
      '            return b""\n        stream = self.s3_object.get(')),
    ("range header through locals (refactor C19/2)", HU,
     ('        resp = self.session.get(self.url,\n'
      '                                headers={"Range": '
      'f"bytes={start}-{stop-1}"}\n'
      '                                )\n',
      '        last_byte = stop - 1\n'
      '        range_header = {"Range": f"bytes={start}-{last_byte}"}\n'
      '        resp = self.session.get(self.url, headers=range_header)\n')),
    ("chunk index range extracted (refactor C19/4)", HU,
     [("        chunk_start = np.int64(start // self._chunk_size)\n"
       "        chunk_stop = np.int64(stop // self._chunk_size + 1)\n"
       "        data = b\"\"\n",
       "        data = b\"\"\n"),
      ("        for chunk_index in range(chunk_start, chunk_stop):\n",
       "        for chunk_index in self._chunk_indices(start, stop):\n"),
      ("    def seek(self, offset, whence=os.SEEK_SET):",
       "    def _chunk_indices(self, start, stop):\n"
       "        chunk_start = np.int64(start // self._chunk_size)\n"
       "        chunk_stop = np.int64(stop // self._chunk_size + 1)\n"
       "        return range(chunk_start, chunk_stop)\n\n"
       "    def seek(self, offset, whence=os.SEEK_SET):")]),
    ("last chunk index commuted (refactor C19/5)", HU,
     ("chunk_stop = np.int64(stop // self._chunk_size + 1)",
      "chunk_stop = np.int64(1 + stop // self._chunk_size)")),
    ("chunk start commuted", HU,
     ("            start = index*self._chunk_size\n",
      "            start = self._chunk_size * index\n")),
    ("chunk end min args swapped", HU,
     ("stop = min((index+1)*self._chunk_size, self.length)",
      "stop = min(self.length, self._chunk_size * (index + 1))")),
    ("boundary test mirrored", HU,
     ("elif chunk_start + toread >= self._chunk_size:",
      "elif self._chunk_size <= toread + chunk_start:")),
    ("read: early binding of length", HU,
     ("            stop = min(self._pos + size, self.length)\n",
      "            stop = min(self.length, size + self._pos)\n")),
]
