"""C19 – remote range-cached access returns the bytes of the resource.

R19.1 range arithmetic as affine forms: chunk k covers [k·c, min((k+1)·c,
      length)); the Range header is ``bytes={start}-{stop-1}`` in both
      sibling implementations; read_range_cached iterates chunk indices
      start//c … stop//c and slices with pos % c / stop % c, consuming the
      same amount from `toread` that it adds to `pos`.
R19.2 eviction safety: the chunk returned is bound before the eviction (or
      the eviction skips it); chunk 0 pinned; one insertion and at most one
      eviction per call after the size test.
R19.3 bounded read: the range handed to read_range_cached is clamped to the
      resource length; a negative/None size means "to the end".
R19.4 position protocol: seek handles SET/CUR/END, tell returns the
      position, read advances it by the number of bytes returned.
R19.7 identity: url / session / s3 object are bound in __init__ only; in
      fmt_s3 an explicit argument beats the URL, the URL beats the
      environment default.
R19.5 hand-over: RTDC_HTTP / RTDC_S3 pass their file object as h5path to
      RTDC_HDF5.__init__ and are not of format "hdf5".
"""
from __future__ import annotations

import ast

from ..absval import Poly, Rat, ratfun
from ..normalize import canon, expand_locals, inline_helpers
from ..core import (AnalysisError, call_name, const_str, dotted, find_calls,
                    is_self_attr, kwarg, last_attr, names_in, short, txt,
                    walk)

ASSUMPTIONS = [
    "NOT decided: byte equality for arbitrary access sequences (needs a "
    "server and execution); equality of a dataset opened over HTTP with the "
    "local file; server behaviour for range requests.",
    "The chunk loop of read_range_cached is decided piecewise (index range, "
    "offsets, consumed amounts as affine forms), not by executing it.",
]

HU = "dclab/http_utils.py"
S3 = "dclab/rtdc_dataset/fmt_s3.py"
HT = "dclab/rtdc_dataset/fmt_http.py"
H5 = "dclab/rtdc_dataset/fmt_hdf5/base.py"
CORE = "dclab/rtdc_dataset/core.py"


def _sym_resolver(mapping):
    """resolve(node) for ratfun: text of node -> symbol"""
    def res(node):
        t = txt(node)
        if t in mapping:
            return mapping[t]
        if isinstance(node, ast.Call) and call_name(node) in (
                "np.int64", "int", "np.uint64"):
            return None if not node.args else ratfun(node.args[0], res)
        if isinstance(node, ast.Name):
            return node.id
        return None
    return res


def _namedtuple_fields(repo, rel, name):
    """field names of ``name = collections.namedtuple("..", [...])`` at
    module level of `rel`, else None"""
    v = repo.module_assign(rel, name, missing_ok=True) if name else None
    if isinstance(v, ast.Call) and (call_name(v) or "").split(".")[-1] == \
            "namedtuple" and len(v.args) >= 2:
        f = v.args[1]
        if isinstance(f, (ast.List, ast.Tuple)) and all(
                const_str(x) for x in f.elts):
            return [const_str(x) for x in f.elts]
        if const_str(f):
            return const_str(f).replace(",", " ").split()
    return None


def _same(a, b):
    try:
        return a.same(b)
    except Exception:
        return False


def _sole_assign(func, name):
    outs = [n for n in walk(func) if isinstance(n, ast.Assign)
            and len(n.targets) == 1 and isinstance(n.targets[0], ast.Name)
            and n.targets[0].id == name]
    return outs


def r191(ctx, repo):
    gc = canon(repo, HU, repo.func(HU, "HTTPFile.get_cache_chunk"),
               keep=("download_range",))
    idx = gc.args.args[1].arg
    res = _sym_resolver({"self._chunk_size": "c", "self.length": "L",
                         idx: "k"})
    k, c = ratfun(ast.parse("k").body[0].value, lambda n: None if not
                  isinstance(n, ast.Name) else n.id), None
    K = Rat.__new__(Rat)
    from ..absval import Poly
    K = Rat(Poly.sym("k"))
    C = Rat(Poly.sym("c"))
    ONE = Rat(Poly.const(1))
    # call of download_range(start, stop)
    dl = find_calls(gc, attr="download_range")
    if len(dl) != 1:
        raise AnalysisError("get_cache_chunk: download_range call lost")
    a_start, a_stop = dl[0].args[0], dl[0].args[1]

    def value_of(e):
        if isinstance(e, ast.Name):
            d = _sole_assign(gc, e.id)
            if len(d) == 1:
                return value_of(d[0].value) if isinstance(
                    d[0].value, (ast.Name, ast.Attribute)) else d[0].value
        if isinstance(e, ast.Attribute) and isinstance(e.value, ast.Name):
            # field of a module-level namedtuple built from a local
            d = _sole_assign(gc, e.value.id)
            if len(d) == 1 and isinstance(d[0].value, ast.Call) \
                    and isinstance(d[0].value.func, ast.Name):
                fields = _namedtuple_fields(repo, HU, d[0].value.func.id)
                if fields and e.attr in fields:
                    i = fields.index(e.attr)
                    c_ = d[0].value
                    if i < len(c_.args):
                        return value_of(c_.args[i])
                    for kw in c_.keywords:
                        if kw.arg == e.attr:
                            return value_of(kw.value)
        if isinstance(e, ast.Subscript) and isinstance(e.value, ast.Name) \
                and isinstance(e.slice, ast.Constant) and isinstance(
                    e.slice.value, int):
            d = _sole_assign(gc, e.value.id)
            if len(d) == 1 and isinstance(d[0].value, (ast.Tuple, ast.Call)):
                els = d[0].value.elts if isinstance(
                    d[0].value, ast.Tuple) else (
                    d[0].value.args if _namedtuple_fields(
                        repo, HU, getattr(d[0].value.func, "id", "")) else [])
                if 0 <= e.slice.value < len(els):
                    return value_of(els[e.slice.value])
        return e
    vs, ve = value_of(a_start), value_of(a_stop)
    ok = False
    try:
        ok = _same(ratfun(vs, res), K * C)
    except AnalysisError:
        ok = False
    ctx.ob("R19.1", ok, "chunk k starts at k·chunk_size" if ok else
           f"chunk start is `{short(vs, 40)}`, not index·chunk_size",
           node=dl[0], label="chunk start")
    ok = False
    if isinstance(ve, ast.Call) and call_name(ve) == "min" \
            and len(ve.args) == 2:
        forms = []
        for a in ve.args:
            try:
                forms.append(ratfun(a, res))
            except AnalysisError:
                forms.append(None)
        want_end = (K + ONE) * C
        L = Rat(Poly.sym("L"))
        ok = any(f is not None and _same(f, want_end) for f in forms) \
            and any(f is not None and _same(f, L) for f in forms)
    ctx.ob("R19.1", ok, "chunk k ends at min((k+1)·chunk_size, length)"
           if ok else f"chunk end is `{short(ve, 50)}`, not "
           f"min((index+1)·chunk_size, length)", node=dl[0],
           label="chunk end clamped")
    # store under the requested index
    st = [n for n in walk(gc) if isinstance(n, ast.Assign)
          and isinstance(n.targets[0], ast.Subscript)
          and is_self_attr(n.targets[0].value, "cache")]
    ok = len(st) == 1 and txt(st[0].targets[0].slice) == idx and any(
        c is dl[0] for c in ast.walk(st[0].value))
    ctx.ob("R19.1", ok, "the downloaded range is stored under its chunk "
           "index" if ok else "downloaded chunk stored under another key",
           node=st[0] if st else gc, label="chunk stored under index")
    # Range header in both siblings
    for rel, q in ((HU, "HTTPFile.download_range"),
                   (S3, "S3File.download_range")):
        f = canon(repo, rel, repo.func(rel, q))
        a0, a1 = f.args.args[1].arg, f.args.args[2].arg
        js = [n for n in walk(f) if isinstance(n, ast.JoinedStr)
              and any(isinstance(v, ast.Constant) and "bytes=" in str(v.value)
                      for v in n.values)]
        ok = False
        why = "Range header string not found"
        if js:
            vals = js[0].values
            consts = [v.value for v in vals if isinstance(v, ast.Constant)]
            fmts = [v.value for v in vals
                    if isinstance(v, ast.FormattedValue)]
            r2 = _sym_resolver({})
            try:
                first = ratfun(ast.parse(expand_locals(f, fmts[0]),
                                         mode="eval").body, r2)
                second = ratfun(ast.parse(expand_locals(f, fmts[1]),
                                          mode="eval").body, r2)
                S = Rat(Poly.sym(a0))
                E = Rat(Poly.sym(a1))
                ok = (consts == ["bytes=", "-"] and len(fmts) == 2
                      and _same(first, S) and _same(second, E - ONE))
                why = (f"header is bytes={{{expand_locals(f, fmts[0])}}}-"
                       f"{{{expand_locals(f, fmts[1])}}}")
            except (AnalysisError, IndexError):
                why = "Range header has an unexpected shape"
        ctx.ob("R19.1", ok,
               f"{q}: exclusive stop is sent as inclusive `stop-1`" if ok
               else f"{q}: {why} – expected bytes={{start}}-{{stop-1}}",
               node=js[0] if js else f, label="range header")
        # a short-cut that returns without downloading may only apply to
        # empty ranges (stop <= start): evaluated on small integer pairs
        from ..absval import eval_pred
        from ..cfg import CFG, branch_facts
        rets = [n for n in walk(f) if isinstance(n, ast.Return)
                and isinstance(n.value, ast.Constant)
                and isinstance(n.value.value, (bytes, str))]
        for r in rets:
            conds = []
            n = r
            while getattr(n, "parent", None) is not None and n.parent is not f:
                par = n.parent
                if isinstance(par, ast.If):
                    conds.append((par.test, n in par.body))
                n = par
            bad = None
            if not conds:
                bad = "unconditional"
            for st_ in range(0, 4):
                for sp_ in range(0, 5):
                    if bad:
                        break
                    env = {a0: st_, a1: sp_}
                    try:
                        taken = all(bool(eval_pred(ast.parse(
                            expand_locals(f, t), mode="eval").body, env))
                            == pol for t, pol in conds)
                    except AnalysisError:
                        raise AnalysisError(
                            f"{q}: cannot evaluate the short-cut condition "
                            f"`{short(conds[0][0], 40)}`")
                    if taken and sp_ > st_:
                        bad = f"start={st_}, stop={sp_}"
            ctx.ob("R19.1", bad is None,
                   f"{q}: the no-download short-cut applies to empty ranges "
                   f"only" if bad is None else
                   f"{q}: returns {r.value.value!r} without downloading for "
                   f"the non-empty range {bad}", node=r,
                   label="short-cut only for empty ranges")
    # read_range_cached
    rr = canon(repo, HU, repo.func(HU, "HTTPFile.read_range_cached"),
               keep=("get_cache_chunk", "download_range"))
    p_start, p_stop = rr.args.args[1].arg, rr.args.args[2].arg
    loops = [n for n in walk(rr) if isinstance(n, ast.For)
             and isinstance(n.iter, ast.Call) and call_name(n.iter) == "range"]
    if len(loops) != 1:
        raise AnalysisError("read_range_cached: chunk loop lost")
    lp = loops[0]
    lo, hi = lp.iter.args[0], lp.iter.args[1]

    def floordiv_of(e, num):
        """`e` is `num // chunk_size` + const (in any association, through
        single-assignment locals defined before the loop and np.int64/int
        wrappers) -> the constant, else None"""
        class Pre(ast.NodeTransformer):
            def visit_Name(self, node):
                if isinstance(node.ctx, ast.Load):
                    inside = {id(x) for x in ast.walk(lp)}
                    d = [x for x in _sole_assign(rr, node.id)
                         if id(x) not in inside and x.lineno <= lp.lineno]
                    if len(d) == 1:
                        return self.visit(ast.parse(
                            "(" + txt(d[0].value) + ")", mode="eval").body)
                return node
        cur = Pre().visit(ast.parse(txt(e), mode="eval").body)

        def res(node):
            if isinstance(node, ast.Call) and call_name(node) in (
                    "np.int64", "int", "np.uint64") and node.args:
                return ratfun(node.args[0], res)
            if isinstance(node, ast.BinOp) and isinstance(
                    node.op, ast.FloorDiv):
                if txt(node.left) == num and txt(
                        node.right) == "self._chunk_size":
                    return "FD"
                return "FD_other_" + txt(node)
            if isinstance(node, ast.Name):
                return node.id
            return None
        try:
            r = ratfun(cur, res)
        except AnalysisError:
            return None
        diff = r - Rat(Poly.sym("FD"))
        m = diff.monomial() if not diff.n.is_zero() else ({}, 0)
        if m is None:
            return None
        exps, coef = m
        if exps:
            return None
        return int(coef) if coef == int(coef) else None
    a = floordiv_of(lo, p_start)
    b = floordiv_of(hi, p_stop)
    ctx.ob("R19.1", a == 0, "first chunk index is start // chunk_size"
           if a == 0 else f"first chunk index is `{short(lo, 30)}`",
           node=lp, label="first chunk index")
    ctx.ob("R19.1", b == 1, "last chunk index is stop // chunk_size "
           "(range end exclusive: +1)" if b == 1 else
           f"chunk index range ends at `{short(hi, 30)}` – expected "
           f"stop // chunk_size + 1", node=lp, label="last chunk index")
    # offsets
    body_assign = {n.targets[0].id: n.value for n in walk(lp)
                   if isinstance(n, ast.Assign)
                   and isinstance(n.targets[0], ast.Name)}
    pos_names = [n.targets[0].id for n in walk(rr) if isinstance(
        n, ast.Assign) and isinstance(n.targets[0], ast.Name)
        and txt(n.value) == p_start and n.lineno < lp.lineno]
    toread_names = [n.targets[0].id for n in walk(rr) if isinstance(
        n, ast.Assign) and isinstance(n.targets[0], ast.Name)
        and txt(n.value) == f"{p_stop} - {p_start}"]
    if not pos_names or not toread_names:
        raise AnalysisError("read_range_cached: pos/toread bindings lost")
    pos, toread = pos_names[0], toread_names[0]
    off = [k for k, v in body_assign.items() if isinstance(v, ast.BinOp)
           and isinstance(v.op, ast.Mod) and txt(v.left) == pos
           and txt(v.right) == "self._chunk_size"]
    ctx.ob("R19.1", len(off) == 1, "offset inside a chunk is pos % "
           "chunk_size" if len(off) == 1 else
           "offset inside a chunk is not pos % chunk_size", node=lp,
           label="in-chunk offset")
    if len(off) != 1:
        return
    off = off[0]
    # the branch that takes the rest of the chunk
    ifs = [n for n in walk(lp) if isinstance(n, ast.If)]
    rest = None
    for n in ifs:
        for cand in [n]:
            t = cand.test
            if isinstance(t, ast.Compare) and len(t.ops) == 1 \
                    and names_in(t) >= {off, toread}:
                rest = cand
    if rest is None:
        raise AnalysisError("read_range_cached: rest-of-chunk branch lost")
    t = rest.test
    res3 = _sym_resolver({"self._chunk_size": "c"})
    try:
        lhs = ratfun(t.left, res3)
        rhs = ratfun(t.comparators[0], res3)
        want_l = Rat(Poly.sym(off)) + Rat(Poly.sym(toread))
        ok = (_same(lhs, want_l) and _same(rhs, C) and isinstance(
            t.ops[0], ast.GtE)) or (
            _same(rhs, want_l) and _same(lhs, C) and isinstance(
                t.ops[0], ast.LtE))
    except AnalysisError:
        ok = False
    ctx.ob("R19.1", ok, "the rest of the chunk is taken when offset + "
           "remaining >= chunk_size" if ok else
           f"boundary test is `{short(t, 50)}` – expected offset + remaining "
           f">= chunk_size (a request ending exactly on a chunk boundary "
           f"must take the rest of the chunk)", node=rest,
           label="chunk boundary test")

    accs = set()

    def branch_facts_of(body):
        sl = None
        consumed = None
        for n in body:
            for x in ast.walk(n):
                if isinstance(x, ast.AugAssign) and isinstance(
                        x.op, ast.Add) and isinstance(x.value, ast.Subscript):
                    sl = x.value.slice
                    accs.add(("concat", txt(x.target)))
                elif isinstance(x, ast.Call) and last_attr(x) == "append" \
                        and len(x.args) == 1 and isinstance(
                            x.args[0], ast.Subscript):
                    # pieces collected in a list, joined at the end
                    sl = x.args[0].slice
                    accs.add(("list", txt(x.func.value)))
                elif isinstance(x, ast.Assign) and isinstance(
                        x.value, ast.BinOp) and isinstance(
                        x.value.op, ast.Add) and isinstance(
                        x.value.right, ast.Subscript) and txt(
                        x.value.left) == txt(x.targets[0]):
                    sl = x.value.right.slice
                    accs.add(("concat", txt(x.targets[0])))
            if isinstance(n, ast.Assign) and isinstance(
                    n.targets[0], ast.Name) and isinstance(
                    n.value, ast.BinOp) and isinstance(n.value.op, ast.Sub):
                consumed = n
        return sl, consumed
    sl1, cons1 = branch_facts_of(rest.body)
    ok = (isinstance(sl1, ast.Slice) and txt(sl1.lower) == off
          and sl1.upper is None and cons1 is not None
          and txt(cons1.value) == f"self._chunk_size - {off}")
    ctx.ob("R19.1", ok, "rest-of-chunk branch takes chunk[offset:] and "
           "consumes chunk_size - offset" if ok else
           "rest-of-chunk branch slices or counts differently", node=rest,
           label="rest-of-chunk slice")
    sl2, cons2 = branch_facts_of(rest.orelse)
    end_names = [k for k, v in body_assign.items() if isinstance(
        v, ast.BinOp) and isinstance(v.op, ast.Mod) and txt(
        v.left) == p_stop and txt(v.right) == "self._chunk_size"]
    ok = (isinstance(sl2, ast.Slice) and txt(sl2.lower) == off
          and end_names and txt(sl2.upper) == end_names[0]
          and cons2 is not None
          and txt(cons2.value) == f"{end_names[0]} - {off}")
    ctx.ob("R19.1", bool(ok), "final partial chunk takes "
           "chunk[offset:stop % chunk_size] and consumes the difference"
           if ok else "final partial chunk slices or counts differently",
           node=rest, label="partial-chunk slice")
    # what is returned is the concatenation of the pieces
    rets = [n for n in walk(rr) if isinstance(n, ast.Return)]
    ok = len(accs) == 1 and bool(rets)
    for r_ in rets:
        kind, nm = list(accs)[0] if len(accs) == 1 else (None, None)
        v = r_.value
        if kind == "concat":
            ok = ok and v is not None and txt(v) == nm
        elif kind == "list":
            ok = ok and isinstance(v, ast.Call) and last_attr(v) == "join" \
                and len(v.args) == 1 and txt(v.args[0]) == nm \
                and isinstance(v.func.value, ast.Constant) \
                and v.func.value.value == b""
        else:
            ok = False
    ctx.ob("R19.1", bool(ok), "the result is the concatenation of the pieces "
           "in loop order" if ok else
           "the pieces taken from the chunks are not what is returned",
           node=rets[0] if rets else rr, label="result is concatenation")
    cname = cons1.targets[0].id if cons1 is not None else None
    upd = {txt(n.target): (type(n.op).__name__, txt(n.value))
           for n in walk(lp) if isinstance(n, ast.AugAssign)
           and isinstance(n.target, ast.Name)}
    ok = upd.get(toread) == ("Sub", cname) and upd.get(pos) == ("Add", cname)
    ctx.ob("R19.1", ok, "remaining count and position move by the same "
           "amount per chunk" if ok else
           "remaining count / position are not updated consistently",
           node=lp, label="consistent progress")
    # every chunk comes through the cache
    src = [n for n in walk(lp) if isinstance(n, ast.Assign) and isinstance(
        n.value, ast.Call) and last_attr(n.value) == "get_cache_chunk"]
    ok = len(src) == 1 and txt(src[0].value.args[0]) == txt(lp.target)
    ctx.ob("R19.1", ok, "each chunk is obtained through get_cache_chunk("
           "loop index)" if ok else "chunk not obtained through the cache "
           "with the loop index", node=lp, label="chunk via cache")


def r192(ctx, repo):
    gc = repo.func(HU, "HTTPFile.get_cache_chunk")
    idx = gc.args.args[1].arg
    rets = [n for n in walk(gc) if isinstance(n, ast.Return)]
    evict = [c for c in find_calls(gc, attr="pop")
             if is_self_attr(c.func.value, "cache")] + [
        n for n in walk(gc) if isinstance(n, ast.Delete)
        and "self.cache" in txt(n)]
    if not rets or not evict:
        raise AnalysisError("get_cache_chunk: return / eviction lost")
    ev = evict[0]
    ev_line = ev.lineno
    for r in rets:
        v = r.value
        safe = False
        how = ""
        if isinstance(v, ast.Name):
            defs = _sole_assign(gc, v.id)
            if defs and all(d.lineno < ev_line for d in defs) and all(
                    isinstance(d.value, ast.Subscript) and is_self_attr(
                        d.value.value, "cache")
                    and txt(d.value.slice) == idx for d in defs):
                safe = True
                how = "the chunk is bound before the eviction"
        ctx.ob("R19.2", safe, how if safe else
               "`return self.cache[index]` after an eviction that may remove "
               "`index` (keep_chunks=1: KeyError)", node=r,
               label="returned chunk survives eviction")
    # the eviction may exclude nothing but chunk 0: excluding the requested
    # chunk as well leaves nothing to evict for keep_chunks=1 and the cache
    # then holds more chunks than configured, for good
    def victim_conditions():
        """comparisons that restrict which key is evicted, with the name of
        the candidate-key variable: [(Compare, var)]"""
        arg = None
        if isinstance(ev, ast.Call) and ev.args:
            arg = ev.args[0]
        elif isinstance(ev, ast.Delete) and isinstance(
                ev.targets[0], ast.Subscript):
            arg = ev.targets[0].slice
        if arg is None:
            raise AnalysisError("get_cache_chunk: eviction victim not found")

        def over_cache(it):
            t = txt(it)
            return t in ("self.cache", "self.cache.keys()",
                         "list(self.cache)", "list(self.cache.keys())",
                         "tuple(self.cache)", "tuple(self.cache.keys())")
        if isinstance(arg, ast.Name):
            # loop variable of a for-loop over the cache keys
            n_ = ev
            conds = []
            while n_ is not None and not isinstance(n_, ast.FunctionDef):
                if isinstance(n_, ast.If):
                    conds += [(c_, arg.id) for c_ in ast.walk(n_.test)
                              if isinstance(c_, ast.Compare)
                              and arg.id in names_in(c_)]
                if isinstance(n_, ast.For) and isinstance(
                        n_.target, ast.Name) and n_.target.id == arg.id:
                    if not over_cache(n_.iter):
                        raise AnalysisError(
                            "get_cache_chunk: eviction loop does not iterate "
                            "the cache keys")
                    return conds
                n_ = getattr(n_, "parent", None)
            # a local bound once to next(iter(...)) / <list>[0]
            d_ = _sole_assign(gc, arg.id)
            if len(d_) == 1:
                return from_expr(d_[0].value)
            raise AnalysisError("get_cache_chunk: eviction victim "
                                f"`{arg.id}` not understood")
        return from_expr(arg)

    def from_expr(e):
        # <candidates>[0] / next(iter(<candidates>)) with candidates a
        # comprehension over the cache keys (directly or through a local)
        cand = None
        if isinstance(e, ast.Subscript) and txt(e.slice) == "0":
            cand = e.value
        elif isinstance(e, ast.Call) and call_name(e) == "next" and e.args:
            cand = e.args[0]
            if isinstance(cand, ast.Call) and call_name(cand) == "iter" \
                    and cand.args:
                cand = cand.args[0]
        if isinstance(cand, ast.Name):
            d_ = _sole_assign(gc, cand.id)
            cand = d_[0].value if len(d_) == 1 else None
        if isinstance(cand, (ast.ListComp, ast.GeneratorExp)) and len(
                cand.generators) == 1:
            g = cand.generators[0]
            if isinstance(g.target, ast.Name) and txt(cand.elt) == \
                    g.target.id:
                t = txt(g.iter)
                if t in ("self.cache", "self.cache.keys()"):
                    return [(c_, g.target.id) for i_ in g.ifs
                            for c_ in ast.walk(i_)
                            if isinstance(c_, ast.Compare)]
        raise AnalysisError("get_cache_chunk: eviction victim "
                            f"`{short(e, 40)}` not understood")
    conds = victim_conditions()
    excl = []
    for cmpn, var in conds:
        if len(cmpn.ops) != 1:
            raise AnalysisError("get_cache_chunk: chained victim condition")
        a_, b_ = cmpn.left, cmpn.comparators[0]
        other = b_ if txt(a_) == var else a_ if txt(b_) == var else None
        if other is None:
            continue
        if isinstance(cmpn.ops[0], (ast.NotEq, ast.NotIn)):
            excl.append(txt(other))
        elif isinstance(cmpn.ops[0], ast.Gt) and txt(b_) == "0" \
                and txt(a_) == var:
            excl.append("0")        # keys are non-negative chunk indices
        elif isinstance(cmpn.ops[0], ast.Lt) and txt(a_) == "0" \
                and txt(b_) == var:
            excl.append("0")
    extra = [e for e in excl if e not in ("0", "(0,)", "[0]", "{0}")]
    ctx.ob("R19.2", not extra,
           "only chunk 0 is exempt from eviction (the size bound can always "
           "be restored)" if not extra else
           f"chunks {extra} are exempt from eviction besides chunk 0: with "
           f"keep_chunks=1 nothing can be evicted and the cache holds more "
           f"chunks than configured", node=ev, label="eviction exemptions")
    # chunk 0 pinned
    pinned = any(e in ("0", "(0,)", "[0]", "{0}") for e in excl)
    ctx.ob("R19.2", pinned, "chunk 0 (the HDF5 superblock) is never evicted"
           if pinned else "chunk 0 can be evicted", node=ev,
           label="first chunk pinned")
    # size test against keep_chunks, after the insertion
    tests = [n for n in walk(gc) if isinstance(n, ast.If)
             and "self._keep_chunks" in txt(n.test)
             and "len(self.cache)" in txt(n.test)]
    ins = [n for n in walk(gc) if isinstance(n, ast.Assign)
           and isinstance(n.targets[0], ast.Subscript)
           and is_self_attr(n.targets[0].value, "cache")]
    ok = bool(tests) and bool(ins) and ins[0].lineno < tests[0].lineno \
        and isinstance(tests[0].test, ast.Compare) and isinstance(
        tests[0].test.ops[0], ast.Gt) and txt(
        tests[0].test.left) == "len(self.cache)" and txt(
        tests[0].test.comparators[0]) == "self._keep_chunks"
    ctx.ob("R19.2", bool(ok), "the size test `len(cache) > keep_chunks` "
           "follows the single insertion (bound is inductive)" if ok else
           "cache size is not tested against keep_chunks after inserting",
           node=tests[0] if tests else gc, label="size test after insert")
    ctx.ob("R19.2", len(ins) == 1, "one insertion per call" if len(ins) == 1
           else f"{len(ins)} insertions per call", node=gc,
           label="single insertion", nontrivial=False)
    # the eviction loop stops after one removal
    lp = None
    n = ev
    while n is not None and not isinstance(n, ast.FunctionDef):
        if isinstance(n, (ast.For, ast.While)):
            lp = n
            break
        n = getattr(n, "parent", None)
    if lp is not None:
        brk = False
        st = ev
        while not isinstance(st, ast.stmt):
            st = st.parent
        blk = st.parent.body if hasattr(st.parent, "body") else []
        if st in blk:
            i = blk.index(st)
            brk = any(isinstance(x, (ast.Break, ast.Return))
                      for x in blk[i + 1:i + 2])
        ctx.ob("R19.2", brk, "the eviction loop stops after one removal "
               "(no mutation while iterating further)" if brk else
               "eviction keeps iterating the dict it just modified",
               node=lp, label="evict one then stop")


def r193(ctx, repo):
    rd = canon(repo, HU, repo.func(HU, "HTTPFile.read"),
               keep=("read_range_cached",))
    allargs = [a.arg for a in rd.args.posonlyargs + rd.args.args]
    if len(allargs) < 2:
        raise AnalysisError("HTTPFile.read: size parameter lost")
    size = allargs[1]
    calls = find_calls(rd, attr="read_range_cached")
    if len(calls) != 1:
        raise AnalysisError("HTTPFile.read: read_range_cached call lost")
    c = calls[0]
    stop = c.args[1]

    def defs_of(e):
        if isinstance(e, ast.Name):
            d = _sole_assign(rd, e.id)
            if d:
                return [x.value for x in d]
        return [e]
    vals = defs_of(stop)
    clamped = True
    for v in vals:
        t = txt(v)
        if t == "self.length":
            continue
        if isinstance(v, ast.Call) and call_name(v) == "min" and any(
                txt(a) == "self.length" for a in v.args):
            continue
        clamped = False
    ctx.ob("R19.3", clamped, "the end of the requested range is clamped to "
           "the resource length on every path" if clamped else
           f"the end of the requested range (`{short(stop, 40)}`) is not "
           f"bounded by the resource length: read(n) past the end requests "
           f"unsatisfiable ranges", node=c, label="read end clamped")
    # negative / None means to the end
    neg = [n for n in walk(rd) if isinstance(n, ast.If)
           and size in names_in(n.test) and any(
               isinstance(x, ast.Compare) and isinstance(
                   x.ops[0], (ast.Lt, ast.LtE, ast.Is, ast.Gt, ast.GtE))
               for x in ast.walk(n.test))]
    to_end = False
    for n in neg:
        # the branch where size is negative assigns stop = self.length
        for body in (n.body, n.orelse):
            for s in body:
                if isinstance(s, ast.Assign) and txt(s.value) == \
                        "self.length" and isinstance(stop, ast.Name) \
                        and txt(s.targets[0]) == stop.id:
                    to_end = True
    ctx.ob("R19.3", to_end, "read() / read(-1) reads up to the end of the "
           "resource" if to_end else
           "a negative size is not translated into 'up to the end': "
           "read() returns b''", node=neg[0] if neg else rd,
           label="negative size reads to end")
    # start never beyond stop
    start = c.args[0]
    svals = defs_of(start)
    ok = all(isinstance(v, ast.Call) and call_name(v) == "min"
             for v in svals) or txt(start) == "self._pos" and False
    ctx.ob("R19.3", ok, "the start of the range never exceeds its end" if ok
           else "a position beyond the end yields a negative range",
           node=c, label="start bounded by stop")


def r194(ctx, repo):
    sk = repo.func(HU, "HTTPFile.seek")
    modes = {}
    for n in walk(sk):
        if isinstance(n, ast.If) and isinstance(n.test, ast.Compare):
            m = txt(n.test.comparators[0]).split(".")[-1]
            for s in n.body:
                if isinstance(s, (ast.Assign, ast.AugAssign)):
                    modes[m] = s
    want = {"SEEK_SET": ("Assign", "offset"),
            "SEEK_CUR": ("AugAssign", "offset"),
            "SEEK_END": ("Assign", "self.length + offset")}
    for m, (kind, val) in want.items():
        s = modes.get(m)
        ok = s is not None and type(s).__name__ == kind and txt(
            s.value) in (val, "offset + self.length") and "_pos" in txt(
            s.targets[0] if isinstance(s, ast.Assign) else s.target)
        ctx.ob("R19.4", bool(ok), f"seek({m}) sets the position correctly"
               if ok else f"seek({m}) branch missing or wrong", node=s or sk,
               key=f"{HU}::HTTPFile.seek::mode {m}")
    tl = repo.func(HU, "HTTPFile.tell")
    ok = any(isinstance(n, ast.Return) and is_self_attr(n.value, "_pos")
             for n in walk(tl))
    ctx.ob("R19.4", ok, "tell returns the position" if ok else
           "tell does not return the position", node=tl, label="tell")
    rd = repo.func(HU, "HTTPFile.read")
    adv = [n for n in walk(rd) if isinstance(n, ast.AugAssign)
           and is_self_attr(n.target, "_pos")]
    ok = bool(adv) and all(txt(n.value).startswith("len(") for n in adv)
    ctx.ob("R19.4", ok, "read advances the position by the number of bytes "
           "returned" if ok else "read advances the position by something "
           "other than the number of bytes returned", node=adv[0] if adv
           else rd, label="read advances by returned")
    ret = [n for n in walk(rd) if isinstance(n, ast.Return)]
    c = find_calls(rd, attr="read_range_cached")
    ok = bool(ret) and bool(c) and all(isinstance(r.value, ast.Name)
                                       for r in ret)
    ctx.ob("R19.4", ok, "read returns the bytes assembled from the cache"
           if ok else "read does not return the assembled bytes",
           node=rd, label="read returns data", nontrivial=False)


def r195(ctx, repo):
    for rel, cls, attr in ((HT, "RTDC_HTTP", "_fhttp"),
                           (S3, "RTDC_S3", "_s3file")):
        init = repo.func(rel, f"{cls}.__init__")
        sup = [c for c in find_calls(init, attr="__init__")
               if "super" in txt(c.func)]
        ok = bool(sup) and kwarg(sup[-1], "h5path") is not None and \
            is_self_attr(kwarg(sup[-1], "h5path"), attr)
        ctx.ob("R19.5", ok, f"{cls} hands its range-cached file object to "
               f"the HDF5 reader" if ok else
               f"{cls} does not pass its file object as h5path", node=init,
               label="hand-over h5path")
        fmt = cls.split("_")[-1].lower()
        ctx.ob("R19.5", fmt != "hdf5", f"{cls} has format '{fmt}' (not "
               f"'hdf5'): local basins stay disabled", node=init,
               label="non-local format", nontrivial=False)
    base = repo.func(CORE, "RTDCBase.__init__")
    f = [n for n in walk(base) if isinstance(n, ast.Assign)
         and is_self_attr(n.targets[0], "format")]
    fsrc = expand_locals(base, f[0].value) if f else ""
    ok = bool(f) and "__class__.__name__" in fsrc and \
        "split('_')" in fsrc and "[-1]" in fsrc and ".lower()" in fsrc
    ctx.ob("R19.5", ok, "format derives from the class-name suffix" if ok
           else "format derivation changed – re-confirm non-local formats",
           node=f[0] if f else base, label="format from class name")
    h5 = repo.func(H5, "RTDC_HDF5.__init__")
    lb = [n for n in walk(h5) if isinstance(n, ast.Assign)
          and is_self_attr(n.targets[0], "_local_basins_allowed")]
    ok = len(lb) == 1 and "self.format == 'hdf5'" in txt(lb[0].value)
    ctx.ob("R19.5", ok, "local basins are enabled only for format 'hdf5'"
           if ok else "local basins enabled for formats other than 'hdf5'",
           node=lb[0] if lb else h5, label="local basins only hdf5")
    # the restriction concerns basins of type "file" only: a remote
    # dataset still follows its internal and remote basins (what the same
    # bytes expose when opened locally)
    br = repo.func(CORE, "RTDCBase.basins_retrieve")
    guards = [n for n in walk(br) if isinstance(n, ast.If)
              and "_local_basins_allowed" in txt(n.test)]
    if not guards:
        raise AnalysisError("basins_retrieve: _local_basins_allowed test "
                            "lost")

    def type_sets(test):
        """sets of basin types a test restricts to ('type' == const / in
        literal table), None if it does not restrict the type"""
        out = []
        for c in ast.walk(test):
            if not (isinstance(c, ast.Compare) and len(c.ops) == 1):
                continue
            left = expand_locals(br, c.left)
            if "type" in left and "[" in left and "basin_type" not in left:
                rhs = c.comparators[0]
                if isinstance(c.ops[0], ast.Eq) and const_str(rhs):
                    out.append({const_str(rhs)})
                elif isinstance(c.ops[0], ast.In):
                    lit = rhs
                    if isinstance(rhs, (ast.Name, ast.Attribute)):
                        nm = rhs.id if isinstance(rhs, ast.Name) else rhs.attr
                        lit = None
                        for rel_ in (CORE,
                                     "dclab/rtdc_dataset/feat_basin.py"):
                            v = repo.module_assign(rel_, nm, missing_ok=True)
                            if v is not None:
                                lit = v
                    if isinstance(lit, (ast.List, ast.Tuple, ast.Set)) and \
                            all(const_str(e) for e in lit.elts):
                        out.append({const_str(e) for e in lit.elts})
                    else:
                        raise AnalysisError(
                            "basins_retrieve: basin-type table "
                            f"`{short(rhs, 30)}` cannot be folded")
        return out
    for g in guards:
        sets = type_sets(g.test)
        n_ = g.parent
        while n_ is not None and n_ is not br:
            if isinstance(n_, ast.If) and any(
                    x is g or any(y is g for y in ast.walk(x))
                    for x in n_.body):
                sets += type_sets(n_.test)
            n_ = getattr(n_, "parent", None)
        if not sets:
            raise AnalysisError("basins_retrieve: the _local_basins_allowed "
                                "test is not tied to a basin type")
        types = set.intersection(*sets)
        ok = types <= {"file"}
        ctx.ob("R19.5", ok, "only basins of type 'file' are refused for "
               "non-local formats" if ok else
               f"basins of type {sorted(types - {'file'})} are refused for "
               f"remote formats as well: a dataset opened over HTTP/S3 loses "
               f"features the same file exposes when opened locally",
               node=g, label="local restriction = file basins only")


def r196(ctx, repo):
    """Per-instance state and a single chunk store.

    (a) every attribute of the file object that methods mutate or re-bind
        (chunk cache, length, etag, position) is created per instance in
        __init__ – a class-level mutable default is shared by every open
        resource;
    (b) the chunk cache `self.cache` is the only place that holds downloaded
        bytes: no memoising decorator on the download / chunk routines of
        HTTPFile and its subclasses (a memo keeps every chunk ever downloaded
        alive although the cache evicts them)."""
    cls = repo.cls(HU, "HTTPFile")
    init = repo.func(HU, "HTTPFile.__init__")
    inited = {t.attr for n in walk(init) if isinstance(n, ast.Assign)
              for t in n.targets if is_self_attr(t)}
    # attributes written / mutated through self in the other methods
    touched = {}
    inplace = set()
    for f in [x for x in cls.body if isinstance(x, ast.FunctionDef)
              and x.name != "__init__"]:
        for n in walk(f):
            if isinstance(n, (ast.Assign, ast.AugAssign)):
                tg = n.targets if isinstance(n, ast.Assign) else [n.target]
                for t in tg:
                    if is_self_attr(t):
                        touched.setdefault(t.attr, n)
                    if isinstance(t, ast.Subscript) and is_self_attr(t.value):
                        touched.setdefault(t.value.attr, n)
                        inplace.add(t.value.attr)
            if isinstance(n, ast.Call) and isinstance(
                    n.func, ast.Attribute) and is_self_attr(
                    n.func.value) and n.func.attr in (
                    "pop", "clear", "update", "append", "setdefault",
                    "popitem"):
                touched.setdefault(n.func.value.attr, n)
                inplace.add(n.func.value.attr)
    class_level = {}
    for st in cls.body:
        if isinstance(st, ast.Assign):
            for t in st.targets:
                if isinstance(t, ast.Name):
                    class_level[t.id] = st.value
    for attr, node in sorted(touched.items()):
        shared = attr in class_level and isinstance(
            class_level[attr], (ast.Dict, ast.List, ast.Set, ast.Call,
                                ast.ListComp, ast.DictComp))
        # an immutable class-level default that methods only re-bind is
        # per-instance in effect
        benign_default = (attr in class_level and isinstance(
            class_level[attr], ast.Constant) and attr not in inplace)
        ok = attr in inited or benign_default
        ctx.ob("R19.6", ok,
               f"state `{attr}` is created per instance in __init__" if ok
               else f"state `{attr}` is not created in __init__"
               + (" but is a class-level mutable object: every open "
                  "resource shares it (chunks of one file are served for "
                  "another)" if shared else
                  ": it is shared through the class / missing"),
               node=node, key=f"{HU}::HTTPFile::per-instance {attr}")
    # (b) no memoising decorator on the byte-moving routines
    MEMO = ("lru_cache", "cache", "cached_property", "Cache", "memoize")
    for rel, cname in ((HU, "HTTPFile"), (S3, "S3File")):
        c = repo.cls(rel, cname)
        for f in [x for x in c.body if isinstance(x, ast.FunctionDef)]:
            if f.name not in ("download_range", "get_cache_chunk",
                              "read_range_cached", "read"):
                continue
            bad = [txt(d) for d in f.decorator_list
                   if any(m in txt(d) for m in MEMO)]
            ctx.ob("R19.6", not bad,
                   f"{cname}.{f.name} is not memoised (the chunk cache is "
                   f"the only store)" if not bad else
                   f"{cname}.{f.name} is wrapped by `{bad[0]}`: the memo "
                   f"keeps every downloaded chunk alive although the chunk "
                   f"cache evicts them – the configured memory bound is "
                   f"broken", node=f,
                   key=f"{rel}::{cname}.{f.name}::not memoised")


def r197(ctx, repo):
    """The resource that is read is the one that was named.

    (a) the attributes that identify the remote resource (`url`, `session`
        for HTTPFile; `s3_object`, `s3_resource`, `s3_session`, `s3_client`
        for S3File) are bound in ``__init__`` only – re-binding them later
        (e.g. to a redirect target) makes later range requests address
        something else than what the length / etag / cached chunks belong to;
    (b) where fmt_s3 combines an endpoint or credential from several
        sources with ``or``, the explicit argument comes first, a value
        derived from the URL second, the environment default last."""
    ident = {HU: ("HTTPFile", {"url", "session"}),
             S3: ("S3File", {"url", "session", "s3_object", "s3_resource",
                             "s3_session", "s3_client"})}
    for rel, (cname, attrs) in ident.items():
        c = repo.cls(rel, cname)
        seen_init = set()
        for f in [x for x in c.body if isinstance(x, ast.FunctionDef)]:
            for n in walk(f):
                tg = []
                if isinstance(n, ast.Assign):
                    tg = n.targets
                elif isinstance(n, (ast.AugAssign, ast.AnnAssign)):
                    tg = [n.target]
                elif isinstance(n, ast.Delete):
                    tg = n.targets
                elif isinstance(n, ast.Call) and call_name(n) == "setattr" \
                        and len(n.args) >= 2 and txt(n.args[0]) == "self":
                    nm = const_str(n.args[1])
                    if nm is None:
                        raise AnalysisError(
                            f"{cname}.{f.name}: setattr(self, <computed>)")
                    if nm in attrs and f.name != "__init__":
                        ctx.ob("R19.7", False,
                               f"{cname}.{f.name} re-binds the resource "
                               f"identity `{nm}` through setattr", node=n,
                               key=f"{rel}::{cname}::identity {nm} fixed")
                for t in tg:
                    for el in (t.elts if isinstance(t, (ast.Tuple, ast.List))
                               else [t]):
                        if is_self_attr(el) and el.attr in attrs:
                            if f.name == "__init__":
                                seen_init.add(el.attr)
                            else:
                                ctx.ob("R19.7", False,
                                       f"{cname}.{f.name} re-binds "
                                       f"`self.{el.attr}` after construction:"
                                       f" later range requests address "
                                       f"another location than the one the "
                                       f"length, etag and cached chunks "
                                       f"belong to", node=n,
                                       key=f"{rel}::{cname}::identity "
                                           f"{el.attr} fixed")
        for a in sorted(seen_init):
            ctx.ob("R19.7", True, f"{cname}: `{a}` is bound in __init__ only",
                   node=c, key=f"{rel}::{cname}::identity {a} fixed")
        if not seen_init:
            raise AnalysisError(f"{cname}.__init__ binds no identity "
                                f"attribute")
    # (b) precedence in or-chains of fmt_s3
    tree = repo.tree(S3)
    env_names = set()
    for st in tree.body:
        if isinstance(st, ast.Assign) and isinstance(st.value, ast.Call) \
                and "environ" in txt(st.value.func):
            env_names |= {t.id for t in st.targets if isinstance(t, ast.Name)}
    if not env_names:
        raise AnalysisError("fmt_s3: environment defaults not found")
    n_chain = 0
    for q, f in repo.all_functions(S3):
        params = {a.arg for a in f.args.args + f.args.kwonlyargs}
        for n in walk(f):
            if not (isinstance(n, ast.BoolOp) and isinstance(n.op, ast.Or)):
                continue
            kinds = []
            for v in n.values:
                if isinstance(v, ast.Name) and v.id in env_names:
                    kinds.append("env")
                elif isinstance(v, ast.Name) and v.id in params:
                    kinds.append("arg")
                elif isinstance(v, ast.Call) and (call_name(v) or "") \
                        .startswith("get_"):
                    kinds.append("url")
                elif isinstance(v, ast.Constant):
                    kinds.append("lit")      # last-resort literal
                else:
                    kinds.append("other")
            if "env" not in kinds:
                continue
            n_chain += 1
            rank = {"arg": 0, "url": 1, "other": 1, "env": 2, "lit": 3}
            ok = [rank[k] for k in kinds] == sorted(rank[k] for k in kinds)
            ctx.ob("R19.7", ok,
                   f"{q}: `{short(n, 50)}` prefers the explicit argument, "
                   f"then the URL, then the environment default" if ok else
                   f"{q}: `{short(n, 60)}` lets the environment default "
                   f"override what the URL (or the caller) names: the object "
                   f"is read from another server", node=n,
                   key=f"{S3}::{q}::source precedence "
                       f"{'/'.join(sorted(set(txt(v) for v in n.values if isinstance(v, ast.Name) and v.id in env_names)))}"
                       )
    if n_chain < 4:
        raise AnalysisError(f"fmt_s3: only {n_chain} source-precedence "
                            f"chains found (6 confirmed by hand)")


def run(ctx):
    repo = ctx.repo
    ctx.rule("R19.7", "resource identity bound in __init__ only; explicit "
             "argument > URL > environment default", minimum=6)
    r197(ctx, repo)
    ctx.rule("R19.6", "per-instance state; the chunk cache is the only "
             "store of downloaded bytes", minimum=8)
    r196(ctx, repo)
    ctx.rule("R19.1", "range arithmetic of chunks, Range header (both "
             "siblings) and the chunk loop as affine forms", minimum=13)
    ctx.rule("R19.2", "eviction cannot remove the chunk being returned; "
             "chunk 0 pinned; bound inductive", minimum=5)
    ctx.rule("R19.3", "read range clamped to the resource; negative size = "
             "to the end", minimum=3)
    ctx.rule("R19.4", "seek/tell/read position protocol", minimum=5)
    ctx.rule("R19.5", "hand-over of the file object; non-local formats",
             minimum=5)
    r191(ctx, repo)
    r192(ctx, repo)
    r193(ctx, repo)
    r194(ctx, repo)
    r195(ctx, repo)


MUTANTS = [
    ("internal basins refused for remote formats (seeded C19_9)", CORE,
     ("            elif bdict[\"type\"] == \"file\":\n"
      "                if not self._local_basins_allowed:",
      "            elif bdict[\"type\"] in (\"file\", \"internal\") and "
      "not self._local_basins_allowed:\n"
      "                continue\n"
      "            elif bdict[\"type\"] == \"file\":\n"
      "                if not self._local_basins_allowed:"), "R19.5"),
    ("redirect target pinned as url (seeded C19_7)", HU,
     ('            self._len = int(resp.headers["content-length"])\n',
      '            self._len = int(resp.headers["content-length"])\n'
      '            self.url = resp.url\n'), "R19.7"),
    ("environment endpoint overrides the URL's (seeded C19_8)", S3,
     ("                          or get_endpoint_url(url)\n"
      "                          or S3_ENDPOINT_URL),",
      "                          or S3_ENDPOINT_URL\n"
      "                          or get_endpoint_url(url)),"), "R19.7"),
    ("environment credentials override the caller's", S3,
     ("            access_key_id=(access_key_id\n"
      "                           or S3_ACCESS_KEY_ID\n",
      "            access_key_id=(S3_ACCESS_KEY_ID\n"
      "                           or access_key_id\n"), "R19.7"),
    ("chunk cache as class attribute (seeded C19_5)", HU,
     [("        self.cache = {}\n", ""),
      ("class HTTPFile(io.IOBase):\n",
       "class HTTPFile(io.IOBase):\n    cache = {}\n")], "R19.6"),
    ("s3 download memoised (seeded C19_6)", S3,
     ("    def download_range(self, start, stop):\n"
      "        \"\"\"Download bytes given by the range (`start`, `stop`)\n\n"
      "        `stop` is not inclusive (In the HTTP range request it normally "
      "is).\n        \"\"\"\n        stream = self.s3_object",
      "    @functools.lru_cache(maxsize=None)\n"
      "    def download_range(self, start, stop):\n"
      "        stream = self.s3_object"), "R19.6"),
    ("s3: empty-range short-cut off by one (seeded C19_3)", S3,
     ('        stream = self.s3_object.get(',
      '        last = stop - 1\n        if last <= start:\n'
      '            return b""\n        stream = self.s3_object.get('),
     "R19.1"),
    ("range header inclusive stop", HU,
     ('headers={"Range": f"bytes={start}-{stop-1}"}',
      'headers={"Range": f"bytes={start}-{stop}"}'), "R19.1"),
    ("s3 range header off by one", S3,
     ('Range=f"bytes={start}-{stop-1}"', 'Range=f"bytes={start}-{stop}"'),
     "R19.1"),
    ("s3 range header start+1", S3,
     ('Range=f"bytes={start}-{stop-1}"', 'Range=f"bytes={start+1}-{stop-1}"'),
     "R19.1"),
    ("chunk start off", HU,
     ("            start = index*self._chunk_size\n",
      "            start = index*self._chunk_size + 1\n"), "R19.1"),
    ("chunk end unclamped", HU,
     ("stop = min((index+1)*self._chunk_size, self.length)",
      "stop = (index+1)*self._chunk_size"), "R19.1"),
    ("chunk end short", HU,
     ("stop = min((index+1)*self._chunk_size, self.length)",
      "stop = min((index+1)*self._chunk_size - 1, self.length)"), "R19.1"),
    ("boundary test strict", HU,
     ("elif chunk_start + toread >= self._chunk_size:",
      "elif chunk_start + toread > self._chunk_size:"), "R19.1"),
    ("last chunk index excluded", HU,
     ("chunk_stop = np.int64(stop // self._chunk_size + 1)",
      "chunk_stop = np.int64(stop // self._chunk_size)"), "R19.1"),
    ("offset from start not pos", HU,
     ("            chunk_start = pos % self._chunk_size\n",
      "            chunk_start = start % self._chunk_size\n"), "R19.1"),
    ("pos not advanced", HU,
     ("            pos += chunks_read\n", ""), "R19.1"),
    ("partial chunk end from pos", HU,
     ("                chunk_end = stop % self._chunk_size\n",
      "                chunk_end = (stop - 1) % self._chunk_size\n"),
     "R19.1"),
    ("wrong chunk fetched", HU,
     ("chunk = self.get_cache_chunk(chunk_index)",
      "chunk = self.get_cache_chunk(chunk_start)"), "R19.1"),
    ("eviction before binding (F19a returns)", HU,
     [("        chunk = self.cache[index]\n", ""),
      ("        return chunk\n", "        return self.cache[index]\n")],
     "R19.2"),
    ("eviction also skips the requested chunk (seeded C19_2)", HU,
     ("                if kk != 0:  # always keep the first chunk\n",
      "                if kk != 0 and kk != index:\n"), "R19.2"),
    ("first chunk unpinned", HU,
     ("                if kk != 0:  # always keep the first chunk\n"
      "                    self.cache.pop(kk)\n"
      "                    break\n",
      "                if True:\n"
      "                    self.cache.pop(kk)\n"
      "                    break\n"), "R19.2"),
    ("eviction loop without break", HU,
     ("                    self.cache.pop(kk)\n                    break\n",
      "                    self.cache.pop(kk)\n"), "R19.2"),
    ("size test removed", HU,
     ("        if len(self.cache) > self._keep_chunks:\n",
      "        if len(self.cache) > self._keep_chunks + 100:\n"), "R19.2"),
    ("read unclamped (F19c returns)", HU,
     ("            stop = min(self._pos + size, self.length)\n",
      "            stop = self._pos + size\n"), "R19.3"),
    ("negative size not to end (F19b returns)", HU,
     ("        if size is None or size < 0:\n"
      "            # read until the end of the file\n"
      "            stop = self.length\n"
      "        else:\n"
      "            # never read beyond the end of the file\n"
      "            stop = min(self._pos + size, self.length)\n",
      "        stop = min(self._pos + size, self.length)\n"), "R19.3"),
    ("position advanced by requested size", HU,
     ("        self._pos += len(data)\n", "        self._pos += size\n"),
     "R19.4"),
    ("seek end ignores offset", HU,
     ("            self._pos = self.length + offset\n",
      "            self._pos = self.length\n"), "R19.4"),
    ("seek cur absolute", HU,
     ("            self._pos += offset\n", "            self._pos = offset\n"),
     "R19.4"),
    ("http hands over url", HT,
     ("            h5path=self._fhttp,\n", "            h5path=url,\n"),
     "R19.5"),
    ("local basins for all hdf5 subclasses", H5,
     ('self._local_basins_allowed = True if self.format == "hdf5" else False',
      'self._local_basins_allowed = True'), "R19.5"),
]

TWINS = [
    ("immutable defaults declared at class level", HU,
     [("        self._len = None\n        self._etag = None\n"
       "        self._pos = 0\n", ""),
      ("class HTTPFile(io.IOBase):\n",
       "class HTTPFile(io.IOBase):\n    _len = None\n    _etag = None\n"
       "    _pos = 0\n")]),
    ("s3: correct empty-range short-cut", S3,
     ('        stream = self.s3_object.get(',
      '        last = stop - 1\n        if last < start:\n'
      '            return b""\n        stream = self.s3_object.get(')),
    ("range header through locals (refactor C19/2)", HU,
     ('        resp = self.session.get(self.url,\n'
      '                                headers={"Range": '
      'f"bytes={start}-{stop-1}"}\n'
      '                                )\n',
      '        last_byte = stop - 1\n'
      '        range_header = {"Range": f"bytes={start}-{last_byte}"}\n'
      '        resp = self.session.get(self.url, headers=range_header)\n')),
    ("chunk index range extracted (refactor C19/4)", HU,
     [("        chunk_start = np.int64(start // self._chunk_size)\n"
       "        chunk_stop = np.int64(stop // self._chunk_size + 1)\n"
       "        data = b\"\"\n",
       "        data = b\"\"\n"),
      ("        for chunk_index in range(chunk_start, chunk_stop):\n",
       "        for chunk_index in self._chunk_indices(start, stop):\n"),
      ("    def seek(self, offset, whence=os.SEEK_SET):",
       "    def _chunk_indices(self, start, stop):\n"
       "        chunk_start = np.int64(start // self._chunk_size)\n"
       "        chunk_stop = np.int64(stop // self._chunk_size + 1)\n"
       "        return range(chunk_start, chunk_stop)\n\n"
       "    def seek(self, offset, whence=os.SEEK_SET):")]),
    ("last chunk index commuted (refactor C19/5)", HU,
     ("chunk_stop = np.int64(stop // self._chunk_size + 1)",
      "chunk_stop = np.int64(1 + stop // self._chunk_size)")),
    ("chunk start commuted", HU,
     ("            start = index*self._chunk_size\n",
      "            start = self._chunk_size * index\n")),
    ("chunk end min args swapped", HU,
     ("stop = min((index+1)*self._chunk_size, self.length)",
      "stop = min(self.length, self._chunk_size * (index + 1))")),
    ("boundary test mirrored", HU,
     ("elif chunk_start + toread >= self._chunk_size:",
      "elif self._chunk_size <= toread + chunk_start:")),
    ("read: early binding of length", HU,
     ("            stop = min(self._pos + size, self.length)\n",
      "            stop = min(self.length, size + self._pos)\n")),
]
